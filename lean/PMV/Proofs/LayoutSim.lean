import PMV.Spec.Layout
/-
  T02.5: the character-level printer state machine refines the layout-token machine: for every token stream whose token
  texts are `textOK`, the accumulated code is the characters of the layout tokens, and indent / previous-token class agree.
-/
namespace PMV.Spec.Layout
open PMV PMV.Token PMV.Printer

/-- the simulation relation -/
structure Sim (st : St) (ls : LSt) : Prop where
  code : st.code = revCode ls.acc
  indent : st.indent = ls.indent
  prev : st.prev = ls.prev

theorem revCode_nil_iff (acc : List LTok) (h : ∀ x ∈ acc, ∀ sp tok, x = .t sp tok → textOK tok = true ∧ Spec.Lex.isLayout tok = false) :
    revCode acc = [] ↔ acc = [] := by
  constructor
  · intro hc
    cases acc with
    | nil => rfl
    | cons x xs =>
      exfalso
      cases x with
      | t sp tok =>
        have := h _ (List.mem_cons_self) sp tok rfl
        simp only [textOK, this.2, Bool.false_or] at this
        simp only [revCode, LTok.revChars] at hc
        cases hr : (Spec.Lex.text tok).toList.reverse with
        | nil => rw [hr] at this; simp at this
        | cons c cs => rw [hr] at hc; simp at hc
      | nl d => simp [revCode, LTok.revChars] at hc
      | semi => simp [revCode, LTok.revChars] at hc
  · rintro rfl; rfl

/-- stripping `'\n' '\t' ';'` from the code is dropping the trailing layout tokens -/
theorem dropWhile_revCode (acc : List LTok) (h : ∀ x ∈ acc, ∀ sp tok, x = .t sp tok → textOK tok = true ∧ Spec.Lex.isLayout tok = false) :
    (revCode acc).dropWhile stripChar = revCode (acc.dropWhile LTok.isLay) := by
  induction acc with
  | nil => rfl
  | cons x xs ih =>
    have ih' := ih (fun y hy => h y (List.mem_cons_of_mem _ hy))
    cases x with
    | t sp tok =>
      have := h _ (List.mem_cons_self) sp tok rfl
      simp only [textOK, this.2, Bool.false_or] at this
      simp only [revCode, LTok.revChars, List.dropWhile_cons, LTok.isLay]
      cases hr : (Spec.Lex.text tok).toList.reverse with
      | nil => rw [hr] at this; simp at this
      | cons c cs =>
        rw [hr] at this
        simp only [Bool.not_eq_true'] at this
        simp [List.dropWhile_cons, this, revCode, LTok.revChars, hr]
    | nl d =>
      simp only [revCode, LTok.revChars, List.dropWhile_cons, LTok.isLay, if_true]
      rw [← ih']
      have : ∀ (n : Nat) (rest : List Char), (List.replicate n '\t' ++ rest).dropWhile stripChar = rest.dropWhile stripChar := by
        intro n rest
        induction n with
        | zero => rfl
        | succ n ihn => simp [List.replicate_succ, List.dropWhile_cons, stripChar, ihn]
      rw [List.append_assoc, this]
      simp [List.dropWhile_cons, stripChar]
    | semi =>
      simp only [revCode, LTok.revChars, List.dropWhile_cons, LTok.isLay, if_true]
      rw [← ih']
      simp [List.dropWhile_cons, stripChar]

def AccOK (acc : List LTok) : Prop := ∀ x ∈ acc, ∀ sp tok, x = .t sp tok → textOK tok = true ∧ Spec.Lex.isLayout tok = false

theorem AccOK.dropWhile {acc : List LTok} (h : AccOK acc) : AccOK (acc.dropWhile LTok.isLay) :=
  fun x hx => h x (List.dropWhile_suffix _ |>.subset hx)

theorem sim_newline {st : St} {ls : LSt} (h : Sim st ls) (hok : AccOK ls.acc) :
    Sim (doNewline st) (lnewline ls) ∧ AccOK (lnewline ls).acc := by
  unfold doNewline lnewline
  have he : st.code.isEmpty = ls.acc.isEmpty := by
    rw [h.code]
    cases hacc : ls.acc with
    | nil => rfl
    | cons x xs =>
      have := (revCode_nil_iff ls.acc hok)
      rw [hacc] at this
      cases hc : revCode (x :: xs) with
      | nil => exact absurd (this.mp hc) (by simp)
      | cons _ _ => rfl
  rw [he]
  by_cases hemp : ls.acc.isEmpty = true
  · simp only [hemp, if_true]; exact ⟨h, hok⟩
  · simp only [hemp, Bool.false_eq_true, if_false]
    refine ⟨⟨?_, h.indent, rfl⟩, ?_⟩
    · simp only [revCode, LTok.revChars]
      rw [h.code, dropWhile_revCode _ hok, h.indent]
      simp
    · intro x hx sp tok hxe
      rcases List.mem_cons.mp hx with rfl | hx
      · cases hxe
      · exact hok.dropWhile x hx sp tok hxe

theorem sim_push {st : St} {ls : LSt} (h : Sim st ls) (hok : AccOK ls.acc) (c : Bool) (tok : Tok) (ty : TokType)
    (ht : textOK tok = true) (hl : Spec.Lex.isLayout tok = false) :
    Sim (push (spaceIf st c) (Spec.Lex.text tok) ty) (lpush ls c tok ty) ∧ AccOK (lpush ls c tok ty).acc := by
  refine ⟨⟨?_, ?_, rfl⟩, ?_⟩
  · unfold push spaceIf lpush
    cases c <;> simp [revCode, LTok.revChars, h.code]
  · unfold push spaceIf lpush
    cases c <;> simp [h.indent]
  · intro x hx sp tok' hxe
    rcases List.mem_cons.mp hx with rfl | hx
    · cases hxe; exact ⟨ht, hl⟩
    · exact hok x hx sp tok' hxe

/-- the code ends in `;` exactly when the last layout token is a `;` -/
theorem semi_head_iff {st : St} {ls : LSt} (h : Sim st ls) (hok : AccOK ls.acc) :
    (∃ tl, st.code = ';' :: tl) ↔ (∃ tl, ls.acc = .semi :: tl) := by
  rw [h.code]
  cases hacc : ls.acc with
  | nil => simp [revCode]
  | cons x xs =>
    have hokx : AccOK (x :: xs) := hacc ▸ hok
    cases x with
    | semi => simp [revCode, LTok.revChars]
    | nl d =>
      cases d with
      | zero => simp [revCode, LTok.revChars]
      | succ d => simp [revCode, LTok.revChars, List.replicate_succ]
    | t sp' tok' =>
      have hx := hokx _ List.mem_cons_self sp' tok' rfl
      simp only [textOK, hx.2, Bool.false_or] at hx
      cases hr : (Spec.Lex.text tok').toList.reverse with
      | nil => rw [hr] at hx; simp at hx
      | cons c cs =>
        rw [hr] at hx
        have hcne : c ≠ ';' := by
          intro hc; subst hc; simp [stripChar] at hx
        simp [revCode, LTok.revChars, hr, hcne]

/-- one step of the two machines -/
theorem sim_step (sp : Spacing) {st : St} {ls : LSt} (h : Sim st ls) (hok : AccOK ls.acc) (tok : Tok) (ht : textOK tok = true) :
    Sim (step sp st tok) (lstep sp ls tok) ∧ AccOK (lstep sp ls tok).acc := by
  cases tok with
  | ident x => simp only [step, lstep]; rw [h.prev]; exact sim_push h hok _ (.ident x) _ ht rfl
  | kw x => simp only [step, lstep]; rw [h.prev]; exact sim_push h hok _ (.kw x) _ ht rfl
  | strLit r => simp only [step, lstep]; rw [h.prev]; exact sim_push h hok _ (.strLit r) _ ht rfl
  | bytesLit r => simp only [step, lstep]; rw [h.prev]; exact sim_push h hok _ (.bytesLit r) _ ht rfl
  | fstr x => simp only [step, lstep]; rw [h.prev]; exact sim_push h hok _ (.fstr x) _ ht rfl
  | num x => simp only [step, lstep]; rw [h.prev]; exact sim_push h hok _ (.num x) _ ht rfl
  | delim x =>
    simp only [step, lstep]
    have := sim_push h hok false (.delim x) .delimiter ht rfl
    simpa [spaceIf, Spec.Lex.text] using this
  | op x =>
    simp only [step, lstep]
    have := sim_push h hok false (.op x) .operator ht rfl
    simpa [spaceIf, Spec.Lex.text] using this
  | newline => exact sim_newline h hok
  | indentInc => exact ⟨⟨h.code, by simp [step, lstep, h.indent], h.prev⟩, hok⟩
  | indentDec => exact ⟨⟨h.code, by simp [step, lstep, h.indent], h.prev⟩, hok⟩
  | endStmt =>
    simp only [step, lstep]
    rw [h.indent]
    by_cases h0 : (ls.indent == 0) = true
    · simp only [h0, if_true]
      obtain ⟨hs, ha⟩ := sim_newline h hok
      exact ⟨⟨hs.code, hs.indent, rfl⟩, ha⟩
    · simp only [h0, Bool.false_eq_true, if_false]
      have hiff := semi_head_iff h hok
      have hok' : AccOK (.semi :: ls.acc) := by
        intro y hy sp' tok' hye
        rcases List.mem_cons.mp hy with rfl | hy
        · cases hye
        · exact hok y hy sp' tok' hye
      split
      · rename_i tl hcode
        obtain ⟨tl', hacc⟩ := hiff.mp ⟨tl, hcode⟩
        split
        · exact ⟨⟨h.code, rfl, rfl⟩, hok⟩
        · rename_i hne; exact absurd hacc (hne tl')
      · rename_i hne
        split
        · rename_i tl' hacc
          obtain ⟨tl, hcode⟩ := hiff.mpr ⟨tl', hacc⟩
          exact absurd hcode (hne tl)
        · exact ⟨⟨by simp [revCode, LTok.revChars, h.code], rfl, rfl⟩, hok'⟩

theorem sim_run_aux (sp : Spacing) (ts : List Tok) (hts : ∀ tok ∈ ts, textOK tok = true) :
    ∀ (st : St) (ls : LSt), Sim st ls → AccOK ls.acc →
      Sim (ts.foldl (step sp) st) (ts.foldl (lstep sp) ls) ∧ AccOK (ts.foldl (lstep sp) ls).acc := by
  induction ts with
  | nil => intro st ls h hok; exact ⟨h, hok⟩
  | cons tok rest ih =>
    intro st ls h hok
    obtain ⟨h', hok'⟩ := sim_step sp h hok tok (hts tok List.mem_cons_self)
    exact ih (fun x hx => hts x (List.mem_cons_of_mem _ hx)) _ _ h' hok'

/-- T02.5 -/
theorem sim_run (sp : Spacing) (ts : List Tok) (hts : ∀ tok ∈ ts, textOK tok = true) :
    (run sp ts).code = revCode (lrun sp ts).acc ∧ (run sp ts).indent = (lrun sp ts).indent := by
  obtain ⟨h, _⟩ := sim_run_aux sp ts hts St.init LSt.init ⟨rfl, rfl, rfl⟩ (fun x hx => by cases hx)
  exact ⟨h.code, h.indent⟩

/-- the printed text is the characters of the layout tokens, trailing layout removed -/
theorem render_eq (sp : Spacing) (ts : List Tok) (hts : ∀ tok ∈ ts, textOK tok = true) :
    render sp ts = String.ofList (revCode ((lrun sp ts).acc.dropWhile LTok.isLay)).reverse := by
  obtain ⟨h, hok⟩ := sim_run_aux sp ts hts St.init LSt.init ⟨rfl, rfl, rfl⟩ (fun x hx => by cases hx)
  unfold render
  have hc : (run sp ts).code = revCode (lrun sp ts).acc := h.code
  rw [hc]
  have := dropWhile_revCode _ hok
  unfold lrun
  rw [this]

end PMV.Spec.Layout

import PMV.Proofs.Paren
namespace PMV.Printer
open PMV.Spec.Grammar

theorem isNone_parenOptExprs (t : PrecTable) : (ks : List (Option Expr)) →
    (parenOptExprs t ks).map Option.isNone = ks.map Option.isNone
  | [] => by simp [parenOptExprs]
  | none :: ks => by simp [parenOptExprs, parenOptExpr, isNone_parenOptExprs t ks]
  | some k :: ks => by simp [parenOptExprs, parenOptExpr, isNone_parenOptExprs t ks]

theorem isNumConst_slot (t : PrecTable) (v : Expr) (b : Bool) (hb : isNum v = true → b = true) :
    isNumConst (slotPrec b v (paren t v)) = false := by
  cases v with
  | constant c =>
    cases c <;> cases b <;> simp_all [isNum, slotPrec, slotExpr, wrapIf, needExprParen, paren, isNumConst]
  | tuple es => cases es <;> cases b <;> simp [slotPrec, slotExpr, wrapIf, needExprParen, paren, isNumConst]
  | _ => cases b <;> simp [slotPrec, slotExpr, wrapIf, needExprParen, paren, isNumConst]

variable (t : PrecTable) (h : TableOK t = true)
include h

mutual
theorem gp : (e : Expr) → WF e = true → Gram (paren t e) = true
  | .boolOp op vs, hwf => by
    simp only [WF, Bool.and_eq_true] at hwf
    simp only [paren, Gram]
    exact gpBoolVals op vs hwf.2
  | .namedExpr tg v, hwf => by
    simp only [WF, Bool.and_eq_true, decide_eq_true_eq] at hwf
    obtain ⟨⟨⟨⟨h1, h2⟩, h3⟩, h4⟩, h5⟩ := hwf
    simp only [paren, Gram, Bool.and_eq_true, decide_eq_true_eq, gram_slotExpr]
    refine ⟨⟨⟨?_, expr_slot_lvl t v h3⟩, gp tg h4⟩, gp v h5⟩
    simp only [slotExpr, lvl_wrapIf, lvl_paren]; split <;> omega
  | .binOp l op r, hwf => by
    simp only [WF, Bool.and_eq_true] at hwf
    obtain ⟨⟨⟨h1, h2⟩, h3⟩, h4⟩ := hwf
    simp only [paren, Gram, Bool.and_eq_true, decide_eq_true_eq, gram_slotPrec]
    exact ⟨⟨⟨slot_lvl t h (.binL op) l h3 h1 _ (Or.inr rfl), slot_lvl t h (.binR op) r h4 h2 _ (Or.inr rfl)⟩, gp l h3⟩, gp r h4⟩
  | .unaryOp op v, hwf => by
    simp only [WF, Bool.and_eq_true] at hwf
    simp only [paren, Gram, Bool.and_eq_true, decide_eq_true_eq, gram_slotPrec]
    exact ⟨slot_lvl t h (.unary op) v hwf.2 hwf.1 _ (Or.inr rfl), gp v hwf.2⟩
  | .lambda a b, hwf => by
    simp only [WF, Bool.and_eq_true] at hwf
    simp only [paren, Gram, Bool.and_eq_true, decide_eq_true_eq, gram_slotExpr]
    exact ⟨⟨expr_slot_lvl t b hwf.1.1, gpArguments a hwf.1.2⟩, gp b hwf.2⟩
  | .ifExp c b o, hwf => by
    simp only [WF, Bool.and_eq_true] at hwf
    obtain ⟨⟨⟨⟨⟨h1, h2⟩, h3⟩, h4⟩, h5⟩, h6⟩ := hwf
    simp only [paren, Gram, Bool.and_eq_true, decide_eq_true_eq, gram_slotPrec, gram_slotExpr]
    exact ⟨⟨⟨⟨⟨slot_lvl t h .ifBody c h4 h1 _ (Or.inr rfl), slot_lvl t h .ifBody b h5 h2 _ (Or.inr rfl)⟩,
      expr_slot_lvl t o h3⟩, gp c h4⟩, gp b h5⟩, gp o h6⟩
  | .dict ks vs, hwf => by
    simp only [WF, Bool.and_eq_true, beq_iff_eq] at hwf
    simp only [paren, Gram, Bool.and_eq_true, isNone_parenOptExprs]
    exact ⟨gpOpts ks hwf.1.2, gpDictVals ks vs hwf.1.1 hwf.2⟩
  | .set es, hwf => by
    simp only [WF] at hwf; simp only [paren, Gram]; exact gpItems es hwf
  | .listComp e gs, hwf => by
    simp only [WF, Bool.and_eq_true] at hwf
    simp only [paren, Gram, Bool.and_eq_true, decide_eq_true_eq, gram_slotExpr]
    exact ⟨⟨expr_slot_lvl t e hwf.1.1, gp e hwf.1.2⟩, gpComps gs hwf.2⟩
  | .setComp e gs, hwf => by
    simp only [WF, Bool.and_eq_true] at hwf
    simp only [paren, Gram, Bool.and_eq_true, decide_eq_true_eq, gram_slotExpr]
    exact ⟨⟨expr_slot_lvl t e hwf.1.1, gp e hwf.1.2⟩, gpComps gs hwf.2⟩
  | .generatorExp e gs, hwf => by
    simp only [WF, Bool.and_eq_true] at hwf
    simp only [paren, Gram, Bool.and_eq_true, decide_eq_true_eq, gram_slotExpr]
    exact ⟨⟨expr_slot_lvl t e hwf.1.1, gp e hwf.1.2⟩, gpComps gs hwf.2⟩
  | .dictComp k v gs, hwf => by
    simp only [WF, Bool.and_eq_true] at hwf
    obtain ⟨⟨⟨⟨h1, h2⟩, h3⟩, h4⟩, h5⟩ := hwf
    simp only [paren, Gram, Bool.and_eq_true, decide_eq_true_eq, gram_slotExpr]
    exact ⟨⟨⟨⟨expr_slot_lvl t k h1, expr_slot_lvl t v h2⟩, gp k h3⟩, gp v h4⟩, gpComps gs h5⟩
  | .await v, hwf => by
    simp only [WF, Bool.and_eq_true] at hwf
    simp only [paren, Gram, Bool.and_eq_true, decide_eq_true_eq, gram_slotPrec]
    exact ⟨slot_lvl t h .await v hwf.2 hwf.1 _ (Or.inr rfl), gp v hwf.2⟩
  | .yield v, hwf => by
    simp only [WF] at hwf; simp only [paren, Gram]; exact gpOpt v hwf
  | .yieldFrom v, hwf => by
    simp only [WF, Bool.and_eq_true] at hwf
    simp only [paren, Gram, Bool.and_eq_true, decide_eq_true_eq, gram_slotExpr]
    exact ⟨expr_slot_lvl t v hwf.1, gp v hwf.2⟩
  | .compare l ops cs, hwf => by
    simp only [WF, Bool.and_eq_true, beq_iff_eq, decide_eq_true_eq] at hwf
    obtain ⟨⟨⟨⟨h1, h2⟩, h3⟩, h4⟩, h5⟩ := hwf
    have hall : ∀ o : CmpOpK, t.get (cmpOpName o) = cmpP t := by
      intro o
      have := List.all_eq_true.mp (tableOK_cmp h) o (by cases o <;> simp [allCmpOps])
      simpa using this
    simp only [paren, Gram, Bool.and_eq_true, decide_eq_true_eq, gram_slotPrec]
    refine ⟨⟨?_, gp l h2⟩, gpComparators ops cs h3 h5⟩
    cases ops with
    | nil => simp at h4
    | cons o os =>
      simp only [hall o]
      exact slot_lvl t h .cmpLeft l h2 h1 _ (Or.inr rfl)
  | .call f as ks, hwf => by
    simp only [WF, Bool.and_eq_true] at hwf
    obtain ⟨⟨⟨h1, h2⟩, h3⟩, h4⟩ := hwf
    simp only [paren, Gram, Bool.and_eq_true, decide_eq_true_eq, gram_slotPrec]
    exact ⟨⟨⟨slot_lvl t h .callFunc f h2 h1 _ (Or.inr rfl), gp f h2⟩, gpItems as h3⟩, gpKeywords ks h4⟩
  | .joinedStr s ps, _ => by simp [paren, Gram]
  | .constant c, _ => by simp [paren, Gram]
  | .attribute v a, hwf => by
    simp only [WF, Bool.and_eq_true] at hwf
    simp only [paren, Gram, Bool.and_eq_true, decide_eq_true_eq, gram_slotPrec, Bool.not_eq_true']
    refine ⟨⟨?_, ?_⟩, gp v hwf.2⟩
    · by_cases hn : isNum v = true
      · exact slot_lvl t h .attrValue v hwf.2 hwf.1 _ (Or.inl (by simp [hn]))
      · exact slot_lvl t h .attrValue v hwf.2 hwf.1 _ (Or.inr (by simp [hn, Slot.decide]))
    · exact isNumConst_slot t v _ (fun hn => by simp [hn])
  | .subscript v s, hwf => by
    simp only [WF, Bool.and_eq_true, Bool.not_eq_true'] at hwf
    obtain ⟨⟨⟨h1, h2⟩, h3⟩, h4⟩ := hwf
    simp only [paren, Gram, Bool.and_eq_true, decide_eq_true_eq, gram_slotPrec, Bool.or_eq_true, beq_iff_eq,
      Bool.not_eq_true']
    refine ⟨⟨⟨slot_lvl t h .subValue v h2 h1 _ (Or.inr rfl), gp v h2⟩, ?_⟩, ?_⟩
    · cases s with
      | tuple es =>
        cases es with
        | nil => simp [paren, parenExprs, lvl]
        | cons e es => right; simp [paren, parenExprs, lvl, isStarred]
      | slice a b c => left; right; simp [slotExpr, needExprParen, wrapIf, paren, isSlice]
      | starred x => simp [isStarred] at h3
      | _ => left; left; exact expr_slot_lvl t _ (by simp [proper, isStarred, isSlice])
    · cases s with
      | tuple es => exact gp (.tuple es) h4
      | _ => simp only [gram_slotExpr]; exact gp _ h4
  | .starred v, hwf => by
    simp only [WF, Bool.and_eq_true] at hwf
    simp only [paren, Gram, Bool.and_eq_true, decide_eq_true_eq, gram_slotPrec]
    exact ⟨slot_lvl t h .starred v hwf.2 hwf.1 _ (Or.inr rfl), gp v hwf.2⟩
  | .name i c, _ => by simp [paren, Gram]
  | .list es, hwf => by
    simp only [WF] at hwf; simp only [paren, Gram]; exact gpItems es hwf
  | .tuple es, hwf => by
    simp only [WF] at hwf; simp only [paren, Gram]; exact gpItems es hwf
  | .slice l u s, hwf => by
    simp only [WF, Bool.and_eq_true] at hwf
    simp only [paren, Gram, Bool.and_eq_true]
    exact ⟨⟨gpOpt l hwf.1.1, gpOpt u hwf.1.2⟩, gpOpt s hwf.2⟩
  | .paren e, hwf => by simp [WF] at hwf
theorem gpItems : (es : List Expr) → wfItems es = true → gramItems (parenExprs t es) = true
  | [], _ => by simp [parenExprs, gramItems]
  | e :: es, hwf => by
    simp only [wfItems, Bool.and_eq_true] at hwf
    simp only [parenExprs, gramItems, Bool.and_eq_true, gram_slotExpr]
    exact ⟨⟨item_ok t e, gp e hwf.1⟩, gpItems es hwf.2⟩
theorem gpOperands1 : (es : List Expr) → wfOperands es = true → gramAll 1 (parenExprs t es) = true
  | [], _ => by simp [parenExprs, gramAll]
  | e :: es, hwf => by
    simp only [wfOperands, Bool.and_eq_true] at hwf
    simp only [parenExprs, gramAll, Bool.and_eq_true, decide_eq_true_eq, gram_slotExpr]
    exact ⟨⟨expr_slot_lvl t e hwf.1.1, gp e hwf.1.2⟩, gpOperands1 es hwf.2⟩
theorem gpOpt : (o : Option Expr) → wfOpt o = true → gramOpt (parenOptExpr t o) = true
  | none, _ => by simp [parenOptExpr, gramOpt]
  | some e, hwf => by
    simp only [wfOpt, Bool.and_eq_true] at hwf
    simp only [parenOptExpr, gramOpt, Bool.and_eq_true, decide_eq_true_eq, gram_slotExpr]
    exact ⟨expr_slot_lvl t e hwf.1, gp e hwf.2⟩
theorem gpOpts : (os : List (Option Expr)) → wfOpts os = true → gramOpts (parenOptExprs t os) = true
  | [], _ => by simp [parenOptExprs, gramOpts]
  | o :: os, hwf => by
    simp only [wfOpts, Bool.and_eq_true] at hwf
    simp only [parenOptExprs, gramOpts, Bool.and_eq_true]
    exact ⟨gpOpt o hwf.1, gpOpts os hwf.2⟩
theorem gpBoolVals (op : BoolOpK) : (vs : List Expr) → wfOperands vs = true →
    gramAll (needBool op) (parenBoolVals t (t.get (boolOpName op)) vs) = true
  | [], _ => by simp [parenBoolVals, gramAll]
  | v :: vs, hwf => by
    simp only [wfOperands, Bool.and_eq_true] at hwf
    simp only [parenBoolVals, gramAll, Bool.and_eq_true, decide_eq_true_eq, gram_slotPrec]
    exact ⟨⟨slot_lvl t h (.boolVal op) v hwf.1.2 hwf.1.1 _ (Or.inr rfl), gp v hwf.1.2⟩, gpBoolVals op vs hwf.2⟩
theorem gpComparators : (ops : List CmpOpK) → (cs : List Expr) → ops.length = cs.length → wfOperands cs = true →
    gramAll 6 (parenComparators t ops cs) = true
  | [], [], _, _ => by simp [parenComparators, gramAll]
  | [], _ :: _, hl, _ => by simp at hl
  | _ :: _, [], hl, _ => by simp at hl
  | o :: os, c :: cs, hl, hwf => by
    have hall : t.get (cmpOpName o) = cmpP t := by
      have := List.all_eq_true.mp (tableOK_cmp h) o (by cases o <;> simp [allCmpOps])
      simpa using this
    simp only [wfOperands, Bool.and_eq_true] at hwf
    simp only [parenComparators, gramAll, Bool.and_eq_true, decide_eq_true_eq, gram_slotPrec, hall]
    exact ⟨⟨slot_lvl t h .cmpRight c hwf.1.2 hwf.1.1 _ (Or.inr rfl), gp c hwf.1.2⟩,
      gpComparators os cs (by simpa using hl) hwf.2⟩
theorem gpDictVals : (ks : List (Option Expr)) → (vs : List Expr) → ks.length = vs.length → wfOperands vs = true →
    gramDictVals (ks.map Option.isNone) (parenDictVals t ks vs) = true
  | [], [], _, _ => by simp [parenDictVals, gramDictVals]
  | [], _ :: _, hl, _ => by simp at hl
  | _ :: _, [], hl, _ => by simp at hl
  | none :: ks, v :: vs, hl, hwf => by
    simp only [wfOperands, Bool.and_eq_true] at hwf
    simp only [parenDictVals, List.map_cons, Option.isNone_none, gramDictVals, Bool.and_eq_true, decide_eq_true_eq,
      gram_slotPrec]
    exact ⟨⟨slot_lvl t h .dictStar v hwf.1.2 hwf.1.1 _ (Or.inr rfl), gp v hwf.1.2⟩,
      gpDictVals ks vs (by simpa using hl) hwf.2⟩
  | some k :: ks, v :: vs, hl, hwf => by
    simp only [wfOperands, Bool.and_eq_true] at hwf
    simp only [parenDictVals, List.map_cons, Option.isNone_some, gramDictVals, Bool.and_eq_true, decide_eq_true_eq,
      gram_slotExpr]
    exact ⟨⟨expr_slot_lvl t v hwf.1.1, gp v hwf.1.2⟩, gpDictVals ks vs (by simpa using hl) hwf.2⟩
theorem gpKeywords : (ks : List Keyword) → wfKeywords ks = true → gramKeywords (parenKeywords t ks) = true
  | [], _ => by simp [parenKeywords, gramKeywords]
  | .mk a v :: ks, hwf => by
    simp only [wfKeywords, Bool.and_eq_true] at hwf
    simp only [parenKeywords, gramKeywords, Bool.and_eq_true, decide_eq_true_eq, gram_slotExpr]
    exact ⟨⟨expr_slot_lvl t v hwf.1.1, gp v hwf.1.2⟩, gpKeywords ks hwf.2⟩
theorem gpComps : (gs : List Comprehension) → wfComps gs = true → gramComps (parenComps t gs) = true
  | [], _ => by simp [parenComps, gramComps]
  | .mk tg it ifs a :: gs, hwf => by
    simp only [wfComps, Bool.and_eq_true] at hwf
    obtain ⟨⟨⟨⟨⟨h1, h2⟩, h3⟩, h4⟩, h5⟩, h6⟩ := hwf
    simp only [parenComps, gramComps, Bool.and_eq_true, decide_eq_true_eq, gram_slotExpr, gram_slotPrec]
    exact ⟨⟨⟨⟨⟨item_ok t tg, gp tg h2⟩, slot_lvl t h .compIter it h4 h3 _ (Or.inr rfl)⟩, gp it h4⟩,
      gpCompIfs ifs h5⟩, gpComps gs h6⟩
theorem gpCompIfs : (cs : List Expr) → wfOperands cs = true → gramAll 2 (parenCompIfs t cs) = true
  | [], _ => by simp [parenCompIfs, gramAll]
  | c :: cs, hwf => by
    simp only [wfOperands, Bool.and_eq_true] at hwf
    simp only [parenCompIfs, gramAll, Bool.and_eq_true, decide_eq_true_eq, gram_slotPrec]
    exact ⟨⟨slot_lvl t h .compIter c hwf.1.2 hwf.1.1 _ (Or.inr rfl), gp c hwf.1.2⟩, gpCompIfs cs hwf.2⟩
theorem gpArg : (a : Arg) → wfArg a = true → gramArg (parenArg t a) = true
  | .mk n ann, hwf => by
    simp only [wfArg] at hwf
    simp only [parenArg, gramArg]
    exact gpOpt ann hwf
theorem gpArgs : (as : List Arg) → wfArgs as = true → gramArgs (parenArgs t as) = true
  | [], _ => by simp [parenArgs, gramArgs]
  | a :: as, hwf => by
    simp only [wfArgs, Bool.and_eq_true] at hwf
    simp only [parenArgs, gramArgs, Bool.and_eq_true]
    exact ⟨gpArg a hwf.1, gpArgs as hwf.2⟩
theorem gpOptArg : (a : Option Arg) → wfOptArg a = true → gramOptArg (parenOptArg t a) = true
  | none, _ => by simp [parenOptArg, gramOptArg]
  | some a, hwf => by
    simp only [wfOptArg] at hwf
    simp only [parenOptArg, gramOptArg]
    exact gpArg a hwf
theorem gpArguments : (a : Arguments) → wfArguments a = true → gramArguments (parenArguments t a) = true
  | .mk po as va ko kd kw ds, hwf => by
    simp only [wfArguments, Bool.and_eq_true] at hwf
    obtain ⟨⟨⟨⟨⟨⟨h1, h2⟩, h3⟩, h4⟩, h5⟩, h6⟩, h7⟩ := hwf
    simp only [parenArguments, gramArguments, Bool.and_eq_true]
    exact ⟨⟨⟨⟨⟨⟨gpArgs po h1, gpArgs as h2⟩, gpOptArg va h3⟩, gpArgs ko h4⟩, gpOpts kd h5⟩, gpOptArg kw h6⟩,
      gpOperands1 ds h7⟩
end

end PMV.Printer

namespace PMV.Printer
open PMV.Spec.Grammar

/-! ### erasing the inserted parentheses gives the input back -/

theorem erase_wrapIf (b : Bool) (x : Expr) : erase (wrapIf b x) = erase x := by
  cases b <;> simp [wrapIf, erase]
theorem erase_slotExpr (o x : Expr) : erase (slotExpr o x) = erase x := erase_wrapIf _ _
theorem erase_slotPrec (b : Bool) (o x : Expr) : erase (slotPrec b o x) = erase x := by
  simp [slotPrec, erase_wrapIf, erase_slotExpr]

mutual
theorem ep (t : PrecTable) : (e : Expr) → WF e = true → erase (paren t e) = e
  | .boolOp op vs, hwf => by simp only [WF, Bool.and_eq_true] at hwf; simp only [paren, erase, epBoolVals t _ vs hwf.2]
  | .namedExpr tg v, hwf => by
    simp only [WF, Bool.and_eq_true] at hwf
    simp only [paren, erase, erase_slotExpr, ep t tg hwf.1.2, ep t v hwf.2]
  | .binOp l op r, hwf => by
    simp only [WF, Bool.and_eq_true] at hwf
    simp only [paren, erase, erase_slotPrec, ep t l hwf.1.2, ep t r hwf.2]
  | .unaryOp op v, hwf => by
    simp only [WF, Bool.and_eq_true] at hwf; simp only [paren, erase, erase_slotPrec, ep t v hwf.2]
  | .lambda a b, hwf => by
    simp only [WF, Bool.and_eq_true] at hwf
    simp only [paren, erase, erase_slotExpr, ep t b hwf.2, epArguments t a hwf.1.2]
  | .ifExp c b o, hwf => by
    simp only [WF, Bool.and_eq_true] at hwf
    simp only [paren, erase, erase_slotPrec, erase_slotExpr, ep t c hwf.1.1.2, ep t b hwf.1.2, ep t o hwf.2]
  | .dict ks vs, hwf => by
    simp only [WF, Bool.and_eq_true, beq_iff_eq] at hwf
    simp only [paren, erase, epOpts t ks hwf.1.2, epDictVals t ks vs hwf.1.1 hwf.2]
  | .set es, hwf => by simp only [WF] at hwf; simp only [paren, erase, epItems t es hwf]
  | .listComp e gs, hwf => by
    simp only [WF, Bool.and_eq_true] at hwf
    simp only [paren, erase, erase_slotExpr, ep t e hwf.1.2, epComps t gs hwf.2]
  | .setComp e gs, hwf => by
    simp only [WF, Bool.and_eq_true] at hwf
    simp only [paren, erase, erase_slotExpr, ep t e hwf.1.2, epComps t gs hwf.2]
  | .generatorExp e gs, hwf => by
    simp only [WF, Bool.and_eq_true] at hwf
    simp only [paren, erase, erase_slotExpr, ep t e hwf.1.2, epComps t gs hwf.2]
  | .dictComp k v gs, hwf => by
    simp only [WF, Bool.and_eq_true] at hwf
    simp only [paren, erase, erase_slotExpr, ep t k hwf.1.1.2, ep t v hwf.1.2, epComps t gs hwf.2]
  | .await v, hwf => by
    simp only [WF, Bool.and_eq_true] at hwf; simp only [paren, erase, erase_slotPrec, ep t v hwf.2]
  | .yield v, hwf => by simp only [WF] at hwf; simp only [paren, erase, epOpt t v hwf]
  | .yieldFrom v, hwf => by
    simp only [WF, Bool.and_eq_true] at hwf; simp only [paren, erase, erase_slotExpr, ep t v hwf.2]
  | .compare l ops cs, hwf => by
    simp only [WF, Bool.and_eq_true, beq_iff_eq] at hwf
    simp only [paren, erase, erase_slotPrec, ep t l hwf.1.1.1.2, epComparators t ops cs hwf.1.1.2 hwf.2]
  | .call f as ks, hwf => by
    simp only [WF, Bool.and_eq_true] at hwf
    simp only [paren, erase, erase_slotPrec, ep t f hwf.1.1.2, epItems t as hwf.1.2, epKeywords t ks hwf.2]
  | .joinedStr s ps, _ => by simp [paren, erase]
  | .constant c, _ => by simp [paren, erase]
  | .attribute v a, hwf => by
    simp only [WF, Bool.and_eq_true] at hwf; simp only [paren, erase, erase_slotPrec, ep t v hwf.2]
  | .subscript v s, hwf => by
    simp only [WF, Bool.and_eq_true] at hwf
    simp only [paren, erase, erase_slotPrec, ep t v hwf.1.1.2]
    cases s with
    | tuple es => simp only [ep t (.tuple es) hwf.2]
    | _ => simp only [erase_slotExpr, ep t _ hwf.2]
  | .starred v, hwf => by
    simp only [WF, Bool.and_eq_true] at hwf; simp only [paren, erase, erase_slotPrec, ep t v hwf.2]
  | .name i c, _ => by simp [paren, erase]
  | .list es, hwf => by simp only [WF] at hwf; simp only [paren, erase, epItems t es hwf]
  | .tuple es, hwf => by simp only [WF] at hwf; simp only [paren, erase, epItems t es hwf]
  | .slice l u s, hwf => by
    simp only [WF, Bool.and_eq_true] at hwf
    simp only [paren, erase, epOpt t l hwf.1.1, epOpt t u hwf.1.2, epOpt t s hwf.2]
  | .paren e, hwf => by simp [WF] at hwf
theorem epItems (t : PrecTable) : (es : List Expr) → wfItems es = true → eraseL (parenExprs t es) = es
  | [], _ => by simp [parenExprs, eraseL]
  | e :: es, hwf => by
    simp only [wfItems, Bool.and_eq_true] at hwf
    simp only [parenExprs, eraseL, erase_slotExpr, ep t e hwf.1, epItems t es hwf.2]
theorem epOperands (t : PrecTable) : (es : List Expr) → wfOperands es = true → eraseL (parenExprs t es) = es
  | [], _ => by simp [parenExprs, eraseL]
  | e :: es, hwf => by
    simp only [wfOperands, Bool.and_eq_true] at hwf
    simp only [parenExprs, eraseL, erase_slotExpr, ep t e hwf.1.2, epOperands t es hwf.2]
theorem epOpt (t : PrecTable) : (o : Option Expr) → wfOpt o = true → eraseO (parenOptExpr t o) = o
  | none, _ => by simp [parenOptExpr, eraseO]
  | some e, hwf => by
    simp only [wfOpt, Bool.and_eq_true] at hwf
    simp only [parenOptExpr, eraseO, erase_slotExpr, ep t e hwf.2]
theorem epOpts (t : PrecTable) : (os : List (Option Expr)) → wfOpts os = true → eraseOL (parenOptExprs t os) = os
  | [], _ => by simp [parenOptExprs, eraseOL]
  | o :: os, hwf => by
    simp only [wfOpts, Bool.and_eq_true] at hwf
    simp only [parenOptExprs, eraseOL, epOpt t o hwf.1, epOpts t os hwf.2]
theorem epBoolVals (t : PrecTable) (p : Nat) : (vs : List Expr) → wfOperands vs = true → eraseL (parenBoolVals t p vs) = vs
  | [], _ => by simp [parenBoolVals, eraseL]
  | v :: vs, hwf => by
    simp only [wfOperands, Bool.and_eq_true] at hwf
    simp only [parenBoolVals, eraseL, erase_slotPrec, ep t v hwf.1.2, epBoolVals t p vs hwf.2]
theorem epComparators (t : PrecTable) : (ops : List CmpOpK) → (cs : List Expr) → ops.length = cs.length →
    wfOperands cs = true → eraseL (parenComparators t ops cs) = cs
  | [], [], _, _ => by simp [parenComparators, eraseL]
  | [], _ :: _, hl, _ => by simp at hl
  | _ :: _, [], hl, _ => by simp at hl
  | o :: os, c :: cs, hl, hwf => by
    simp only [wfOperands, Bool.and_eq_true] at hwf
    simp only [parenComparators, eraseL, erase_slotPrec, ep t c hwf.1.2,
      epComparators t os cs (by simpa using hl) hwf.2]
theorem epDictVals (t : PrecTable) : (ks : List (Option Expr)) → (vs : List Expr) → ks.length = vs.length →
    wfOperands vs = true → eraseL (parenDictVals t ks vs) = vs
  | [], [], _, _ => by simp [parenDictVals, eraseL]
  | [], _ :: _, hl, _ => by simp at hl
  | _ :: _, [], hl, _ => by simp at hl
  | none :: ks, v :: vs, hl, hwf => by
    simp only [wfOperands, Bool.and_eq_true] at hwf
    simp only [parenDictVals, eraseL, erase_slotPrec, ep t v hwf.1.2, epDictVals t ks vs (by simpa using hl) hwf.2]
  | some k :: ks, v :: vs, hl, hwf => by
    simp only [wfOperands, Bool.and_eq_true] at hwf
    simp only [parenDictVals, eraseL, erase_slotExpr, ep t v hwf.1.2, epDictVals t ks vs (by simpa using hl) hwf.2]
theorem epKeywords (t : PrecTable) : (ks : List Keyword) → wfKeywords ks = true → eraseKeywords (parenKeywords t ks) = ks
  | [], _ => by simp [parenKeywords, eraseKeywords]
  | .mk a v :: ks, hwf => by
    simp only [wfKeywords, Bool.and_eq_true] at hwf
    simp only [parenKeywords, eraseKeywords, erase_slotExpr, ep t v hwf.1.2, epKeywords t ks hwf.2]
theorem epComps (t : PrecTable) : (gs : List Comprehension) → wfComps gs = true → eraseComps (parenComps t gs) = gs
  | [], _ => by simp [parenComps, eraseComps]
  | .mk tg it ifs a :: gs, hwf => by
    simp only [wfComps, Bool.and_eq_true] at hwf
    simp only [parenComps, eraseComps, erase_slotExpr, erase_slotPrec, ep t tg hwf.1.1.1.1.2, ep t it hwf.1.1.2,
      epCompIfs t ifs hwf.1.2, epComps t gs hwf.2]
theorem epCompIfs (t : PrecTable) : (cs : List Expr) → wfOperands cs = true → eraseL (parenCompIfs t cs) = cs
  | [], _ => by simp [parenCompIfs, eraseL]
  | c :: cs, hwf => by
    simp only [wfOperands, Bool.and_eq_true] at hwf
    simp only [parenCompIfs, eraseL, erase_slotPrec, ep t c hwf.1.2, epCompIfs t cs hwf.2]
theorem epArg (t : PrecTable) : (a : Arg) → wfArg a = true → eraseArg (parenArg t a) = a
  | .mk n ann, hwf => by simp only [wfArg] at hwf; simp only [parenArg, eraseArg, epOpt t ann hwf]
theorem epArgs (t : PrecTable) : (as : List Arg) → wfArgs as = true → eraseArgs (parenArgs t as) = as
  | [], _ => by simp [parenArgs, eraseArgs]
  | a :: as, hwf => by
    simp only [wfArgs, Bool.and_eq_true] at hwf
    simp only [parenArgs, eraseArgs, epArg t a hwf.1, epArgs t as hwf.2]
theorem epOptArg (t : PrecTable) : (a : Option Arg) → wfOptArg a = true → eraseOptArg (parenOptArg t a) = a
  | none, _ => by simp [parenOptArg, eraseOptArg]
  | some a, hwf => by simp only [wfOptArg] at hwf; simp only [parenOptArg, eraseOptArg, epArg t a hwf]
theorem epArguments (t : PrecTable) : (a : Arguments) → wfArguments a = true → eraseArguments (parenArguments t a) = a
  | .mk po as va ko kd kw ds, hwf => by
    simp only [wfArguments, Bool.and_eq_true] at hwf
    obtain ⟨⟨⟨⟨⟨⟨h1, h2⟩, h3⟩, h4⟩, h5⟩, h6⟩, h7⟩ := hwf
    simp only [parenArguments, eraseArguments, epArgs t po h1, epArgs t as h2, epOptArg t va h3, epArgs t ko h4,
      epOpts t kd h5, epOptArg t kw h6, epOperands t ds h7]
end

end PMV.Printer

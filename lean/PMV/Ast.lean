/-
  Typed Python AST (CPython 3.8–3.13 `ast`, as produced by `ast.parse` on 3.12).
  Field order follows `_fields` of the interpreter's node classes (that order drives
  `ast.iter_child_nodes`, hence binding order in the renamer).

  `Expr.paren` does not exist in Python's AST: it marks where the printer emits `(`…`)` around a
  sub-expression (see Model/ExprPrinter). Trees coming from the parser never contain it.
-/
namespace PMV

inductive BoolOpK | and_ | or_ deriving DecidableEq, Repr, Inhabited
inductive BinOpK
  | add | sub | mult | matMult | div | mod | pow | lShift | rShift | bitOr | bitXor | bitAnd | floorDiv
  deriving DecidableEq, Repr, Inhabited
inductive UnaryOpK | invert | not_ | uAdd | uSub deriving DecidableEq, Repr, Inhabited
inductive CmpOpK | eq | notEq | lt | ltE | gt | gtE | is_ | isNot | in_ | notIn
  deriving DecidableEq, Repr, Inhabited
inductive Ctx | load | store | del deriving DecidableEq, Repr, Inhabited

/-- Constants. Text-valued payloads (`repr`) are computed by plain CPython in the harness (oracle
    annotation: they are facts about the interpreter, not about the minifier). -/
inductive Const
  | none | true_ | false_ | ellipsis
  | int (n : Int)
  | float (repr : String)
  | complex (repr : String)
  | str (repr : String) (cps : List Nat)
  | bytes (repr : String) (bs : List Nat)
  deriving DecidableEq, Repr, Inhabited

mutual
inductive Expr
  | boolOp (op : BoolOpK) (values : List Expr)
  | namedExpr (target value : Expr)
  | binOp (left : Expr) (op : BinOpK) (right : Expr)
  | unaryOp (op : UnaryOpK) (operand : Expr)
  | lambda (args : Arguments) (body : Expr)
  | ifExp (test body orelse : Expr)
  | dict (keys : List (Option Expr)) (values : List Expr)
  | set (elts : List Expr)
  | listComp (elt : Expr) (gens : List Comprehension)
  | setComp (elt : Expr) (gens : List Comprehension)
  | dictComp (key value : Expr) (gens : List Comprehension)
  | generatorExp (elt : Expr) (gens : List Comprehension)
  | await (value : Expr)
  | yield (value : Option Expr)
  | yieldFrom (value : Expr)
  | compare (left : Expr) (ops : List CmpOpK) (comparators : List Expr)
  | call (func : Expr) (args : List Expr) (keywords : List Keyword)
  | joinedStr (text : String) (parts : List Expr)   -- text: printed form (oracle); parts: the embedded expressions
  | constant (c : Const)
  | attribute (value : Expr) (attr : String)
  | subscript (value slice : Expr)
  | starred (value : Expr)
  | name (id : String) (ctx : Ctx)
  | list (elts : List Expr)
  | tuple (elts : List Expr)
  | slice (lower upper step : Option Expr)
  | paren (e : Expr)
inductive Keyword
  | mk (arg : Option String) (value : Expr)
inductive Comprehension
  | mk (target iter : Expr) (ifs : List Expr) (isAsync : Bool)
inductive Arg
  | mk (arg : String) (annotation : Option Expr)
inductive Arguments
  | mk (posonly args : List Arg) (vararg : Option Arg) (kwonly : List Arg)
       (kwDefaults : List (Option Expr)) (kwarg : Option Arg) (defaults : List Expr)
end

inductive Pattern
  | matchValue (value : Expr)
  | matchSingleton (c : Const)
  | matchSequence (patterns : List Pattern)
  | matchMapping (keys : List Expr) (patterns : List Pattern) (rest : Option String)
  | matchClass (cls : Expr) (patterns : List Pattern) (kwdAttrs : List String) (kwdPatterns : List Pattern)
  | matchStar (name : Option String)
  | matchAs (pattern : Option Pattern) (name : Option String)
  | matchOr (patterns : List Pattern)

inductive TypeParam
  | typeVar (name : String) (bound : Option Expr) (dflt : Option Expr)
  | paramSpec (name : String) (dflt : Option Expr)
  | typeVarTuple (name : String) (dflt : Option Expr)

structure Alias where
  name : String
  asname : Option String
  deriving Repr, Inhabited, DecidableEq

structure WithItem where
  contextExpr : Expr
  optionalVars : Option Expr

mutual
inductive Stmt
  | functionDef (isAsync : Bool) (name : String) (args : Arguments) (body : List Stmt)
      (decorators : List Expr) (returns : Option Expr) (typeParams : List TypeParam)
  | classDef (name : String) (bases : List Expr) (keywords : List Keyword) (body : List Stmt)
      (decorators : List Expr) (typeParams : List TypeParam)
  | return_ (value : Option Expr)
  | delete (targets : List Expr)
  | assign (targets : List Expr) (value : Expr)
  | typeAlias (name : Expr) (typeParams : List TypeParam) (value : Expr)
  | augAssign (target : Expr) (op : BinOpK) (value : Expr)
  | annAssign (target annotation : Expr) (value : Option Expr) (simple : Bool)
  | for_ (isAsync : Bool) (target iter : Expr) (body orelse : List Stmt)
  | while_ (test : Expr) (body orelse : List Stmt)
  | if_ (test : Expr) (body orelse : List Stmt)
  | with_ (isAsync : Bool) (items : List WithItem) (body : List Stmt)
  | match_ (subject : Expr) (cases : List MatchCase)
  | raise_ (exc cause : Option Expr)
  | try_ (star : Bool) (body : List Stmt) (handlers : List Handler) (orelse finalbody : List Stmt)
  | assert_ (test : Expr) (msg : Option Expr)
  | import_ (names : List Alias)
  | importFrom (module : Option String) (names : List Alias) (level : Nat)
  | global (names : List String)
  | nonlocal (names : List String)
  | expr (value : Expr)
  | pass | break_ | continue_
inductive Handler
  | mk (type : Option Expr) (name : Option String) (body : List Stmt)
inductive MatchCase
  | mk (pattern : Pattern) (guard : Option Expr) (body : List Stmt)
end

structure Module where
  body : List Stmt

instance : Inhabited Expr := ⟨.constant .none⟩
instance : Inhabited Stmt := ⟨.pass⟩
instance : Inhabited Arguments := ⟨.mk [] [] none [] [] none []⟩

end PMV

import PMV.Ast
import PMV.Driver.Util
/- S-expression → typed AST (glue; executable only, exercised by every correspondence run). -/
namespace PMV.AstSexp
open PMV PMV.Driver

def ident? (s : Sexp) : Option String := str? s

def optOf (f : Sexp → Option α) : Sexp → Option (Option α)
  | .atom "N" => some none
  | s => (f s).map some

def listOf (f : Sexp → Option α) : Sexp → Option (List α)
  | .list xs => xs.mapM f
  | _ => none

def boolOp? : Sexp → Option BoolOpK
  | .atom "And" => some .and_ | .atom "Or" => some .or_ | _ => none

def binOp? : Sexp → Option BinOpK
  | .atom "Add" => some .add | .atom "Sub" => some .sub | .atom "Mult" => some .mult
  | .atom "MatMult" => some .matMult | .atom "Div" => some .div | .atom "Mod" => some .mod
  | .atom "Pow" => some .pow | .atom "LShift" => some .lShift | .atom "RShift" => some .rShift
  | .atom "BitOr" => some .bitOr | .atom "BitXor" => some .bitXor | .atom "BitAnd" => some .bitAnd
  | .atom "FloorDiv" => some .floorDiv | _ => none

def unaryOp? : Sexp → Option UnaryOpK
  | .atom "Invert" => some .invert | .atom "Not" => some .not_ | .atom "UAdd" => some .uAdd
  | .atom "USub" => some .uSub | _ => none

def cmpOp? : Sexp → Option CmpOpK
  | .atom "Eq" => some .eq | .atom "NotEq" => some .notEq | .atom "Lt" => some .lt | .atom "LtE" => some .ltE
  | .atom "Gt" => some .gt | .atom "GtE" => some .gtE | .atom "Is" => some .is_ | .atom "IsNot" => some .isNot
  | .atom "In" => some .in_ | .atom "NotIn" => some .notIn | _ => none

def ctx? : Sexp → Option Ctx
  | .atom "load" => some .load | .atom "store" => some .store | .atom "del" => some .del | _ => none

def const? : Sexp → Option Const
  | .atom "none" => some .none | .atom "true" => some .true_ | .atom "false" => some .false_
  | .atom "ellipsis" => some .ellipsis
  | .list [.atom "int", .atom n] => n.toInt?.map .int
  | .list [.atom "float", r] => (str? r).map .float
  | .list [.atom "complex", r] => (str? r).map .complex
  | .list [.atom "str", r, c] => do pure (.str (← str? r) (← cps? c))
  | .list [.atom "bytes", r, c] => do pure (.bytes (← str? r) (← cps? c))
  | _ => none

mutual
partial def expr? : Sexp → Option Expr
  | .list [.atom "BoolOp", op, vs] => do pure (.boolOp (← boolOp? op) (← listOf expr? vs))
  | .list [.atom "NamedExpr", t, v] => do pure (.namedExpr (← expr? t) (← expr? v))
  | .list [.atom "BinOp", l, op, r] => do pure (.binOp (← expr? l) (← binOp? op) (← expr? r))
  | .list [.atom "UnaryOp", op, v] => do pure (.unaryOp (← unaryOp? op) (← expr? v))
  | .list [.atom "Lambda", a, b] => do pure (.lambda (← arguments? a) (← expr? b))
  | .list [.atom "IfExp", t, b, o] => do pure (.ifExp (← expr? t) (← expr? b) (← expr? o))
  | .list [.atom "Dict", ks, vs] => do pure (.dict (← listOf (optOf expr?) ks) (← listOf expr? vs))
  | .list [.atom "Set", es] => do pure (.set (← listOf expr? es))
  | .list [.atom "ListComp", e, gs] => do pure (.listComp (← expr? e) (← listOf comprehension? gs))
  | .list [.atom "SetComp", e, gs] => do pure (.setComp (← expr? e) (← listOf comprehension? gs))
  | .list [.atom "GeneratorExp", e, gs] => do pure (.generatorExp (← expr? e) (← listOf comprehension? gs))
  | .list [.atom "DictComp", k, v, gs] => do pure (.dictComp (← expr? k) (← expr? v) (← listOf comprehension? gs))
  | .list [.atom "Await", v] => do pure (.await (← expr? v))
  | .list [.atom "Yield", v] => do pure (.yield (← optOf expr? v))
  | .list [.atom "YieldFrom", v] => do pure (.yieldFrom (← expr? v))
  | .list [.atom "Compare", l, ops, cs] => do pure (.compare (← expr? l) (← listOf cmpOp? ops) (← listOf expr? cs))
  | .list [.atom "Call", f, as, ks] => do pure (.call (← expr? f) (← listOf expr? as) (← listOf keyword? ks))
  | .list [.atom "JoinedStr", t, ps] => do pure (.joinedStr (← str? t) (← listOf expr? ps))
  | .list [.atom "Constant", c] => do pure (.constant (← const? c))
  | .list [.atom "Attribute", v, a] => do pure (.attribute (← expr? v) (← ident? a))
  | .list [.atom "Subscript", v, s] => do pure (.subscript (← expr? v) (← expr? s))
  | .list [.atom "Starred", v] => do pure (.starred (← expr? v))
  | .list [.atom "Name", i, c] => do pure (.name (← ident? i) (← ctx? c))
  | .list [.atom "List", es] => do pure (.list (← listOf expr? es))
  | .list [.atom "Tuple", es] => do pure (.tuple (← listOf expr? es))
  | .list [.atom "Slice", l, u, s] => do pure (.slice (← optOf expr? l) (← optOf expr? u) (← optOf expr? s))
  | .list [.atom "Paren", e] => do pure (.paren (← expr? e))
  | _ => none
partial def keyword? : Sexp → Option Keyword
  | .list [.atom "keyword", a, v] => do pure (.mk (← optOf ident? a) (← expr? v))
  | _ => none
partial def comprehension? : Sexp → Option Comprehension
  | .list [.atom "comprehension", t, i, ifs, a] => do pure (.mk (← expr? t) (← expr? i) (← listOf expr? ifs) (← bool? a))
  | _ => none
partial def arg? : Sexp → Option Arg
  | .list [.atom "arg", a, ann] => do pure (.mk (← ident? a) (← optOf expr? ann))
  | _ => none
partial def arguments? : Sexp → Option Arguments
  | .list [.atom "arguments", po, as, va, ko, kd, kw, ds] => do
    pure (.mk (← listOf arg? po) (← listOf arg? as) (← optOf arg? va) (← listOf arg? ko)
      (← listOf (optOf expr?) kd) (← optOf arg? kw) (← listOf expr? ds))
  | _ => none
end

partial def pattern? : Sexp → Option Pattern
  | .list [.atom "MatchValue", v] => do pure (.matchValue (← expr? v))
  | .list [.atom "MatchSingleton", c] => do pure (.matchSingleton (← const? c))
  | .list [.atom "MatchSequence", ps] => do pure (.matchSequence (← listOf pattern? ps))
  | .list [.atom "MatchMapping", ks, ps, r] => do pure (.matchMapping (← listOf expr? ks) (← listOf pattern? ps) (← optOf ident? r))
  | .list [.atom "MatchClass", c, ps, ka, kp] => do
    pure (.matchClass (← expr? c) (← listOf pattern? ps) (← listOf ident? ka) (← listOf pattern? kp))
  | .list [.atom "MatchStar", n] => do pure (.matchStar (← optOf ident? n))
  | .list [.atom "MatchAs", p, n] => do pure (.matchAs (← optOf pattern? p) (← optOf ident? n))
  | .list [.atom "MatchOr", ps] => do pure (.matchOr (← listOf pattern? ps))
  | _ => none

def typeParam? : Sexp → Option TypeParam
  | .list [.atom "TypeVar", n, b, d] => do pure (.typeVar (← ident? n) (← optOf expr? b) (← optOf expr? d))
  | .list [.atom "ParamSpec", n, d] => do pure (.paramSpec (← ident? n) (← optOf expr? d))
  | .list [.atom "TypeVarTuple", n, d] => do pure (.typeVarTuple (← ident? n) (← optOf expr? d))
  | _ => none

def alias? : Sexp → Option Alias
  | .list [.atom "alias", n, a] => do pure ⟨← ident? n, ← optOf ident? a⟩
  | _ => none

def withItem? : Sexp → Option WithItem
  | .list [.atom "withitem", c, v] => do pure ⟨← expr? c, ← optOf expr? v⟩
  | _ => none

mutual
partial def stmt? : Sexp → Option Stmt
  | .atom "Pass" => some .pass
  | .atom "Break" => some .break_
  | .atom "Continue" => some .continue_
  | .list [.atom "FunctionDef", a, n, args, body, decs, ret, tps] => do
    pure (.functionDef (← bool? a) (← ident? n) (← arguments? args) (← listOf stmt? body)
      (← listOf expr? decs) (← optOf expr? ret) (← listOf typeParam? tps))
  | .list [.atom "ClassDef", n, bases, kws, body, decs, tps] => do
    pure (.classDef (← ident? n) (← listOf expr? bases) (← listOf keyword? kws) (← listOf stmt? body)
      (← listOf expr? decs) (← listOf typeParam? tps))
  | .list [.atom "Return", v] => do pure (.return_ (← optOf expr? v))
  | .list [.atom "Delete", ts] => do pure (.delete (← listOf expr? ts))
  | .list [.atom "Assign", ts, v] => do pure (.assign (← listOf expr? ts) (← expr? v))
  | .list [.atom "TypeAlias", n, tps, v] => do pure (.typeAlias (← expr? n) (← listOf typeParam? tps) (← expr? v))
  | .list [.atom "AugAssign", t, op, v] => do pure (.augAssign (← expr? t) (← binOp? op) (← expr? v))
  | .list [.atom "AnnAssign", t, a, v, s] => do pure (.annAssign (← expr? t) (← expr? a) (← optOf expr? v) (← bool? s))
  | .list [.atom "For", a, t, i, b, o] => do
    pure (.for_ (← bool? a) (← expr? t) (← expr? i) (← listOf stmt? b) (← listOf stmt? o))
  | .list [.atom "While", t, b, o] => do pure (.while_ (← expr? t) (← listOf stmt? b) (← listOf stmt? o))
  | .list [.atom "If", t, b, o] => do pure (.if_ (← expr? t) (← listOf stmt? b) (← listOf stmt? o))
  | .list [.atom "With", a, items, b] => do pure (.with_ (← bool? a) (← listOf withItem? items) (← listOf stmt? b))
  | .list [.atom "Match", s, cs] => do pure (.match_ (← expr? s) (← listOf matchCase? cs))
  | .list [.atom "Raise", e, c] => do pure (.raise_ (← optOf expr? e) (← optOf expr? c))
  | .list [.atom "Try", st, b, hs, o, f] => do
    pure (.try_ (← bool? st) (← listOf stmt? b) (← listOf handler? hs) (← listOf stmt? o) (← listOf stmt? f))
  | .list [.atom "Assert", t, m] => do pure (.assert_ (← expr? t) (← optOf expr? m))
  | .list [.atom "Import", ns] => do pure (.import_ (← listOf alias? ns))
  | .list [.atom "ImportFrom", m, ns, l] => do pure (.importFrom (← optOf ident? m) (← listOf alias? ns) (← nat? l))
  | .list [.atom "Global", ns] => do pure (.global (← listOf ident? ns))
  | .list [.atom "Nonlocal", ns] => do pure (.nonlocal (← listOf ident? ns))
  | .list [.atom "Expr", v] => do pure (.expr (← expr? v))
  | _ => none
partial def handler? : Sexp → Option Handler
  | .list [.atom "handler", t, n, b] => do pure (.mk (← optOf expr? t) (← optOf ident? n) (← listOf stmt? b))
  | _ => none
partial def matchCase? : Sexp → Option MatchCase
  | .list [.atom "match_case", p, g, b] => do pure (.mk (← pattern? p) (← optOf expr? g) (← listOf stmt? b))
  | _ => none
end

def module? : Sexp → Option Module
  | .list [.atom "Module", b] => do pure ⟨← listOf stmt? b⟩
  | _ => none

end PMV.AstSexp

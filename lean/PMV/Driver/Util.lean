import PMV.Sexp
namespace PMV.Driver
open PMV

def str? : Sexp → Option String
  | .atom a => (Sexp.codepoints? a).map Sexp.cpsToString
  | _ => none

def cps? : Sexp → Option (List Nat)
  | .atom a => Sexp.codepoints? a
  | _ => none

def bytes? (s : Sexp) : Option (List UInt8) := (cps? s).map (·.map Nat.toUInt8)

def encStr (s : String) : String := Sexp.ofCodepoints (s.toList.map Char.toNat)
def encBytes (b : List UInt8) : String := Sexp.ofCodepoints (b.map UInt8.toNat)
def encCps (b : List Nat) : String := Sexp.ofCodepoints b

def list? : Sexp → Option (List Sexp)
  | .list xs => some xs
  | _ => none

def atom? : Sexp → Option String
  | .atom a => some a
  | _ => none

def nat? (s : Sexp) : Option Nat := atom? s >>= String.toNat?

def bool? (s : Sexp) : Option Bool :=
  match s with
  | .atom "1" => some true
  | .atom "0" => some false
  | _ => none

end PMV.Driver

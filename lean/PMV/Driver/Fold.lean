import PMV.Driver.Printer
import PMV.Model.Fold
import PMV.Model.Traverse
namespace PMV.Driver.Fold
open PMV PMV.Driver PMV.Printer PMV.Fold

def pairStr? : Sexp → Option (String × String)
  | .list [a, b] => do pure (← str? a, ← str? b)
  | _ => none

def oracle? : Sexp → Option Oracle
  | .list [b, n] => do pure ⟨← (← list? b).mapM pairStr?, ← (← list? n).mapM pairStr?⟩
  | _ => none

def foldModule (orc : Oracle) (m : Module) : Module :=
  let f := foldE Generated.precTable Generated.spacing orc
  Traverse.mapModule ⟨f, foldArguments Generated.precTable Generated.spacing orc, false⟩ m

/-- `fold (binop-table neg-table) <module>` → text of the folded module -/
def fold (args : List Sexp) : Option String := do
  match args with
  | [o, m] =>
    let orc ← oracle? o
    let m ← AstSexp.module? m
    pure (encStr (Driver.Printer.printModule (foldModule orc m)))
  | _ => none

def pyOp? : String → Option PyInt.Op
  | "Add" => some .add | "Sub" => some .sub | "Mult" => some .mult | "MatMult" => some .matMult
  | "Div" => some .div | "Mod" => some .mod | "Pow" => some .pow | "LShift" => some .lShift
  | "RShift" => some .rShift | "BitOr" => some .bitOr | "BitXor" => some .bitXor | "BitAnd" => some .bitAnd
  | "FloorDiv" => some .floorDiv | _ => none

/-- `pyint.eval Op a b` → `some n` / `none` (spec validation of PyInt.eval against CPython) -/
def pyintEval (args : List Sexp) : Option String := do
  match args with
  | [.atom op, .atom a, .atom b] =>
    let op ← pyOp? op
    let a ← a.toInt?
    let b ← b.toInt?
    pure (match PyInt.eval op a b with | some v => toString v | none => "err")
  | _ => none

end PMV.Driver.Fold

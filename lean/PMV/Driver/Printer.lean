import PMV.AstSexp
import PMV.Model.StmtPrinter
import PMV.Generated.Prec
import PMV.Generated.Spacing
import PMV.Generated.Stmt
import PMV.Model.ParenTable
import PMV.Spec.Lex
namespace PMV.Driver.Printer
open PMV PMV.Driver PMV.Printer

def printModule (m : Module) : String :=
  Token.render Generated.spacing (moduleToks Generated.precTable Generated.stmtTable m)

def printExpr (e : Expr) : String :=
  Token.render Generated.spacing (exprToks Generated.precTable e)

/-- `unparse <module>` → printed text as code points -/
def unparse (args : List Sexp) : Option String := do
  match args with
  | [m] =>
    let m ← AstSexp.module? m
    pure (encStr (printModule m))
  | _ => none

/-- `unparse.expr <expr>` → text of `visit(expr)` -/
def unparseExpr (args : List Sexp) : Option String := do
  match args with
  | [e] =>
    let e ← AstSexp.expr? e
    pure (encStr (printExpr e))
  | _ => none

def perturb (t : PrecTable) (ovs : List (String × Nat)) : PrecTable :=
  { t with
    entries := t.entries.map fun (k, v) => match ovs.lookup k with | some v' => (k, v') | none => (k, v)
    starMax := (ovs.lookup "#starMax").getD t.starMax
    dictStarMax := (ovs.lookup "#dictStarMax").getD t.dictStarMax
    powRhs := (ovs.lookup "#powRhs").getD t.powRhs
    subscript := (ovs.lookup "#subscript").getD t.subscript }

/-- `gram.check ((key val) ...) <expr>`: parenthesise with a perturbed table; report WF, Gram and the flat text
    (spec validation: whenever Gram holds, CPython must parse the text back to the input). -/
def gramCheck (args : List Sexp) : Option String := do
  match args with
  | [ovs, e] =>
    let ovs ← (← list? ovs).mapM (fun s => match s with
      | .list [.atom k, v] => do pure (k, ← nat? v)
      | _ => none)
    let e ← AstSexp.expr? e
    let t := perturb Generated.precTable ovs
    let p := slotExpr e (paren t e)     -- the `_expression` slot (a bare walrus / yield / tuple is not an expression)
    let b (x : Bool) : String := if x then "1" else "0"
    pure s!"{b (Spec.Grammar.WF e)} {b (Spec.Grammar.Gram p)} {b (TableOK t)} {encStr (Token.render Generated.spacing (flat p))}"
  | _ => none

def slotName : Slot → String
  | .binL op => "binL:" ++ binOpName op | .binR op => "binR:" ++ binOpName op
  | .unary op => "unary:" ++ unaryOpName op | .boolVal op => "boolVal:" ++ boolOpName op
  | .cmpLeft => "cmpLeft" | .cmpRight => "cmpRight" | .ifBody => "ifBody" | .await => "await"
  | .callFunc => "callFunc" | .attrValue => "attrValue" | .subValue => "subValue" | .starred => "starred"
  | .dictStar => "dictStar" | .compIter => "compIter"

def clsName : Cls → String
  | .boolOp op => "boolOp:" ++ boolOpName op | .binOp op => "binOp:" ++ binOpName op
  | .unaryOp op => "unaryOp:" ++ unaryOpName op | .compare => "compare" | .lambda => "lambda" | .ifExp => "ifExp"
  | .await => "await" | .attribute => "attribute" | .subscript => "subscript" | .call => "call"
  | .tupleNE => "tupleNE" | .tupleE => "tupleE" | .set => "set" | .list => "list" | .dict => "dict"
  | .listComp => "listComp" | .setComp => "setComp" | .dictComp => "dictComp" | .generatorExp => "generatorExp"
  | .atom0 => "atom0" | .yieldLike => "yieldLike"

/-- `paren.violations`: the (slot, class) pairs of the current generated table that break `TableOK`,
    and whether the comparison operators share one precedence. -/
def parenViolations (_ : List Sexp) : Option String :=
  let vs := violations Generated.precTable
  some (s!"(cmpAllSame {cmpAllSame Generated.precTable}) (" ++
    " ".intercalate (vs.map fun (s, c) => s!"({slotName s} {clsName c})") ++ ")")

def spacingViolations (_ : List Sexp) : Option String :=
  let vs := Spec.Lex.violations Generated.spacing
  some ("(" ++ " ".intercalate (vs.map fun (p, n) => s!"({repr p} {repr n})") ++ ")")

end PMV.Driver.Printer

import PMV.AstSexp
import PMV.Model.StmtPrinter
import PMV.Generated.Prec
import PMV.Generated.Spacing
import PMV.Generated.Stmt
namespace PMV.Driver.Printer
open PMV PMV.Driver PMV.Printer

def printModule (m : Module) : String :=
  Token.render Generated.spacing (moduleToks Generated.precTable Generated.stmtTable m)

def printExpr (e : Expr) : String :=
  Token.render Generated.spacing (exprToks Generated.precTable e)

/-- `unparse <module>` → printed text as code points -/
def unparse (args : List Sexp) : Option String := do
  match args with
  | [m] =>
    let m ← AstSexp.module? m
    pure (encStr (printModule m))
  | _ => none

/-- `unparse.expr <expr>` → text of `visit(expr)` -/
def unparseExpr (args : List Sexp) : Option String := do
  match args with
  | [e] =>
    let e ← AstSexp.expr? e
    pure (encStr (printExpr e))
  | _ => none

end PMV.Driver.Printer

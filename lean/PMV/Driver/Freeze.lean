import PMV.Driver.Util
import PMV.Model.Freeze
namespace PMV.Driver.Freeze
open PMV PMV.Driver PMV.Freeze

def binding? : Sexp → Option (Nat × Option String)
  | .list [i] => do pure (← nat? i, none)
  | .list [i, n] => do pure (← nat? i, some (← str? n))
  | _ => none

partial def node? : Sexp → Option Node
  | .list [ns, md, bs, ch] => do
    pure (.mk (← bool? ns) (← bool? md) (← (← list? bs).mapM binding?) (← (← list? ch).mapM node?))
  | _ => none

def strs? (s : Sexp) : Option (List String) := do (← list? s).mapM str?

def ids (l : List Nat) : String := " ".intercalate ((l.eraseDups.mergeSort (· ≤ ·)).map toString)

/-- `freeze.locals <rename_locals> (<preserve>…) <tree>` → the identities `allow_rename_locals` freezes, sorted -/
def locals (args : List Sexp) : Option String := do
  match args with
  | [rl, pl, t] => pure (ids (freezeLocals (← bool? rl) (← strs? pl) (← node? t)))
  | _ => none

/-- `freeze.globals <rename_globals> (<preserve>…) (<__all__>…) (<only declared ids>…) (<bindings>…)` -/
def globals (args : List Sexp) : Option String := do
  match args with
  | [rg, pg, ex, od, bs] =>
    pure (ids (freezeGlobals (← bool? rg) (← strs? pg) (← strs? ex) (← (← list? od).mapM nat?) (← (← list? bs).mapM binding?)))
  | _ => none

end PMV.Driver.Freeze

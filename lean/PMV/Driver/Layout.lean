import PMV.AstSexp
import PMV.Spec.Layout
import PMV.Spec.LayoutPlain
import PMV.Generated.Prec
import PMV.Generated.Stmt
namespace PMV.Driver.Layout
open PMV PMV.Driver PMV.Printer PMV.Spec.Layout

/-- lines of a layout: (depth, number of `;`) per line -/
def linesOf (l : List LT) : List (Nat × Nat) :=
  let step (acc : List (Nat × Nat)) (x : LT) : List (Nat × Nat) :=
    match x, acc with
    | .nl d, _ => (d, 0) :: acc
    | .semi, (d, n) :: rest => (d, n + 1) :: rest
    | _, _ => acc
  (l.foldl step [(0, 0)]).reverse

/-- `layout.check <module>` → `<hyp> <d>:<semis> <d>:<semis> …`: whether the hypotheses of T02.4 / T02.5 hold for this module
    (`okL`, its syntactic form `plainL`, every token text `textOK`), then depth and number of `;` of every line of the specified layout -/
def check (args : List Sexp) : Option String := do
  match args with
  | [m] =>
    let m ← AstSexp.module? m
    let toks := moduleToks Generated.precTable Generated.stmtTable m
    let hyp := okL Generated.precTable Generated.stmtTable m.body && plainL Generated.precTable m.body && toks.all textOK
    let ls := linesOf (emitModule Generated.precTable Generated.stmtTable m)
    pure ((if hyp then "1" else "0") ++ " " ++ " ".intercalate (ls.map fun (d, n) => toString d ++ ":" ++ toString n))
  | _ => none

end PMV.Driver.Layout

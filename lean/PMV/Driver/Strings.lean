import PMV.Driver.Util
import PMV.Model.MiniString
import PMV.Spec.StrLex
import PMV.Generated.Strings
import PMV.Proofs.MiniString
import PMV.Model.Shebang
import PMV.Model.Encoding
namespace PMV.Driver.Strings
open PMV PMV.Driver PMV.MiniString

/-- `ministring <quote-char> <quote-len> <codepoints>` → the text handed to eval, and whether the
    spec lexer reads it as exactly one literal -/
def ministring (args : List Sexp) : Option String := do
  match args with
  | [q, n, s] =>
    let q ← nat? q
    let n ← nat? n
    let s ← cps? s
    let txt := evalText Generated.escTable q n s
    pure s!"{encCps txt} {if Spec.StrLex.isOneLiteral q n txt then 1 else 0}"
  | _ => none

/-- `strlex <quote-char> <quote-len> <text>` → 1/0: the spec's verdict on an arbitrary text (validated against tokenize) -/
def strlex (args : List Sexp) : Option String := do
  match args with
  | [q, n, s] =>
    let q ← nat? q
    let n ← nat? n
    let s ← cps? s
    pure (if Spec.StrLex.isOneLiteral q n s then "1" else "0")
  | _ => none

def escViolations (_ : List Sexp) : Option String :=
  some (if EscOK Generated.escTable then "()" else "(EscOK-fails)")

/-- `encoding.normal <codepoints>` → what the declared name stands for: `utf8`, `latin1` or `other` -/
def encodingNormal (args : List Sexp) : Option String := do
  match args with
  | [s] =>
    let s ← cps? s
    match Encoding.normalName s with
    | .utf8 => pure "utf8"
    | .latin1 => pure "latin1"
    | .other _ => pure "other"
  | _ => none

end PMV.Driver.Strings

namespace PMV.Driver.Strings
open PMV PMV.Driver

/-- `shebang <codepoints>` → the match of the model, or `none` -/
def shebang (args : List Sexp) : Option String := do
  match args with
  | [s] =>
    let s ← cps? s
    match Shebang.findShebang s with
    | some m => pure (encCps m)
    | none => pure "none"
  | _ => none

end PMV.Driver.Strings

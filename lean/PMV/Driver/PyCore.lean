import PMV.Driver.Util
import PMV.AstSexp
import PMV.Spec.PyCore
import PMV.Model.Scope
import PMV.Model.RenameAst
import PMV.Model.HoistAst
import PMV.Driver.Printer
import PMV.Driver.Minify
namespace PMV.Driver.PyCore
open PMV PMV.Driver PMV.PyCore

def hexOf (s : String) : String := ",".intercalate (s.toList.map fun c => toString c.toNat)

def showVal : Val → String
  | .none => "None"
  | .bool true => "True"
  | .bool false => "False"
  | .int n => "int:" ++ toString n
  | .str s => "str:" ++ hexOf s
  | .mod n => "mod:" ++ hexOf n

/-- `pycore.run <fuel> <module>` → text: `END <ending>` / `OUT <code points>` per line / `GLOBAL <name> <value>` -/
def runWith (optimized : Bool) (args : List Sexp) : Option String := do
  match args with
  | [f, m] =>
    let fuel ← nat? f
    let m ← AstSexp.module? m
    let o := if optimized then runO fuel m else run fuel m
    let lines := ["END " ++ o.ending] ++ o.out.map (fun l => "OUT " ++ hexOf l) ++
      o.globals.map (fun (n, v) => "GLOBAL " ++ n ++ " " ++ showVal v) ++
      o.imports.map (fun l => "IMPORT " ++ hexOf l)
    pure (encStr ("\n".intercalate lines))
  | _ => none

/-- `pycore.scopestable <asserts|debug> <module>` → `true` / `false`: the hypothesis of T01.10 for this module (`outside`: some function body is outside the core) -/
def scopeStableCmd (args : List Sexp) : Option String := do
  match args with
  | [k, m] =>
    let k ← str? k
    let m ← AstSexp.module? m
    let t ← (match k with
      | "asserts" => some Transforms.removeAsserts
      | "debug" => some Transforms.removeDebug
      | _ => none)
    let outside := (collect m.body).any fun e => (bindTop e.2.2).isNone      -- a body the core cannot read: calling it is stuck anyway
    pure (if outside then "outside" else if scopeStable t m then "true" else "false")
  | _ => none

/-- `pycore.exctable` → one line per builtin exception class: name, `E`/`B` (under `Exception` or not), its parents -/
def excTableCmd (_ : List Sexp) : Option String :=
  some (encStr ("\n".intercalate (knownExcs.map fun n =>
    n ++ " " ++ (if excBaseOnly.contains n then "B" else "E") ++ " " ++ ",".intercalate (excParents n) ++ " " ++ raisedBy n)))

def runCmd (args : List Sexp) : Option String := runWith false args
/-- `pycore.runO`: the same under `python -O` semantics -/
def runOCmd (args : List Sexp) : Option String := runWith true args

end PMV.Driver.PyCore

namespace PMV.Driver.PyCore
open PMV PMV.Driver PMV.PyCore PMV.RenameAst

/-- a finite renaming as a function -/
def renOf (pairs : List (String × String)) : Ren := fun x => (pairs.lookup x).getD x

def pair? (s : Sexp) : Option (String × String) := do
  match (← list? s) with
  | [a, b] => pure ((← str? a), (← str? b))
  | _ => none

/-- one function's entry: `(name ((old new) …) (copied parameter …))` -/
def fnEntry? (s : Sexp) : Option (String × List (String × String) × List String) := do
  match (← list? s) with
  | [n, ps, pro] => pure ((← str? n), (← (← list? ps).mapM pair?), (← (← list? pro).mapM str?))
  | _ => none

/-- `rename.applyast (entries) <module>` → `OK <0|1>` (the side condition of T01.13) and the text of the renamed module -/
def renameApply (args : List Sexp) : Option String := do
  match args with
  | [es, m] =>
    let es ← (← list? es).mapM fnEntry?
    let m ← AstSexp.module? m
    let R : RenTable := fun f => match es.lookup f with
      | some (ps, pro) => (renOf ps, pro)
      | none => (id, [])
    pure (encStr ((if modOK R m then "OK 1\n" else "OK 0\n") ++ Driver.Printer.printModule (renModule R m)))
  | _ => none

end PMV.Driver.PyCore

namespace PMV.Driver.PyCore
open PMV PMV.Driver PMV.PyCore PMV.RenameAst PMV.HoistAst

def cpair? (s : Sexp) : Option (Const × String) := do
  match (← list? s) with
  | [c, a] => pure ((← AstSexp.const? c), (← str? a))
  | _ => none

def pentry? (s : Sexp) : Option PEntry := do
  match (← list? s) with
  | [.atom "k"] => pure .keep
  | [.atom "g", c, a] => pure (.ghost (← AstSexp.const? c) (← str? a))
  | _ => none

/-- `(name ((const name) …) (entry …))` -/
def hoistFn? (s : Sexp) : Option (String × CMap × List PEntry) := do
  match (← list? s) with
  | [n, g, pro] => pure ((← str? n), (← (← list? g).mapM cpair?), (← (← list? pro).mapM pentry?))
  | _ => none

/-- `((const name) …) (entry …) (function entries)` -/
def hoistW? (s : Sexp) : Option HoistW := do
  match (← list? s) with
  | [_, pro, fns] =>
    let pro ← (← list? pro).mapM pentry?
    let fns ← (← list? fns).mapM hoistFn?
    pure { proMod := pro, proFn := fun f => match fns.lookup f with | some (_, p) => p | none => [] }
  | _ => none

/-- `min.applyast (rename entries) (hoist witness) <module>` → `OK <renaming ok> <hoisting ok>` and the text of
    `hoistModule W (renModule R m)`: renaming of function locals, then hoisting of literals -/
def minApply (args : List Sexp) : Option String := do
  match args with
  | [es, hw, m] =>
    let es ← (← list? es).mapM fnEntry?
    let w ← hoistW? hw
    let m ← AstSexp.module? m
    let R : RenTable := fun f => match es.lookup f with
      | some (ps, pro) => (renOf ps, pro)
      | none => (id, [])
    let m1 := renModule R m
    pure (encStr ((if modOK R m then "OK 1" else "OK 0") ++ (if hoistOK w m1 then " 1\n" else " 0\n") ++
      Driver.Printer.printModule (hoistModule w m1)))
  | _ => none

end PMV.Driver.PyCore

namespace PMV.Driver.PyCore
open PMV PMV.Driver PMV.PyCore PMV.RenameAst PMV.HoistAst PMV.Minify

/-- `min.full (option bits) (oracle) (eligible names) (rename entries) (hoist witness) <module>` →
    `OK <renaming ok> <hoisting ok>` and the text of `hoistModule W (renModule R (transformM … m))`: the default pipeline -/
def minFull (args : List Sexp) : Option String := do
  match args with
  | [o, orc, el, es, hw, m] =>
    let o ← Driver.Minify.opts? o
    let orc ← Driver.Fold.oracle? orc
    let el ← (← list? el).mapM str?
    let es ← (← list? es).mapM fnEntry?
    let w ← hoistW? hw
    let m ← AstSexp.module? m
    let R : RenTable := fun f => match es.lookup f with
      | some (ps, pro) => (renOf ps, pro)
      | none => (id, [])
    let m0 := transformM Generated.precTable Generated.spacing orc el o m
    let m1 := renModule R m0
    let nodup : Bool := !o.annotations.any || decide (defNames (beforeAnnotationsM o m).body).Nodup
    pure (encStr ((if modOK R m0 then "OK 1" else "OK 0") ++ (if hoistOK w m1 then " 1" else " 0") ++ (if nodup then " 1\n" else " 0\n") ++
      Driver.Printer.printModule (hoistModule w m1)))
  | _ => none

end PMV.Driver.PyCore

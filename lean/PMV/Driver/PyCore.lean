import PMV.Driver.Util
import PMV.AstSexp
import PMV.Spec.PyCore
import PMV.Model.Scope
import PMV.Model.RenameAst
import PMV.Driver.Printer
namespace PMV.Driver.PyCore
open PMV PMV.Driver PMV.PyCore

def hexOf (s : String) : String := ",".intercalate (s.toList.map fun c => toString c.toNat)

def showVal : Val → String
  | .none => "None"
  | .bool true => "True"
  | .bool false => "False"
  | .int n => "int:" ++ toString n
  | .str s => "str:" ++ hexOf s
  | .mod n => "mod:" ++ hexOf n

/-- `pycore.run <fuel> <module>` → text: `END <ending>` / `OUT <code points>` per line / `GLOBAL <name> <value>` -/
def runWith (optimized : Bool) (args : List Sexp) : Option String := do
  match args with
  | [f, m] =>
    let fuel ← nat? f
    let m ← AstSexp.module? m
    let o := if optimized then runO fuel m else run fuel m
    let lines := ["END " ++ o.ending] ++ o.out.map (fun l => "OUT " ++ hexOf l) ++
      o.globals.map (fun (n, v) => "GLOBAL " ++ n ++ " " ++ showVal v) ++
      o.imports.map (fun l => "IMPORT " ++ hexOf l)
    pure (encStr ("\n".intercalate lines))
  | _ => none

/-- `pycore.scopestable <asserts|debug> <module>` → `true` / `false`: the hypothesis of T01.10 for this module (`outside`: some function body is outside the core) -/
def scopeStableCmd (args : List Sexp) : Option String := do
  match args with
  | [k, m] =>
    let k ← str? k
    let m ← AstSexp.module? m
    let t ← (match k with
      | "asserts" => some Transforms.removeAsserts
      | "debug" => some Transforms.removeDebug
      | _ => none)
    let outside := (collect m.body).any fun e => (bindTop e.2.2).isNone      -- a body the core cannot read: calling it is stuck anyway
    pure (if outside then "outside" else if scopeStable t m then "true" else "false")
  | _ => none

/-- `pycore.exctable` → one line per builtin exception class: name, `E`/`B` (under `Exception` or not), its parents -/
def excTableCmd (_ : List Sexp) : Option String :=
  some (encStr ("\n".intercalate (knownExcs.map fun n =>
    n ++ " " ++ (if excBaseOnly.contains n then "B" else "E") ++ " " ++ ",".intercalate (excParents n) ++ " " ++ raisedBy n)))

def runCmd (args : List Sexp) : Option String := runWith false args
/-- `pycore.runO`: the same under `python -O` semantics -/
def runOCmd (args : List Sexp) : Option String := runWith true args

end PMV.Driver.PyCore

namespace PMV.Driver.PyCore
open PMV PMV.Driver PMV.PyCore PMV.RenameAst

/-- a finite renaming as a function -/
def renOf (pairs : List (String × String)) : Ren := fun x => (pairs.lookup x).getD x

def pair? (s : Sexp) : Option (String × String) := do
  match (← list? s) with
  | [a, b] => pure ((← str? a), (← str? b))
  | _ => none

/-- one function's entry: `(name ((old new) …) (copied parameter …))` -/
def fnEntry? (s : Sexp) : Option (String × List (String × String) × List String) := do
  match (← list? s) with
  | [n, ps, pro] => pure ((← str? n), (← (← list? ps).mapM pair?), (← (← list? pro).mapM str?))
  | _ => none

/-- `rename.applyast (entries) <module>` → `OK <0|1>` (the side condition of T01.13) and the text of the renamed module -/
def renameApply (args : List Sexp) : Option String := do
  match args with
  | [es, m] =>
    let es ← (← list? es).mapM fnEntry?
    let m ← AstSexp.module? m
    let R : RenTable := fun f => match es.lookup f with
      | some (ps, pro) => (renOf ps, pro)
      | none => (id, [])
    pure (encStr ((if modOK R m then "OK 1\n" else "OK 0\n") ++ Driver.Printer.printModule (renModule R m)))
  | _ => none

end PMV.Driver.PyCore

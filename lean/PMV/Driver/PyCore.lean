import PMV.Driver.Util
import PMV.AstSexp
import PMV.Spec.PyCore
namespace PMV.Driver.PyCore
open PMV PMV.Driver PMV.PyCore

def hexOf (s : String) : String := ",".intercalate (s.toList.map fun c => toString c.toNat)

def showVal : Val → String
  | .none => "None"
  | .bool true => "True"
  | .bool false => "False"
  | .int n => "int:" ++ toString n
  | .str s => "str:" ++ hexOf s
  | .mod n => "mod:" ++ hexOf n

/-- `pycore.run <fuel> <module>` → text: `END <ending>` / `OUT <code points>` per line / `GLOBAL <name> <value>` -/
def runWith (optimized : Bool) (args : List Sexp) : Option String := do
  match args with
  | [f, m] =>
    let fuel ← nat? f
    let m ← AstSexp.module? m
    let o := if optimized then runO fuel m else run fuel m
    let lines := ["END " ++ o.ending] ++ o.out.map (fun l => "OUT " ++ hexOf l) ++
      o.globals.map (fun (n, v) => "GLOBAL " ++ n ++ " " ++ showVal v) ++
      o.imports.map (fun l => "IMPORT " ++ hexOf l)
    pure (encStr ("\n".intercalate lines))
  | _ => none

def runCmd (args : List Sexp) : Option String := runWith false args
/-- `pycore.runO`: the same under `python -O` semantics -/
def runOCmd (args : List Sexp) : Option String := runWith true args

end PMV.Driver.PyCore

import PMV.Driver.Util
import PMV.AstSexp
import PMV.Model.Exports
import PMV.Model.InPlace
import PMV.Model.HoistCollect
namespace PMV.Driver.Exports
open PMV PMV.Driver

/-- `exports.findall <module>` → the names of `find__all__`, in order, each as `.`-separated code points, `-` for the empty name -/
def findAllCmd (args : List Sexp) : Option String := do
  match args with
  | [m] =>
    let m ← AstSexp.module? m
    let enc (s : String) : String := if s.isEmpty then "-" else ".".intercalate (s.toList.map fun c => toString c.toNat)
    pure (" ".intercalate ((PMV.Exports.findAll m).map enc))
  | _ => none

end PMV.Driver.Exports

namespace PMV.Driver.InPlace
open PMV PMV.Driver

/-- `inplace.fn <isLambda> <inClass> (<decorator>...) <arguments>` → one `0`/`1` per parameter, in the order
    `posonlyargs, args, vararg, kwonlyargs, kwarg` -/
def fnCmd (args : List Sexp) : Option String := do
  match args with
  | [l, c, ds, a] =>
    let l ← bool? l
    let c ← bool? c
    let ds ← AstSexp.listOf AstSexp.expr? ds
    let a ← AstSexp.arguments? a
    let (f, ss) := PMV.InPlace.ofArguments l c ds a
    pure (String.ofList (ss.map fun s => if PMV.InPlace.argRenameInPlace f s then '1' else '0'))
  | _ => none

end PMV.Driver.InPlace

namespace PMV.Driver.HoistCollect
open PMV PMV.Driver

def encConst : Const → String
  | .none => "N"
  | .true_ => "T"
  | .false_ => "F"
  | .str _ cps => "S" ++ ".".intercalate (cps.map toString)
  | .bytes _ bs => "B" ++ ".".intercalate (bs.map toString)
  | _ => "?"

/-- `hoist.collect <module>` → the literal occurrences `HoistLiterals` collects, in traversal order:
    `N` / `T` / `F`, `S<code points>` for a string, `B<bytes>` for bytes (`.`-separated) -/
def collectCmd (args : List Sexp) : Option String := do
  match args with
  | [m] =>
    let m ← AstSexp.module? m
    pure (" ".intercalate ((PMV.HoistCollect.collect m).map encConst))
  | _ => none

/-- `hoist.groups <module>` → the hoisted bindings in creation order, `<value>:<number of references>` -/
def groupsCmd (args : List Sexp) : Option String := do
  match args with
  | [m] =>
    let m ← AstSexp.module? m
    pure (" ".intercalate ((PMV.HoistCollect.bindingsOf m).map fun e => encConst e.1 ++ ":" ++ toString e.2))
  | _ => none

end PMV.Driver.HoistCollect

import PMV.Driver.Util
import PMV.AstSexp
import PMV.Model.Exports
namespace PMV.Driver.Exports
open PMV PMV.Driver

/-- `exports.findall <module>` → the names of `find__all__`, in order, each as `.`-separated code points, `-` for the empty name -/
def findAllCmd (args : List Sexp) : Option String := do
  match args with
  | [m] =>
    let m ← AstSexp.module? m
    let enc (s : String) : String := if s.isEmpty then "-" else ".".intercalate (s.toList.map fun c => toString c.toNat)
    pure (" ".intercalate ((PMV.Exports.findAll m).map enc))
  | _ => none

end PMV.Driver.Exports

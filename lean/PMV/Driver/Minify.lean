import PMV.Driver.Fold
import PMV.Model.Minify
import PMV.Spec.Rewrites
namespace PMV.Driver.Minify
open PMV PMV.Driver PMV.Minify PMV.Transforms

/-- option bits, in this order:
    ann.variables ann.returns ann.arguments ann.classAttrs removePass removeLiteralStatements combineImports
    removeObjectBase convertPosargs removeAsserts removeDebug removeExplicitReturnNone removeExceptionBrackets constantFolding -/
def opts? (s : Sexp) : Option Opts := do
  let bits ← (← list? s).mapM bool?
  match bits with
  | [a, b, c, d, e, f, g, h, i, j, k, l, m, n] => pure ⟨⟨a, b, c, d⟩, e, f, g, h, i, j, k, l, m, n⟩
  | _ => none

/-- `transform (opts) (oracle) (eligible names) <module>` → text -/
def transform (args : List Sexp) : Option String := do
  match args with
  | [o, orc, el, m] =>
    let o ← opts? o
    let orc ← Driver.Fold.oracle? orc
    let el ← (← list? el).mapM str?
    let m ← AstSexp.module? m
    let m' := transformM Generated.precTable Generated.spacing orc el o m
    pure (encStr (Driver.Printer.printModule m'))
  | _ => none

end PMV.Driver.Minify

namespace PMV.Driver.Minify
open PMV PMV.Driver PMV.Spec.Rewrites PMV.Transforms

/-- `canon (bits: pass asserts debug literals keepModuleDoc imports object returnNone posargs annV annR annA annC) (bracket names) <module>` -/
def canon (args : List Sexp) : Option String := do
  match args with
  | [bits, el, m] =>
    let bits ← (← list? bits).mapM bool?
    let el ← (← list? el).mapM str?
    let m ← AstSexp.module? m
    match bits with
    | [a, b, c, d, e, f, g, h, i, j, k, l, n] =>
      let co : COpts := { pass := a, asserts := b, debug := c, literals := d, keepModuleDoc := e, imports := f, object := g,
                          returnNone := h, posargs := i, ann := ⟨j, k, l, n⟩, brackets := el }
      pure (encStr (Driver.Printer.printModule (canonModule co m)))
    | _ => none
  | _ => none

end PMV.Driver.Minify

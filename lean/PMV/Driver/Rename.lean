import PMV.Driver.Util
import PMV.Model.Rename
import PMV.Generated.Names
import PMV.Model.Hoist
namespace PMV.Driver.Rename
open PMV PMV.Driver PMV.Rename

def optStr? : Sexp → Option (Option String)
  | .atom "N" => some none
  | s => (str? s).map some

def refKind? : Sexp → Option RefKind
  | .atom "name" => some .name
  | .atom "def" => some .def_
  | .atom "except" => some .except_
  | .atom "match" => some .matchCapture
  | .atom "typeparam" => some .typeParam
  | .atom "literal" => some .literal
  | .list [.atom "decl", c] => (nat? c).map .decl
  | .list [.atom "alias", a] => (bool? a).map .alias
  | .list [.atom "arguments", v, k] => do pure (.arguments (← bool? v) (← bool? k))
  | .list [.atom "arg", i] => (bool? i).map .arg
  | _ => none

def ref? : Sexp → Option Ref
  | .list [k, .list chain] => do pure ⟨← refKind? k, ← chain.mapM nat?⟩
  | _ => none

def kind? : Sexp → Option Kind
  | .atom "name" => some .name | .atom "builtin" => some .builtin | .atom "hoisted" => some .hoisted | _ => none

def binding? (idx : Nat) : Sexp → Option Binding
  | .list [.atom "B", k, name, vlen, allow, reserved, home, isMod, .list encl, .list refs] => do
    pure { idx := idx, kind := ← kind? k, name := ← optStr? name, valueLen := ← nat? vlen, allow := ← bool? allow,
           reserved := ← optStr? reserved, home := ← nat? home, isModule := ← bool? isMod, enclosing := ← encl.mapM nat?, refs := ← refs.mapM ref? }
  | _ => none

/-- `rename.assign <prefixGlobals> (reservedGlobals..) (bindings..)` → `old>new` per binding in input order -/
def assignCmd (args : List Sexp) : Option String := do
  match args with
  | [pg, .list rg, .list bs] =>
    let pg ← bool? pg
    let rg ← rg.mapM str?
    let bs ← (bs.zipIdx).mapM fun (s, i) => binding? i s
    let rs := assign Generated.nameSeq pg 0 rg bs
    let sorted := (rs.toArray.qsort fun a b => a.b.idx < b.b.idx).toList
    let show_ (o : Option String) : String := match o with | some s => s | none => "N"
    pure (" ".intercalate (sorted.map fun r => encStr (show_ r.b.name ++ ">" ++ show_ r.final)))
  | _ => none

end PMV.Driver.Rename

namespace PMV.Driver.Rename
open PMV PMV.Driver

/-- `hoist.place ((path..) ..)` → the chosen namespace -/
def hoistPlace (args : List Sexp) : Option String := do
  match args with
  | [.list ps] =>
    let paths ← ps.mapM fun p => match p with
      | .list xs => xs.mapM nat?
      | _ => none
    match Hoist.place paths with
    | some n => pure (toString n)
    | none => pure "none"
  | _ => none

end PMV.Driver.Rename

import PMV.Driver.Util
import PMV.Model.Cli
import PMV.Model.Preserve
import PMV.Generated.Cli
import PMV.Model.CliCheck
namespace PMV.Driver.Cli
open PMV PMV.Cli PMV.Driver

/-- Hand model of how argv is cut into options with values, boolean flags and positionals
    (canonical spellings only: `--output X`, `-o X`, `--preserve-locals X`, `--preserve-globals X`). -/
structure Parsed where
  paths : List String := []
  output : Option String := none
  outputCount : Nat := 0
  bools : List String := []
  preserveLocals : List String := []
  preserveGlobals : List String := []
  error : Bool := false
  posOpen : Bool := false      -- currently inside the (single) contiguous run of positionals
  posDone : Bool := false      -- that run has ended: argparse (nargs='+') rejects any later positional

def parseArgv : List String → Parsed → Parsed
  | [], p => p
  | a :: rest, p =>
    if a == "--output" || a == "-o" then
      match rest with
      | v :: rest' => parseArgv rest' { p with output := some v, outputCount := p.outputCount + 1, posDone := p.posDone || p.posOpen, posOpen := false }
      | [] => { p with error := true }
    else if a == "--preserve-locals" then
      match rest with
      | v :: rest' => parseArgv rest' { p with preserveLocals := p.preserveLocals ++ [v], posDone := p.posDone || p.posOpen, posOpen := false }
      | [] => { p with error := true }
    else if a == "--preserve-globals" then
      match rest with
      | v :: rest' => parseArgv rest' { p with preserveGlobals := p.preserveGlobals ++ [v], posDone := p.posDone || p.posOpen, posOpen := false }
      | [] => { p with error := true }
    else if Generated.Cli.boolFlags.any (fun f => f.name == a) then
      parseArgv rest { p with bools := p.bools ++ [a], posDone := p.posDone || p.posOpen, posOpen := false }
    else if p.posDone then { p with error := true }
    else parseArgv rest { p with paths := p.paths ++ [a], posOpen := true }

def kwLine (argv : List String) : String :=
  let ns := parseBools Generated.Cli.table argv
  let ks := Generated.Cli.fwdBase.map (·.1)
  " ".intercalate (ks.map fun k => match evalKw Generated.Cli.table ns k with
    | some b => s!"{k}={if b then 1 else 0}"
    | none => s!"{k}=?")

def outcomeOf (tbl : List (List UInt8 × Option (List UInt8))) (src : List UInt8) : Outcome :=
  match tbl.lookup src with
  | some (some m) => .ok m
  | _ => .fail

def pair? (f : Sexp → Option α) (g : Sexp → Option β) : Sexp → Option (α × β)
  | .list [a, b] => do pure (← f a, ← g b)
  | _ => none

def optBytes? : Sexp → Option (Option (List UInt8))
  | .atom "fail" => some none
  | s => (bytes? s).map some

def sortFs (fs : FS) : FS := (fs.toArray.qsort (fun a b => a.1 < b.1)).toList

/-- `cli.run force (argv..) (dirs..) (fs (p b)..) stdin (walk (d (p n)..)..) (api (src out)..) (suffixes..)` -/
def run (args : List Sexp) : Option String := do
  match args with
  | [force, argv, dirs, fs, stdin, walk, api, sfx] =>
    let force ← bool? force
    let argv ← (← list? argv).mapM str?
    let dirs ← (← list? dirs).mapM str?
    let fs ← (← list? fs).mapM (pair? str? bytes?)
    let stdin ← bytes? stdin
    let walk ← (← list? walk).mapM (pair? str? (fun s => do (← list? s).mapM (pair? str? str?)))
    let api ← (← list? api).mapM (pair? bytes? optBytes?)
    let sfx ← (← list? sfx).mapM str?
    let p := parseArgv argv {}
    let ns := parseBools Generated.Cli.table argv
    let inPlace := ns "in_place"
    if p.error || (inPlace && p.output.isSome) || p.paths.isEmpty then
      pure "(exit 2)"     -- argparse usage error
    else
      let a : Args := { paths := p.paths, output := p.output, inPlace := inPlace, ns := ns }
      let isDir := fun q => dirs.contains q
      let vl := sourceModules sfx isDir (fun d => (walk.lookup d).getD []) p.paths
      let r := cliMain force a isDir (outcomeOf api) fs stdin vl
      let fsS := " ".intercalate ((sortFs r.fs).map fun (q, b) => s!"({encStr q} {encBytes b})")
      pure s!"(exit {r.exit}) (stdout {encBytes r.stdout}) (fs {fsS})"
  | _ => none

/-- `cli.kw (argv..)` -/
def kw (args : List Sexp) : Option String := do
  match args with
  | [argv] =>
    let argv ← (← list? argv).mapM str?
    pure (kwLine argv)
  | _ => none

/-- `cli.split (ws-codepoints) (arg ..)` → names -/
def split (args : List Sexp) : Option String := do
  match args with
  | [ws, as] =>
    let ws ← cps? ws
    let as ← (← list? as).mapM cps?
    let r := Preserve.parseArgs (fun c => ws.contains c) as
    pure ("(" ++ " ".intercalate (r.map encCps) ++ ")")
  | _ => none

def violations (_ : List Sexp) : Option String :=
  some ("(" ++ " ".intercalate (PMV.Cli.violationsPlain Generated.Cli.table) ++ ")")

end PMV.Driver.Cli

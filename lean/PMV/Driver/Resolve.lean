import PMV.Driver.Util
import PMV.Model.Resolve
import PMV.Model.Taint
namespace PMV.Driver.Resolve
open PMV PMV.Driver PMV.Resolve

def kind? : Sexp → Option NsKind
  | .atom "module" => some .module
  | .atom "function" => some .function
  | .atom "class" => some .class_
  | .atom "other" => some .other
  | _ => none

def strs? (s : Sexp) : Option (List String) := do (← list? s).mapM str?

def ns? : Sexp → Option NsInfo
  | .list [k, p, b, g, n] => do
    pure ⟨← kind? k, ← nat? p, ← strs? b, ← strs? g, ← strs? n⟩
  | _ => none

/-- `resolve.get (<namespace>…) ((<name> <ns>)…)` → for every query the namespace whose binding `get_binding` answers with, `-` for none -/
def get (args : List Sexp) : Option String := do
  match args with
  | [t, qs] =>
    let t ← (← list? t).mapM ns?
    let qs ← (← list? qs).mapM fun q => match q with
      | .list [x, n] => do pure (← str? x, ← nat? n)
      | _ => none
    pure (" ".intercalate (qs.map fun (x, n) => match getBinding t x (t.length + 2) n with
      | some h => toString h
      | none => "-"))
  | _ => none

/-- `taint.names (<namespace>…) ((<name> <ns>)…)` → `1` when some lookup of a trigger name reaches the module unresolved, else `0` -/
def taintNames (args : List Sexp) : Option String := do
  match args with
  | [t, qs] =>
    let t ← (← list? t).mapM ns?
    let qs ← (← list? qs).mapM fun q => match q with
      | .list [x, n] => do pure (← str? x, ← nat? n)
      | _ => none
    pure (if Taint.taintedByNames t (t.length + 2) qs then "1" else "0")
  | _ => none

end PMV.Driver.Resolve

import PMV.Driver.Util
import PMV.Model.Resolve
import PMV.Model.Taint
import PMV.Model.TaintSyntax
import PMV.AstSexp
namespace PMV.Driver.Resolve
open PMV PMV.Driver PMV.Resolve

def kind? : Sexp → Option NsKind
  | .atom "module" => some .module
  | .atom "function" => some .function
  | .atom "class" => some .class_
  | .atom "other" => some .other
  | _ => none

def strs? (s : Sexp) : Option (List String) := do (← list? s).mapM str?

def ns? : Sexp → Option NsInfo
  | .list [k, p, b, g, n] => do
    pure ⟨← kind? k, ← nat? p, ← strs? b, ← strs? g, ← strs? n⟩
  | _ => none

/-- `resolve.get (<namespace>…) ((<name> <ns>)…)` → for every query the namespace whose binding `get_binding` answers with, `-` for none -/
def get (args : List Sexp) : Option String := do
  match args with
  | [t, qs] =>
    let t ← (← list? t).mapM ns?
    let qs ← (← list? qs).mapM fun q => match q with
      | .list [x, n] => do pure (← str? x, ← nat? n)
      | _ => none
    pure (" ".intercalate (qs.map fun (x, n) => match getBinding t x (t.length + 2) n with
      | some h => toString h
      | none => "-"))
  | _ => none

/-- `taint.names (<namespace>…) ((<name> <ns>)…)` → `1` when some lookup of a trigger name reaches the module unresolved, else `0` -/
def taintNames (args : List Sexp) : Option String := do
  match args with
  | [t, qs] =>
    let t ← (← list? t).mapM ns?
    let qs ← (← list? qs).mapM fun q => match q with
      | .list [x, n] => do pure (← str? x, ← nat? n)
      | _ => none
    pure (if Taint.taintedByNames t (t.length + 2) qs then "1" else "0")
  | _ => none

/-- `taint.imports <module>` → `1` when some import alias anywhere in the module is `*` or has the root module `timeit` -/
def taintImports (args : List Sexp) : Option String := do
  match args with
  | [m] =>
    let m ← AstSexp.module? m
    pure (if TaintSyntax.taintedByImports m then "1" else "0")
  | _ => none

/-- `taint.declared ((<name> (<g|l|o>…))…)` → one `0`/`1` per binding (`is_only_declared`), a space, and whether the loop of
    `minify()` taints the module -/
def taintDeclared (args : List Sexp) : Option String := do
  match args with
  | [bs] =>
    let bs ← (← list? bs).mapM fun b => match b with
      | .list [x, ks] => do
        let ks ← (← list? ks).mapM fun k => match k with
          | .atom "g" => some TaintSyntax.RefKind.globalDecl
          | .atom "l" => some TaintSyntax.RefKind.nameLoad
          | .atom "o" => some TaintSyntax.RefKind.other
          | _ => none
        pure (← str? x, ks)
      | _ => none
    let flags := String.ofList (bs.map fun b => if TaintSyntax.isOnlyDeclared b.2 then '1' else '0')
    pure (flags ++ " " ++ (if TaintSyntax.taintedByDeclarations bs then "1" else "0"))
  | _ => none

end PMV.Driver.Resolve

import PMV.Proofs.CliRun
/-
  C15 — In-place minification touches only Python files and never corrupts one.
  The file system is abstract (path ↦ bytes); the visit list is what `source_modules` yields; `api`
  returns the minified bytes for the bytes read or fails (unreadable / undecodable / unparsable).
-/
namespace PMV.C15
open PMV.Cli

theorem nodup_eraseDups : ∀ (l : List String), l.eraseDups.Nodup
  | [] => by simp
  | a :: as => by
    rw [List.eraseDups_cons]
    have hlen : (as.filter fun b => !b == a).length < (a :: as).length :=
      Nat.lt_succ_of_le (List.length_filter_le _ _)
    have ih := nodup_eraseDups (as.filter fun b => !b == a)
    refine List.nodup_cons.mpr ⟨?_, ih⟩
    intro hmem
    rw [List.mem_eraseDups, List.mem_filter] at hmem
    simp at hmem
termination_by l => l.length

/-- T15.0: the visit list contains no path twice (repeated arguments, a directory together with a file in it). -/
theorem visit_list_nodup (suffixes : List String) (isDir : String → Bool)
    (walk : String → List (String × String)) (paths : List String) :
    (sourceModules suffixes isDir walk paths).Nodup := by
  unfold sourceModules
  exact nodup_eraseDups _

/-- T15.1: after an in-place run every file holds its original bytes or the complete result for
    those bytes (hypothesis: each path is visited once — see DESIGN §6 C15 for symlink aliases). -/
theorem post_state (force : Bool) (out : String) (api : List UInt8 → Outcome) (fs : FS) (l : List String)
    (hnd : l.Nodup) (p : String) :
    let r := runMain force .inPlace out api fs l
    r.fs.get p = fs.get p ∨
      ∃ src m, fs.get p = some src ∧ api src = .ok m ∧ r.fs.get p = some (written force src m) := by
  have := (run_inplace_inv force out api fs l { fs := fs, stdout := [], failed := false } hnd
    (fun _ _ => rfl) (fun _ => Or.inl rfl)).1
  exact this p

/-- T15.2: files that are not in the visit list are untouched (no hypothesis on the list). -/
theorem non_targets_untouched (force : Bool) (out : String) (api : List UInt8 → Outcome) (fs : FS)
    (l : List String) (q : String) (h : q ∉ l) :
    (runMain force .inPlace out api fs l).fs.get q = fs.get q :=
  run_inplace_untouched force out api l _ q h

/-- T15.2b: the visit list contains only explicit arguments and walked files with a target suffix. -/
theorem visit_list_targets (suffixes : List String) (isDir : String → Bool)
    (walk : String → List (String × String)) (paths : List String) (p : String)
    (h : p ∈ sourceModules suffixes isDir walk paths) :
    p ∈ paths ∨ ∃ d ∈ paths, ∃ name, (p, name) ∈ walk d ∧ isTarget suffixes name = true := by
  simp only [sourceModules, List.mem_eraseDups, List.mem_flatMap] at h
  obtain ⟨d, hd, hp⟩ := h
  split at hp
  · right
    simp only [List.mem_map, List.mem_filter] at hp
    obtain ⟨⟨p', name⟩, ⟨hmem, htgt⟩, rfl⟩ := hp
    exact ⟨d, hd, name, hmem, htgt⟩
  · left; simp at hp; exact hp ▸ hd

/-- T15.3: the first file that cannot be read or minified stops the run: exit status non-zero, that
    file and every file after it keep their bytes. -/
theorem stop_at_first_failure (force : Bool) (out : String) (api : List UInt8 → Outcome) (fs : FS)
    (pre post : List String) (a : String) (hnd : (pre ++ a :: post).Nodup)
    (hfail : fs.get a = none ∨ ∃ src, fs.get a = some src ∧ api src = .fail) :
    let r := runMain force .inPlace out api fs (pre ++ a :: post)
    r.failed = true ∧ ∀ q ∈ a :: post, r.fs.get q = fs.get q := by
  intro r
  have hpre_nd : pre.Nodup := (List.nodup_append.mp hnd).1
  have hdisj : ∀ q ∈ a :: post, q ∉ pre := by
    intro q hq hqp
    exact (List.nodup_append.mp hnd).2.2 q hqp q hq rfl
  let st0 : RunState := { fs := fs, stdout := [], failed := false }
  let st1 := pre.foldl (visit force .inPlace out api) st0
  have hst1 : ∀ q ∈ a :: post, st1.fs.get q = fs.get q :=
    fun q hq => run_inplace_untouched force out api pre st0 q (hdisj q hq)
  have hfail1 : st1.fs.get a = none ∨ ∃ src, st1.fs.get a = some src ∧ api src = .fail := by
    rw [hst1 a List.mem_cons_self]; exact hfail
  obtain ⟨hf, hfs⟩ := visit_fail force .inPlace out api st1 a hfail1
  have hr : r = post.foldl (visit force .inPlace out api) (visit force .inPlace out api st1 a) := by
    simp [r, runMain, List.foldl_append, st1, st0]
  rw [hr, foldl_failed force .inPlace out api post _ hf]
  exact ⟨hf, fun q hq => by rw [hfs]; exact hst1 q hq⟩

/-- T15.4: without `--in-place` only the `--output` file can change; to stdout nothing changes. -/
theorem output_only (force : Bool) (out : String) (api : List UInt8 → Outcome) (fs : FS) (l : List String) :
    (∀ q, q ≠ out → (runMain force .output out api fs l).fs.get q = fs.get q)
    ∧ (runMain force .stdout out api fs l).fs = fs :=
  ⟨fun q hq => run_output_other force out api l _ q hq, run_stdout_fs force out api l _⟩

-- Non-vacuity: a two-file run where the second file fails.
example :
    let api : List UInt8 → Outcome := fun b => if b == [1, 1, 1] then .ok [7] else .fail
    let r := runMain false .inPlace "" api [("a.py", [1, 1, 1]), ("b.py", [2])] ["a.py", "b.py"]
    r.failed = true ∧ r.fs.get "a.py" = some [7] ∧ r.fs.get "b.py" = some [2] := by decide

/-- T15.1 for the list the tool really visits: no hypothesis left. -/
theorem post_state_visited (force : Bool) (out : String) (api : List UInt8 → Outcome) (fs : FS)
    (suffixes : List String) (isDir : String → Bool) (walk : String → List (String × String)) (paths : List String) (p : String) :
    let r := runMain force .inPlace out api fs (sourceModules suffixes isDir walk paths)
    r.fs.get p = fs.get p ∨
      ∃ src m, fs.get p = some src ∧ api src = .ok m ∧ r.fs.get p = some (written force src m) :=
  post_state force out api fs _ (visit_list_nodup suffixes isDir walk paths) p

end PMV.C15

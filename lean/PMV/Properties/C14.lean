import PMV.Proofs.CliRun
/-
  C14 — The command line tool never emits more bytes than it was given.
-/
namespace PMV.C14
open PMV.Cli

/-- T14.1 (core): without the environment override, what `do_minify`/the handlers hand to any sink
    is never longer than the source, and is the source itself when the minified bytes are longer. -/
theorem never_larger (src minified : List UInt8) :
    (written false src minified).length ≤ src.length
    ∧ (minified.length > src.length → written false src minified = src) :=
  ⟨written_le src minified, written_passthrough src minified⟩

/-- Only the override turns the rule off: with it the minified bytes are always emitted. -/
theorem override_only (src minified : List UInt8) : written true src minified = minified :=
  written_force src minified

/-- stdin → stdout / `--output`: the bytes that reach the sink obey the rule. -/
theorem stdin_modes (a : Args) (isDir : String → Bool) (api : List UInt8 → Outcome) (fs : FS)
    (stdin m : List UInt8) (vl : List String) (hp : a.paths = ["-"]) (hv : invalid a isDir = false)
    (hapi : api stdin = .ok m) :
    let r := cliMain false a isDir api fs stdin vl
    (a.output = none → r.stdout.length ≤ stdin.length ∧ r.fs = fs)
    ∧ (∀ o, a.output = some o → ∃ w, r.fs.get o = some w ∧ w.length ≤ stdin.length) := by
  refine ⟨?_, ?_⟩
  · intro ho; simp [cliMain, hv, hp, hapi, ho, written_le]
  · intro o ho
    refine ⟨written false stdin m, ?_, written_le stdin m⟩
    simp [cliMain, hv, hp, hapi, ho, FS.get_set]

/-- One file in path mode, for each of the three sinks: the location written holds at most
    `|src|` bytes (in-place: the file itself; `--output`: the output file; otherwise stdout grows by
    at most `|src|`). -/
theorem path_modes (api : List UInt8 → Outcome) (st : RunState) (out path : String) (src m : List UInt8)
    (hnf : st.failed = false) (hget : st.fs.get path = some src) (hapi : api src = .ok m) :
    ((visit false .inPlace out api st path).fs.get path = some (written false src m))
    ∧ ((visit false .output out api st path).fs.get out = some (written false src m))
    ∧ ((visit false .stdout out api st path).stdout = st.stdout ++ written false src m)
    ∧ (written false src m).length ≤ src.length := by
  refine ⟨?_, ?_, ?_, written_le src m⟩ <;> simp [visit, hnf, hget, hapi, FS.get_set]

-- Non-vacuity
example : written false [1, 2, 3] [9, 9, 9, 9] = [1, 2, 3] := by decide
example : written false [1, 2, 3] [9, 9, 9] = [9, 9, 9] := by decide
example : written true [1, 2, 3] [9, 9, 9, 9] = [9, 9, 9, 9] := by decide

end PMV.C14

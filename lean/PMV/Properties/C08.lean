import PMV.Generated.Sites
import PMV.Generated.Stmt
import PMV.Generated.Pipeline
import PMV.Model.RaiseSites
import PMV.Model.Pipeline
import PMV.Properties.C02
/-
  C08 — Every compilable module is minified without error into a compilable module.
  The Lean models are total functions, so what can be proved here is about the *error sites*:
  the inventory of `raise` statements regenerated from the source equals the classified one (a new
  raise breaks the obligation); every node class the interpreter's parser can produce has a visitor
  on the printer and every statement class a dispatch entry; `ast.parse` is the first stage of the
  generated pipeline, so an unparseable source raises what the parser raises.  That the output
  parses is C02 (parenthesisation, token separation) and that it passes the compiler's scope checks is
  C03; both are cited, not re-proved.  RecursionError / MemoryError cannot be exhibited by a model.
-/
namespace PMV.C08

/-- G08.1: the raise sites are exactly the classified ones. -/
theorem raise_sites_inventory :
    Generated.raiseSites = RaiseSites.modelled.map (fun s => (s.1, s.2.1, s.2.2.1)) := by decide +kernel

/-- G08.2: every concrete node class of the running interpreter has a `visit_` method on ModulePrinter. -/
theorem visitor_complete :
    Generated.astClasses.filter (fun c => !Generated.visitMethods.contains c) = RaiseSites.notVisited := by decide +kernel

/-- G08.3: parsing is the first thing `minify()` does with the source (nothing that can raise precedes it). -/
theorem parse_first :
    Generated.pipeline.take 2 = [("", "stmt:filename = filename or 'python_minifier.minify source'"), ("", "ast.parse")] := by
  decide +kernel

/-- the output's expressions are grammatical (from C02): no syntax error can come from missing parentheses -/
theorem output_expressions_grammatical (e : Expr) (hwf : Spec.Grammar.WF e = true) :
    Spec.Grammar.Gram (Printer.paren Generated.precTable e) = true :=
  C02.paren_grammatical e hwf

example : (RaiseSites.modelled.filter fun s => s.2.2.2 == .fstring).length = 9 := by decide

end PMV.C08

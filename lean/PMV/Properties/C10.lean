import PMV.Generated.Names
import PMV.Generated.Pipeline
import PMV.Model.Pipeline
import PMV.Proofs.Rename
import PMV.Proofs.Exports
import PMV.Proofs.Freeze
/-
  C10 — Names the user asks to preserve are preserved.
  `allow_rename_locals/globals` pin every binding whose name is listed (modelled as `applyPreserve`);
  a pinned binding keeps its name (theorem), and its name is reserved in its whole scope before any
  name is assigned, so no other binding in that scope can take it (C03.no_new_clash).
-/
namespace PMV.C10
open PMV.Rename

/-- `allow_rename_locals(module, rename_locals, preserve_locals)` / `allow_rename_globals(...)` on one binding:
    disallowed when its kind of renaming is off or its name is listed. -/
def applyPreserve (renameLocals renameGlobals : Bool) (preserveLocals preserveGlobals : List String) (b : Binding) : Binding :=
  let listed := match b.name with
    | some n => if b.isModule then preserveGlobals.contains n else preserveLocals.contains n
    | none => false
  let off := if b.isModule then !renameGlobals else !renameLocals
  if (off || listed) && b.kind != .hoisted then { b with allow := false, reserved := b.name } else b

def listed (preserveLocals preserveGlobals : List String) (b : Binding) : Bool :=
  match b.name with
  | some n => if b.isModule then preserveGlobals.contains n else preserveLocals.contains n
  | none => false

theorem applyPreserve_spec (rl rgl : Bool) (pl pgl : List String) (b0 : Binding) :
    (applyPreserve rl rgl pl pgl b0).name = b0.name ∧ (applyPreserve rl rgl pl pgl b0).kind = b0.kind ∧
    (applyPreserve rl rgl pl pgl b0).isModule = b0.isModule ∧
    (listed pl pgl b0 = true → b0.kind ≠ .hoisted → (applyPreserve rl rgl pl pgl b0).allow = false) := by
  unfold applyPreserve
  simp only
  by_cases hc : (((if b0.isModule then !rgl else !rl) || (match b0.name with
      | some n => if b0.isModule then pgl.contains n else pl.contains n
      | none => false)) && b0.kind != .hoisted) = true
  · rw [if_pos hc]; exact ⟨rfl, rfl, rfl, fun _ _ => rfl⟩
  · rw [if_neg hc]
    refine ⟨rfl, rfl, rfl, fun hl hk => ?_⟩
    exfalso; apply hc
    simp only [Bool.and_eq_true, Bool.or_eq_true, bne_iff_ne, ne_eq]
    exact ⟨Or.inr (by simpa [listed] using hl), hk⟩

/-- T10.1: a listed name is never renamed, for every program's bindings and every other option. -/
theorem preserved_names_kept (pg rl rgl : Bool) (moduleNs : Ns) (rg pl pgl : List String) (bindings : List Binding) (r : Result)
    (h : r ∈ assign Generated.nameSeq pg moduleNs rg (bindings.map (applyPreserve rl rgl pl pgl)))
    (n : String) (hn : r.b.name = some n) (hk : r.b.kind ≠ .hoisted) (hl : listed pl pgl r.b = true) :
    r.final = some n ∧ r.renamed = false := by
  have hb : r.b ∈ bindings.map (applyPreserve rl rgl pl pgl) := by
    have := loop_mem_b _ pg _ _ r h
    unfold sortBindings at this
    exact (List.mergeSort_perm _ _).mem_iff.mp this
  obtain ⟨b0, _, hb0⟩ := List.mem_map.mp hb
  obtain ⟨h1, h2, h3, h4⟩ := applyPreserve_spec rl rgl pl pgl b0
  have hallow : r.b.allow = false := by
    rw [← hb0]
    apply h4
    · rw [← hb0] at hl
      simpa [listed, h1, h3] using hl
    · rw [← hb0, h2] at hk; exact hk
  have := pinned_kept _ pg _ _ r h hallow
  exact ⟨by rw [this.1, hn], this.2⟩

/-- T10.2: `find__all__` returns exactly the names some module-level statement lists in `__all__` -/
theorem findAll_exact (m : Module) (s : String) : s ∈ Exports.findAll m ↔ Exports.Exported m s :=
  Exports.findAll_spec m s

/-- T10.3: `allow_rename_globals` extends `preserve_globals` by `find__all__(module)`; hence a module-level binding
    whose name is exported through `__all__` is never renamed, whatever the other options and lists are. -/
theorem exported_names_kept (m : Module) (pg rl rgl : Bool) (moduleNs : Ns) (rg pl pgl : List String) (bindings : List Binding) (r : Result)
    (h : r ∈ assign Generated.nameSeq pg moduleNs rg (bindings.map (applyPreserve rl rgl pl (pgl ++ Exports.findAll m))))
    (n : String) (hn : r.b.name = some n) (hk : r.b.kind ≠ .hoisted) (hm : r.b.isModule = true) (he : Exports.Exported m n) :
    r.final = some n ∧ r.renamed = false := by
  apply preserved_names_kept pg rl rgl moduleNs rg pl (pgl ++ Exports.findAll m) bindings r h n hn hk
  have : n ∈ Exports.findAll m := (Exports.findAll_spec m n).mpr he
  simp [listed, hn, hm, this]

/-- the preserve lists reach `allow_rename_*` and `rename` as in the modelled pipeline -/
theorem pipeline_as_modelled : Generated.pipeline = Pipeline.modelled := by decide +kernel

example : (applyPreserve true true ["keep_me"] [] ⟨0, .name, some "keep_me", 0, true, none, 1, false, [], []⟩).allow = false := by
  decide

/-- non-vacuity: a nested, annotated `__all__` is seen; one inside a function is not -/
example : Exports.findAll ⟨[.if_ (.constant .true_) [.annAssign (.name "__all__" .store) (.name "list" .load)
      (some (.list [.constant (.str "'a'" [97]), .constant (.int 1), .constant (.str "'b'" [98])])) true] [],
    .functionDef false "f" (.mk [] [] none [] [] none [])
      [.assign [.name "__all__" .store] (.list [.constant (.str "'c'" [99])])] [] none []]⟩ = ["a", "b"] := by
  decide

/-! ### the traversal that applies the preserve lists (model `PMV.Freeze` of `allow_rename_locals` / `allow_rename_globals`) -/

/-- T10.4a: a binding of any namespace other than the module whose name is in `preserve_locals` is frozen, wherever it is. -/
theorem listed_locals_frozen (rl : Bool) (pl : List String) (n : Freeze.Node) (b : Nat × Option String) (x : String)
    (h : Freeze.LocalBinding n b) (hn : b.2 = some x) (hx : x ∈ pl) : b.1 ∈ Freeze.freezeLocals rl pl n :=
  (Freeze.freezeLocals_spec rl pl n b.1).mpr ⟨b, h, rfl, by simp [Freeze.frozenLocal, Freeze.listedIn, hn, hx]⟩

/-- T10.4b: a module binding whose name is in `preserve_globals` or in a literal `__all__` (`find__all__`, T10.2) is frozen. -/
theorem listed_and_exported_globals_frozen (rg : Bool) (pg ex : List String) (od : List Nat) (bs : List (Nat × Option String))
    (b : Nat × Option String) (x : String) (h : b ∈ bs) (hn : b.2 = some x) (hx : x ∈ pg ∨ x ∈ ex) :
    b.1 ∈ Freeze.freezeGlobals rg pg ex od bs :=
  (Freeze.freezeGlobals_spec rg pg ex od bs b.1).mpr ⟨b, h, rfl, Or.inr (Or.inl (by
    simp only [Freeze.listedIn, hn, List.contains_eq_mem, List.mem_append, decide_eq_true_eq]; exact hx))⟩

/-- T10.4c: and nothing else is frozen by the two functions: exactly the listed (or exported, or only-declared) names, or
    everything when that kind of renaming is off. -/
theorem frozen_exactly (rl : Bool) (pl : List String) (n : Freeze.Node) (i : Nat) :
    i ∈ Freeze.freezeLocals rl pl n ↔ ∃ b, Freeze.LocalBinding n b ∧ b.1 = i ∧ (rl = false ∨ Freeze.listedIn pl b.2 = true) := by
  rw [Freeze.freezeLocals_spec]
  constructor <;> rintro ⟨b, hb, hi, hf⟩ <;> refine ⟨b, hb, hi, ?_⟩
  · simpa [Freeze.frozenLocal] using hf
  · simpa [Freeze.frozenLocal] using hf

end PMV.C10

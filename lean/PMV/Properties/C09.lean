import PMV.Generated.Pipeline
import PMV.Generated.Names
import PMV.Model.Pipeline
import PMV.Proofs.Rename
/-
  C09 — Dynamic name access freezes every name in the module.
  Proved: (G) the generated top-level shape of `minify()` equals the modelled one, in which literal
  hoisting and exception-bracket removal are gated on `not module.tainted` and the taint block clears
  both renaming flags; (T) when no binding may be renamed the assigner renames nothing and introduces
  no name.  Taint *detection* (which programs set `module.tainted`) is decided by the oracle only.
-/
namespace PMV.C09
open PMV.Rename

/-- G09.1: `minify()` has exactly the modelled stages, conditions and order. -/
theorem pipeline_as_modelled : Generated.pipeline = Pipeline.modelled := by decide +kernel

/-- G09.2: under taint both renaming flags are cleared, and the stages that add names are gated. -/
theorem taint_gating :
    Generated.taintGating = ["rename_globals = False", "rename_locals = False"]
    ∧ Pipeline.taintGated Generated.pipeline = true := by decide +kernel

/-- T09.2: if every binding is pinned (what `allow_rename_locals/globals(False)` leaves behind) then no
    result is renamed and every binding keeps its name: no identifier changes, no name is introduced. -/
theorem all_pinned_nothing_renamed (pg : Bool) (moduleNs : Ns) (rg : List String) (bindings : List Binding)
    (hall : ∀ b ∈ bindings, b.allow = false) :
    ∀ r ∈ assign Generated.nameSeq pg moduleNs rg bindings, r.renamed = false ∧ r.final = r.b.name := by
  intro r hr
  have hb : r.b ∈ bindings := by
    have := loop_mem_b _ pg _ _ r hr
    unfold sortBindings at this
    exact (List.mergeSort_perm _ _).mem_iff.mp this
  have := pinned_kept _ pg _ _ r hr (hall r.b hb)
  exact ⟨this.2, this.1⟩

example : Pipeline.taintGated [("hoist_literals", "rename_literals")] = false := by decide

end PMV.C09

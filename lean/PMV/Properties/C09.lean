import PMV.Generated.Pipeline
import PMV.Generated.Names
import PMV.Model.Pipeline
import PMV.Proofs.Rename
import PMV.Proofs.Freeze
import PMV.Proofs.Taint
import PMV.Proofs.TaintSyntax
/-
  C09 — Dynamic name access freezes every name in the module.
  Proved: (G) the generated top-level shape of `minify()` equals the modelled one, in which literal
  hoisting and exception-bracket removal are gated on `not module.tainted` and the taint block clears
  both renaming flags; (T) when no binding may be renamed the assigner renames nothing and introduces
  no name; (F) with the renaming flags cleared, the traversal `allow_rename_locals` / `allow_rename_globals` freezes every binding
  of every namespace, at any depth and whatever kind of node it hangs on (model `PMV.Freeze`, compared with the real functions on
  the namespace trees of the generated programs on every run) — the premise of (T).
  (D) the name part of taint *detection* is modelled on the resolver model of C03: a module is tainted by names exactly when some
  lookup of `exec` / `eval` / `locals` / `globals` / `vars` finds no binding on Python's lookup path (compared with the real
  `module.tainted` on every generated program); star imports, `timeit` and the only-declared rule are syntactic and read off the tree.
  That a trigger name *bound* somewhere may still be the builtin at run time (findings F29a–d) is outside any static rule of this kind.
-/
namespace PMV.C09
open PMV.Rename

/-- G09.1: `minify()` has exactly the modelled stages, conditions and order. -/
theorem pipeline_as_modelled : Generated.pipeline = Pipeline.modelled := by decide +kernel

/-- G09.2: under taint both renaming flags are cleared, and the stages that add names are gated. -/
theorem taint_gating :
    Generated.taintGating = ["rename_globals = False", "rename_locals = False"]
    ∧ Pipeline.taintGated Generated.pipeline = true := by decide +kernel

/-- T09.2: if every binding is pinned (what `allow_rename_locals/globals(False)` leaves behind) then no
    result is renamed and every binding keeps its name: no identifier changes, no name is introduced. -/
theorem all_pinned_nothing_renamed (pg : Bool) (moduleNs : Ns) (rg : List String) (bindings : List Binding)
    (hall : ∀ b ∈ bindings, b.allow = false) :
    ∀ r ∈ assign Generated.nameSeq pg moduleNs rg bindings, r.renamed = false ∧ r.final = r.b.name := by
  intro r hr
  have hb : r.b ∈ bindings := by
    have := loop_mem_b _ pg _ _ r hr
    unfold sortBindings at this
    exact (List.mergeSort_perm _ _).mem_iff.mp this
  have := pinned_kept _ pg _ _ r hr (hall r.b hb)
  exact ⟨this.2, this.1⟩

example : Pipeline.taintGated [("hoist_literals", "rename_literals")] = false := by decide

/-- T09.3a: with local renaming off — what the taint block sets — `allow_rename_locals` freezes every binding of every namespace
    other than the module: at any depth, and whatever the node is (function, lambda, class, comprehension). -/
theorem taint_freezes_every_local (pl : List String) (n : Freeze.Node) (b : Nat × Option String) (h : Freeze.LocalBinding n b) :
    b.1 ∈ Freeze.freezeLocals false pl n :=
  (Freeze.freezeLocals_spec false pl n b.1).mpr ⟨b, h, rfl, by simp [Freeze.frozenLocal]⟩

/-- T09.3b: with global renaming off `allow_rename_globals` freezes every binding of the module. -/
theorem taint_freezes_every_global (pg ex : List String) (od : List Nat) (bs : List (Nat × Option String)) (b : Nat × Option String)
    (h : b ∈ bs) : b.1 ∈ Freeze.freezeGlobals false pg ex od bs :=
  (Freeze.freezeGlobals_spec false pg ex od bs b.1).mpr ⟨b, h, rfl, Or.inl rfl⟩

-- Non-vacuity: module → (not a namespace: an assignment) → lambda with `*args` (binding 2); module → function (binding 1) →
-- class (binding 3); the module's own binding 0 is not a local.  Everything but 0 is frozen.
example :
    let lam : Freeze.Node := .mk true false [(2, some "args")] []
    let cls : Freeze.Node := .mk true false [(3, some "attribute")] []
    let fn : Freeze.Node := .mk true false [(1, some "value")] [cls]
    let tree : Freeze.Node := .mk true true [(0, some "module_name")] [.mk false false [] [lam], fn]
    Freeze.freezeLocals false [] tree = [2, 1, 3] ∧ Freeze.freezeLocals true ["args"] tree = [2]
    ∧ Freeze.freezeGlobals false [] [] [] [(0, some "module_name")] = [0] := by decide

/-! ### taint detection by names (model `PMV.Taint` over the namespace tree of C03) -/

/-- T09.4a: the module is tainted by names exactly when some lookup of a trigger name finds no binding on Python's lookup path
    of that use — own scope unless `global` / `nonlocal`, enclosing non-class scopes, module — so the name means the builtin. -/
theorem tainted_by_names_iff (t : Resolve.Tree) (fuel : Nat) (lookups : List Taint.Lookup) :
    Taint.taintedByNames t fuel lookups = true ↔
      ∃ l ∈ lookups, l.1 ∈ Taint.triggers ∧ ∀ a ∈ Resolve.lookupPath t l.1 fuel l.2, (Resolve.info t a).bindings.contains l.1 = false :=
  Taint.taintedByNames_iff t fuel lookups

/-- T09.4b: a trigger name that is bound in a scope the use can see is a program variable: that lookup does not taint
    (the control group of the oracle; why F29a–d are possible at all). -/
theorem bound_trigger_does_not_taint (t : Resolve.Tree) (fuel : Nat) (l : Taint.Lookup) (a : Nat)
    (ha : a ∈ Resolve.lookupPath t l.1 fuel l.2) (hb : (Resolve.info t a).bindings.contains l.1 = true) : Taint.taintsBy t fuel l = false :=
  Taint.bound_trigger_does_not_taint t fuel l a ha hb

-- Non-vacuity: `eval` read in a method (2) of a class (1) that binds `eval` as an attribute: class bodies are skipped, the module
-- does not bind it → tainted; the same read with `eval` bound at module level → not tainted; `print` is no trigger.
example :
    let t : Resolve.Tree := [⟨.module, 0, ["Holder"], [], []⟩, ⟨.class_, 0, ["eval", "method"], [], []⟩, ⟨.function, 1, ["self"], [], []⟩]
    let t2 : Resolve.Tree := [⟨.module, 0, ["Holder", "eval"], [], []⟩, ⟨.class_, 0, ["method"], [], []⟩, ⟨.function, 1, ["self"], [], []⟩]
    Taint.taintedByNames t 5 [("eval", 2)] = true ∧ Taint.taintedByNames t 5 [("eval", 1), ("print", 2)] = false
    ∧ Taint.taintedByNames t2 5 [("eval", 2)] = false := by decide

/-! ### T09.5: the syntactic taint sources -/
open PMV PMV.TaintSyntax in
/-- T09.5a: the import part of taint detection holds exactly when some statement of the module — at any depth, in a function,
    a class or any block — is an import with an alias `*` or with the root module `timeit`. -/
theorem tainted_by_imports_iff (m : Module) :
    taintedByImports m = true ↔ ∃ st ∈ allStmts m, stmtTaints st = true := by
  unfold taintedByImports allStmts
  rw [taintL_spec, List.any_eq_true]

open PMV PMV.TaintSyntax in
/-- T09.5b: a star import taints the module wherever it stands. -/
theorem star_import_anywhere_taints (m : Module) (mo : Option String) (names : List Alias) (lv : Nat) (a : Alias)
    (hst : Stmt.importFrom mo names lv ∈ allStmts m) (ha : a ∈ names) (hstar : a.name = "*") :
    taintedByImports m = true := by
  rw [tainted_by_imports_iff]
  refine ⟨_, hst, ?_⟩
  simp only [stmtTaints, List.any_eq_true]
  exact ⟨a, ha, by simp [aliasTaints, hstar]⟩

open PMV PMV.TaintSyntax in
/-- T09.5c: `is_only_declared` stated outright: no reference is anything but a `global` declaration or a read, and there is a
    declaration. -/
theorem only_declared_iff (refs : List TaintSyntax.RefKind) :
    isOnlyDeclared refs = true ↔ (∀ r ∈ refs, r ≠ .other) ∧ .globalDecl ∈ refs :=
  isOnlyDeclared_spec refs

open PMV PMV.TaintSyntax in
/-- T09.5d: a trigger name that is declared `global` somewhere, never bound and otherwise only read, taints the module. -/
theorem declared_trigger_taints (bindings : List (String × List TaintSyntax.RefKind)) (n : String) (refs : List TaintSyntax.RefKind)
    (hb : (n, refs) ∈ bindings) (hn : n ∈ triggers) (hr : ∀ r ∈ refs, r ≠ .other) (hg : .globalDecl ∈ refs) :
    taintedByDeclarations bindings = true := by
  unfold taintedByDeclarations
  rw [List.any_eq_true]
  refine ⟨(n, refs), hb, ?_⟩
  simp only [Bool.and_eq_true]
  exact ⟨by simpa using hn, (isOnlyDeclared_spec refs).mpr ⟨hr, hg⟩⟩

open PMV PMV.TaintSyntax in
/-- T09.5e: a binding that is assigned, imported or defined anywhere (some reference of another kind) never taints by declaration. -/
theorem bound_trigger_not_declared_only (refs : List TaintSyntax.RefKind) (h : TaintSyntax.RefKind.other ∈ refs) : isOnlyDeclared refs = false := by
  cases hd : isOnlyDeclared refs
  · rfl
  · exact absurd rfl ((isOnlyDeclared_spec refs).mp hd |>.1 _ h)

-- non-vacuity: a star import inside `try` inside a class inside a function
open PMV PMV.TaintSyntax in
example : taintedByImports ⟨[.pass, .functionDef false "f" (.mk [] [] none [] [] none []) [
    .classDef "C" [] [] [.try_ false [.importFrom (some "os") [⟨"*", none⟩] 0] [] [] []] [] []] [] none []]⟩ = true := by decide
open PMV.TaintSyntax in
example : taintedByDeclarations [("other", [.globalDecl]), ("eval", [.nameLoad, .globalDecl, .nameLoad])] = true := by decide
open PMV.TaintSyntax in
example : taintedByDeclarations [("eval", [.nameLoad, .globalDecl, .other]), ("vars", [.nameLoad])] = false := by decide

end PMV.C09

import PMV.Generated.Cli
import PMV.Proofs.Cli
import PMV.Proofs.CliRun
import PMV.Proofs.Preserve
/-
  C13 — The command line tool writes exactly what the API would return.
  Property theorems only; helper lemmas live in PMV/Proofs.
-/
namespace PMV.C13
open PMV.Cli

/-- G13: the table extracted from the *current* `__main__.py` (argparse actions, observed forwarding)
    satisfies the obligation; re-proved on every run. -/
theorem table_ok : TableOK Generated.Cli.table = true := by decide +kernel

/-- T13.1: for every argv, every keyword `do_minify` forwards has exactly the value the documentation
    assigns to the set of flags present — each flag controls its own option and no other. -/
theorem flags_forwarded (argv : List String) :
    ∀ k e, (k, e) ∈ Spec.Docs.docKw →
      evalKw Generated.Cli.table (parseBools Generated.Cli.table argv) k
        = some (e.eval (fun f => argv.contains f)) :=
  flags_forwarded_of_tableOK _ table_ok argv

/-- T13.1b: with no flags the CLI passes the documented API defaults, and these are the defaults in
    `minify`'s signature (generated from `inspect.signature`). -/
theorem defaults_agree :
    (Spec.Docs.docApiDefaults.all fun kd =>
        Generated.Cli.apiDefaults.lookup kd.1 == some kd.2
        && evalKw Generated.Cli.table (parseBools Generated.Cli.table []) kd.1 == some kd.2) = true
    ∧ Generated.Cli.apiDefaults.length = Spec.Docs.docApiDefaults.length := by decide +kernel

/-- T13.1c: order and repetition of flags are irrelevant. -/
theorem flags_order_irrelevant (a b : List String) (h : ∀ f, f ∈ a ↔ f ∈ b) :
    ∀ k e, (k, e) ∈ Spec.Docs.docKw →
      evalKw Generated.Cli.table (parseBools Generated.Cli.table a) k
        = evalKw Generated.Cli.table (parseBools Generated.Cli.table b) k := by
  intro k e hke
  rw [flags_forwarded a k e hke, flags_forwarded b k e hke]
  congr 1
  apply BExp.eval_congr
  intro v _
  simp only [List.contains_eq_mem, h v]

/-- T13.3: a comma-joined list of clean names is split back into exactly those names, and repeated
    `--preserve-*` flags concatenate. -/
theorem preserve_split (ws : Nat → Bool) (names : List (List Nat)) (h : ∀ n ∈ names, Preserve.Clean ws n) :
    Preserve.parseArg ws (Preserve.joinComma names) = names := Preserve.parseArg_join ws names h

theorem preserve_repeat (ws : Nat → Bool) (a b : List (List Nat)) :
    Preserve.parseArgs ws (a ++ b) = Preserve.parseArgs ws a ++ Preserve.parseArgs ws b :=
  Preserve.parseArgs_append ws a b

/-- T13.4: an invalid combination exits non-zero with nothing written anywhere. -/
theorem invalid_rejected (force : Bool) (a : Args) (isDir : String → Bool) (api : List UInt8 → Outcome)
    (fs : FS) (stdin : List UInt8) (vl : List String) (h : invalid a isDir = true) :
    let r := cliMain force a isDir api fs stdin vl
    r.exit ≠ 0 ∧ r.fs = fs ∧ r.stdout = [] := by
  simp [cliMain, h]

/-- T13.5: for a single valid module read from stdin, what is written is the API result, or the
    untouched source when the size rule says so. -/
theorem stdin_bytes_are_api (force : Bool) (a : Args) (isDir : String → Bool) (api : List UInt8 → Outcome)
    (fs : FS) (stdin m : List UInt8) (vl : List String)
    (hv : invalid a isDir = false) (hp : a.paths = ["-"]) (hapi : api stdin = .ok m) (ho : a.output = none) :
    (cliMain force a isDir api fs stdin vl).stdout = written force stdin m
    ∧ (written force stdin m = m ∨ written force stdin m = stdin) := by
  simp [cliMain, hv, hp, hapi, ho, written_is_api_or_src]

-- Non-vacuity: the hypotheses are met by concrete, non-trivial inputs.
example : evalKw Generated.Cli.table (parseBools Generated.Cli.table
    ["--remove-asserts", "x.py", "--no-remove-annotations", "--remove-asserts"]) "remove_asserts" = some true := by
  decide +kernel
example : evalKw Generated.Cli.table (parseBools Generated.Cli.table
    ["--no-remove-annotations"]) "remove_annotations.remove_return_annotations" = some false := by
  decide +kernel
example : Preserve.Clean (fun c => c == 32) [97, 98] := by
  refine ⟨by simp, by simp, ?_, ?_⟩ <;> intro c h <;> simp at h <;> subst h <;> decide

end PMV.C13

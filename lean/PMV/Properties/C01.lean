import PMV.Proofs.PyCore
import PMV.Proofs.PyCoreInst
import PMV.Proofs.PyCoreMono
import PMV.Proofs.PyCoreImports
import PMV.Proofs.PyCoreBindInst
import PMV.Proofs.RemovePass
import PMV.Proofs.DropGuard
import PMV.Proofs.PyCoreRename2
import PMV.Proofs.PyCoreHoist2
import PMV.Proofs.PyCoreAnn
/-
  C01 — With the default options a minified program behaves like the original.
  `Spec.PyCore` gives a first-order core of Python (ints, bools, strings, None; assignment, `if`,
  `while`/`else`, `for … in range(…)`/`else`, `break`/`continue`, `try`/`except`/`else`/`finally`, `print`, `assert`, `raise`,
  `global`, calls of module-level functions) a fuel-indexed definitional semantics whose observable is exactly what C01 names:
  the printed lines, how the run ends (normally / which exception), and the final globals.
  Proved, for every module, every nesting depth, through loops and calls, and for every fuel:
  the statement-level default transforms that are meant to be behaviour-neutral — remove_pass,
  remove_literal_statements (with its `__doc__` guard), remove_explicit_return_none,
  remove_exception_brackets, remove_object_base — and any pipeline of them leave the observable
  unchanged; under `python -O` semantics (`runO`) remove_asserts and remove_debug leave it unchanged;
  constant folding (for any oracle) and positional-only conversion *refine* it: unless the
  original run leaves the core (`stuck`), the transformed module behaves identically.
  combine_imports leaves it unchanged too, the observable including the sequence of import events.
  T01.13: renaming the local names of the functions (each function with its own renaming; parameters are copied
  to their new names at the start of the body, as the renamer does) leaves it unchanged, under a decidable side
  condition on the renaming (`modOK`: injective on the names of the function, moves only local names, …) that
  the check evaluates on the renaming the real minifier chose; the model of applying a renaming is compared
  with `minify(rename_locals only)` text for text.
  T01.14: hoisting repeated literals into names (module-level and function-level, the assignments after the
  docstrings, possibly between the renamer's parameter copies) leaves it unchanged up to the new global names,
  under the decidable `hoistOK`; `minify_core_preserves` chains the transform pipeline, the renaming and the
  hoisting — `minify()` with its default options on the core.
  Partial: renaming of globals and annotation removal are decided by the
  differential-execution oracle on the real code and by the per-transform theorems of
  C02–C06/C09/C10, not by a PyCore theorem.
-/
namespace PMV.C01
open PMV PMV.Transforms PMV.PyCore PMV.Minify PMV.RenameAst PMV.HoistAst

/-- T01.1 -/
theorem remove_pass_preserves (n : Nat) (m : Module) : run n (travModule removePass m) = run n m :=
  run_trav removePass removePass_sound removePass_table n m (stable_of_bindOK _ removePass_bindOK _)

/-- T01.2 (including the guard that leaves the module alone when it mentions `__doc__`) -/
theorem remove_literals_preserves (n : Nat) (m : Module) : run n (removeLiteralStatements m) = run n m := by
  unfold removeLiteralStatements
  split
  · rfl
  · exact run_trav (dropT isLiteralStmt) (dropT_sound _ isLiteral_noop) (dropT_table (o := false) _ isLiteral_noop) n m
      (stable_of_bindOK _ (dropT_bindOK _ isLiteral_binds) _)

/-- T01.3 -/
theorem return_none_preserves (n : Nat) (m : Module) : run n (travModule removeReturnNone m) = run n m :=
  run_trav removeReturnNone returnNone_sound returnNone_table n m (stable_of_bindOK _ returnNone_bindOK _)

/-- T01.4 -/
theorem exception_brackets_preserves (el : List String) (n : Nat) (m : Module) :
    run n (travModule (removeBrackets el) m) = run n m :=
  run_trav _ (brackets_sound el) (brackets_table el) n m (stable_of_bindOK _ (brackets_bindOK el) _)

/-- T01.5 -/
theorem remove_object_preserves (n : Nat) (m : Module) : run n (travModule removeObject m) = run n m :=
  run_trav _ object_sound object_table n m (stable_of_bindOK _ object_bindOK _)

/-- T01.7: constant folding refines the behaviour of every module: unless the original run leaves the core
    (`stuck`), the folded module prints the same lines, ends the same way and leaves the same globals — for any
    oracle (inside the core only integer and bool arithmetic is defined, computed by `PyInt.eval` on both sides). -/
theorem constant_folding_preserves (t : Printer.PrecTable) (sp : Token.Spacing) (orc : Fold.Oracle) (n : Nat) (m : Module)
    (hcore : (run n m).ending ≠ "stuck") : run n (foldModule t sp orc m) = run n m :=
  run_foldModule t sp orc n m hcore

/-- T01.8: turning positional-only parameters into ordinary ones refines the behaviour of every module
    (PyCore has positional calls only: the documented keyword-collision corner is outside it). -/
theorem convert_posargs_preserves (n : Nat) (m : Module) (hcore : (run n m).ending ≠ "stuck") :
    run n (removePosargs m) = run n m :=
  run_removePosargs n m hcore

/-- T01.10 (the `-O` clause of C05, as behaviour): under `python -O` semantics (`runO`: `__debug__` tests are False,
    `assert` statements are not executed) remove_asserts leaves the observable unchanged, provided the removed statements
    bind no name of a function (`scopeStable`, decidable, evaluated per program by the check): which names are local to
    a function is decided statically, so removing the only binding of a name — `assert (x := …)`, `if __debug__: x = 1` —
    turns a local variable into a global one, under `-O` too (finding F38) … -/
theorem remove_asserts_preserves_under_O (n : Nat) (m : Module) (hs : scopeStable removeAsserts m = true) :
    runO n (travModule removeAsserts m) = runO n m :=
  runO_trav (guardT isAssert) (guardT_sound isAssert isAssert_noop) (guardT_table (o := true) isAssert isAssert_noop) n m
    (stable_of_scopeStable _ m hs)

/-- … and so does remove_debug: the removed `if __debug__:` blocks (the documented spellings, no `else`) do nothing there. -/
theorem remove_debug_preserves_under_O (n : Nat) (m : Module) (hs : scopeStable removeDebug m = true) :
    runO n (travModule removeDebug m) = runO n m :=
  runO_trav (guardT canRemoveDebug) (guardT_sound canRemoveDebug canRemoveDebug_noop)
    (guardT_table (o := true) canRemoveDebug canRemoveDebug_noop) n m (stable_of_scopeStable _ m hs)

/-- T01.12: combine_imports leaves the observable unchanged, where the observable now includes the sequence of import
    events (which module, bound to which name, in which order): merged statements import the same modules in the
    same order and bind the same names.  Holds under both semantics. -/
theorem combine_imports_preserves (n : Nat) (m : Module) : run n (travModule combineImports m) = run n m :=
  run_trav combineImports combineImports_sound combineImports_table n m (stable_of_bindOK _ combineImports_bindOK _)

theorem combine_imports_preserves_under_O (n : Nat) (m : Module) : runO n (travModule combineImports m) = runO n m :=
  runO_trav combineImports combineImports_sound combineImports_table n m (stable_of_bindOK _ combineImports_bindOK _)

/-- T01.9: fuel only bounds loop iterations and call depth: a run that ends within fuel `n` (anything but `timeout`)
    is the same at every larger fuel — "for every fuel" above speaks about the program, not about the bound. -/
theorem more_fuel_same_behaviour (n k : Nat) (m : Module) (h : (run n m).ending ≠ "timeout") :
    run (n + k) m = run n m :=
  run_more_fuel n k m h

/-- the switches whose transform is not covered by a PyCore theorem are off -/
def CoreOnly (o : Opts) : Prop :=
  o.removeAsserts = false ∧ o.removeDebug = false

/-- the module that reaches remove_annotations in the pipeline -/
abbrev beforeAnnotations (o : Opts) (m : Module) : Module := beforeAnnotationsM o m

/-- T01.17: annotation removal refines the behaviour (see `Proofs/PyCoreAnn.lean`): annotated names inside functions are
    assigned like plain ones, a value-less annotation keeps the name local (`x: 0`); annotated `def`s and module-level
    annotated assignments — whose annotations are evaluated — are outside the core.  Needs distinct module-level `def` names. -/
theorem remove_annotations_preserves (a : AnnOpts) (n : Nat) (m : Module) (hnd : (defNames m.body).Nodup)
    (hcore : (run n m).ending ≠ "stuck") : run n (removeAnnotations a m) = run n m :=
  run_removeAnnotations a n m hnd hcore

/-- T01.6: the modelled transform pipeline, restricted to the eight transforms covered above (any subset of
    them, in pipeline order), refines the observable behaviour of every module that stays inside the core. -/
theorem pipeline_partial (t : Printer.PrecTable) (sp : Token.Spacing) (orc : Fold.Oracle) (el : List String)
    (o : Opts) (ho : CoreOnly o) (n : Nat) (m : Module)
    (hN : o.annotations.any = true → (defNames (beforeAnnotations o m).body).Nodup)
    (hcore : (run n m).ending ≠ "stuck") :
    run n (transformM t sp orc el o m) = run n m := by
  obtain ⟨h3, h4⟩ := ho
  let m1 := if o.removeLiteralStatements then removeLiteralStatements m else m
  have e1 : run n m1 = run n m := by
    show run n (if o.removeLiteralStatements then removeLiteralStatements m else m) = run n m
    split
    · exact remove_literals_preserves n m
    · rfl
  let m1c := if o.combineImports then travModule combineImports m1 else m1
  have e1c : run n m1c = run n m := by
    show run n (if o.combineImports then travModule combineImports m1 else m1) = run n m
    split
    · rw [combine_imports_preserves, e1]
    · exact e1
  have hm1c : m1c = beforeAnnotations o m := rfl
  let m1a := if o.annotations.any then removeAnnotations o.annotations m1c else m1c
  have e1a : run n m1a = run n m := by
    show run n (if o.annotations.any then removeAnnotations o.annotations m1c else m1c) = run n m
    split
    · rename_i ha
      rw [remove_annotations_preserves o.annotations n m1c (by rw [hm1c]; exact hN ha) (by rw [e1c]; exact hcore), e1c]
    · exact e1c
  let m2 := if o.removePass then travModule removePass m1a else m1a
  have e2 : run n m2 = run n m := by
    show run n (if o.removePass then travModule removePass m1a else m1a) = run n m
    split
    · rw [remove_pass_preserves, e1a]
    · exact e1a
  let m3 := if o.removeObjectBase then travModule removeObject m2 else m2
  have e3 : run n m3 = run n m := by
    show run n (if o.removeObjectBase then travModule removeObject m2 else m2) = run n m
    split
    · rw [remove_object_preserves, e2]
    · exact e2
  let m4 := if o.removeExplicitReturnNone then travModule removeReturnNone m3 else m3
  have e4 : run n m4 = run n m := by
    show run n (if o.removeExplicitReturnNone then travModule removeReturnNone m3 else m3) = run n m
    split
    · rw [return_none_preserves, e3]
    · exact e3
  let m5 := if o.constantFolding then foldModule t sp orc m4 else m4
  have e5 : run n m5 = run n m := by
    show run n (if o.constantFolding then foldModule t sp orc m4 else m4) = run n m
    split
    · rw [constant_folding_preserves t sp orc n m4 (by rw [e4]; exact hcore), e4]
    · exact e4
  let m6 := if o.removeExceptionBrackets then travModule (removeBrackets el) m5 else m5
  have e6 : run n m6 = run n m := by
    show run n (if o.removeExceptionBrackets then travModule (removeBrackets el) m5 else m5) = run n m
    split
    · rw [exception_brackets_preserves, e5]
    · exact e5
  have e7 : run n (if o.convertPosargs then removePosargs m6 else m6) = run n m := by
    split
    · rw [convert_posargs_preserves n m6 (by rw [e6]; exact hcore), e6]
    · exact e6
  have hT : transformM t sp orc el o m = (if o.convertPosargs then removePosargs m6 else m6) := by
    simp only [transformM, h3, h4, Bool.false_eq_true, if_false, m6, m5, m4, m3, m2, m1a, m1c, m1]
  rw [hT]
  exact e7

/-! the same transforms under `python -O` semantics -/

theorem remove_pass_preserves_under_O (n : Nat) (m : Module) : runO n (travModule removePass m) = runO n m :=
  runO_trav removePass removePass_sound removePass_table n m (stable_of_bindOK _ removePass_bindOK _)

theorem remove_literals_preserves_under_O (n : Nat) (m : Module) : runO n (removeLiteralStatements m) = runO n m := by
  unfold removeLiteralStatements
  split
  · rfl
  · exact runO_trav (dropT isLiteralStmt) (dropT_sound _ isLiteral_noop) (dropT_table (o := true) _ isLiteral_noop) n m
      (stable_of_bindOK _ (dropT_bindOK _ isLiteral_binds) _)

theorem return_none_preserves_under_O (n : Nat) (m : Module) : runO n (travModule removeReturnNone m) = runO n m :=
  runO_trav removeReturnNone returnNone_sound returnNone_table n m (stable_of_bindOK _ returnNone_bindOK _)

theorem exception_brackets_preserves_under_O (el : List String) (n : Nat) (m : Module) :
    runO n (travModule (removeBrackets el) m) = runO n m :=
  runO_trav _ (brackets_sound el) (brackets_table el) n m (stable_of_bindOK _ (brackets_bindOK el) _)

theorem remove_object_preserves_under_O (n : Nat) (m : Module) : runO n (travModule removeObject m) = runO n m :=
  runO_trav _ object_sound object_table n m (stable_of_bindOK _ object_bindOK _)

/-! The hypothesis of T01.10 cannot be dropped: a removed `if __debug__:` block that holds the only binding of a name
    changes which scope the name belongs to, and with it the behaviour under `-O` (finding F38; the same program
    replayed on CPython behaves as the model says). -/

/-- `x = 5` / `def f(): (if __debug__: x = 1); print(x)` / `f()` -/
def scopingWitness : Module := ⟨[
  .assign [.name "x" .store] (.constant (.int 5)),
  .functionDef false "f" (.mk [] [] none [] [] none []) [
    .if_ (.name "__debug__" .load) [.assign [.name "x" .store] (.constant (.int 1))] [],
    .expr (.call (.name "print" .load) [.name "x" .load] [])] [] none [],
  .expr (.call (.name "f" .load) [] [])]⟩

set_option linter.unusedSimpArgs false in
theorem witness_original_under_O : (runO 3 scopingWitness).ending = "raised:UnboundLocalError" := by
  simp [runO, scopingWitness, collect, defOf, paramNames, execL, exec1, callOf, simpleExec, isAssertStmt, assignTarget, evalThen, evalE,
    St.init, St.assign, Env.set, Env.get, callFn, evalArgs, List.lookup, bindTop, bindS, oguard, oapp, coreE, coreX, bindL, declaredGlobals, globalsOf,
    condE, isDbgName, debugCmp, debugSense, isDebugTest, Val.truthy, exprStmt, isConst, printArgs, St.lookup, St.unbound, St.isLocal, asCall, observe, canonNames, insertName, isPlainDef, argPlain]

set_option linter.unusedSimpArgs false in
theorem witness_minified_under_O : (runO 3 (travModule removeDebug scopingWitness)).ending = "normal" := by
  simp [runO, scopingWitness, travModule, travBody, travStmt, removeDebug, guardT, dropGuard, isStrStmt, filterSuite, canRemoveDebug, isDebugName, zeroStmt,
    collect, defOf, paramNames, execL, exec1, callOf, simpleExec, isAssertStmt, assignTarget, evalThen, evalE,
    St.init, St.assign, Env.set, Env.get, callFn, evalArgs, List.lookup, bindTop, bindS, oguard, oapp, coreE, coreX, bindL, declaredGlobals, globalsOf,
    condE, isDbgName, debugCmp, debugSense, isDebugTest, Val.truthy, exprStmt, isConst, printArgs, St.lookup, St.unbound, St.isLocal, asCall, observe, canonNames, insertName, isPlainDef, argPlain]

/-- T01.10′ (negative): without the side condition remove_debug does not preserve the behaviour under `-O` -/
theorem remove_debug_changes_scoping :
    ∃ (n : Nat) (m : Module), runO n (travModule removeDebug m) ≠ runO n m ∧ scopeStable removeDebug m = false := by
  refine ⟨3, scopingWitness, ?_, by decide⟩
  intro h
  have h1 := witness_original_under_O
  have h2 := witness_minified_under_O
  rw [h, h1] at h2
  exact absurd h2 (by decide)

/-- … and the side condition is satisfiable: a module whose `if __debug__` block binds nothing -/
example : scopeStable removeDebug ⟨[
    .functionDef false "f" (.mk [] [] none [] [] none []) [
      .if_ (.name "__debug__" .load) [.expr (.call (.name "print" .load) [.constant (.int 1)] [])] [],
      .return_ none] [] none []]⟩ = true := by decide

/-- the module that reaches remove_asserts in the pipeline (annotation removal off) -/
def beforeAsserts (o : Opts) (m : Module) : Module :=
  let m := if o.removeLiteralStatements then removeLiteralStatements m else m
  let m := if o.combineImports then travModule combineImports m else m
  let m := if o.annotations.any then removeAnnotations o.annotations m else m
  let m := if o.removePass then travModule removePass m else m
  if o.removeObjectBase then travModule removeObject m else m

/-- the module that reaches remove_debug -/
def beforeDebug (o : Opts) (m : Module) : Module :=
  let m := beforeAsserts o m
  if o.removeAsserts then travModule removeAsserts m else m

/-- T01.11: under `python -O` semantics the *whole* modelled transform pipeline except annotation
    removal — ten transforms, including remove_asserts, remove_debug and combine_imports — refines the observable
    behaviour, provided the statements that remove_asserts / remove_debug take out bind no function-local name
    (`scopeStable` of the module that reaches them; see T01.10). -/
theorem pipeline_partial_under_O (t : Printer.PrecTable) (sp : Token.Spacing) (orc : Fold.Oracle) (el : List String)
    (o : Opts) (n : Nat) (m : Module)
    (hN : o.annotations.any = true → (defNames (beforeAnnotations o m).body).Nodup)
    (hA : o.removeAsserts = true → scopeStable removeAsserts (beforeAsserts o m) = true)
    (hD : o.removeDebug = true → scopeStable removeDebug (beforeDebug o m) = true)
    (hcore : (runO n m).ending ≠ "stuck") :
    runO n (transformM t sp orc el o m) = runO n m := by
  let m1 := if o.removeLiteralStatements then removeLiteralStatements m else m
  have e1 : runO n m1 = runO n m := by
    show runO n (if o.removeLiteralStatements then removeLiteralStatements m else m) = runO n m
    split
    · exact remove_literals_preserves_under_O n m
    · rfl
  let m1c := if o.combineImports then travModule combineImports m1 else m1
  have e1c : runO n m1c = runO n m := by
    show runO n (if o.combineImports then travModule combineImports m1 else m1) = runO n m
    split
    · rw [combine_imports_preserves_under_O, e1]
    · exact e1
  have hm1c : m1c = beforeAnnotations o m := rfl
  let m1a := if o.annotations.any then removeAnnotations o.annotations m1c else m1c
  have e1a : runO n m1a = runO n m := by
    show runO n (if o.annotations.any then removeAnnotations o.annotations m1c else m1c) = runO n m
    split
    · rename_i ha
      rw [runO_removeAnnotations o.annotations n m1c (by rw [hm1c]; exact hN ha) (by rw [e1c]; exact hcore), e1c]
    · exact e1c
  let m2 := if o.removePass then travModule removePass m1a else m1a
  have e2 : runO n m2 = runO n m := by
    show runO n (if o.removePass then travModule removePass m1a else m1a) = runO n m
    split
    · rw [remove_pass_preserves_under_O, e1a]
    · exact e1a
  let m3 := if o.removeObjectBase then travModule removeObject m2 else m2
  have e3 : runO n m3 = runO n m := by
    show runO n (if o.removeObjectBase then travModule removeObject m2 else m2) = runO n m
    split
    · rw [remove_object_preserves_under_O, e2]
    · exact e2
  have hm3 : m3 = beforeAsserts o m := rfl
  let m4 := if o.removeAsserts then travModule removeAsserts m3 else m3
  have e4 : runO n m4 = runO n m := by
    show runO n (if o.removeAsserts then travModule removeAsserts m3 else m3) = runO n m
    split
    · rename_i ha
      rw [remove_asserts_preserves_under_O n m3 (by rw [hm3]; exact hA ha), e3]
    · exact e3
  have hm4 : m4 = beforeDebug o m := rfl
  let m5 := if o.removeDebug then travModule removeDebug m4 else m4
  have e5 : runO n m5 = runO n m := by
    show runO n (if o.removeDebug then travModule removeDebug m4 else m4) = runO n m
    split
    · rename_i hd
      rw [remove_debug_preserves_under_O n m4 (by rw [hm4]; exact hD hd), e4]
    · exact e4
  let m6 := if o.removeExplicitReturnNone then travModule removeReturnNone m5 else m5
  have e6 : runO n m6 = runO n m := by
    show runO n (if o.removeExplicitReturnNone then travModule removeReturnNone m5 else m5) = runO n m
    split
    · rw [return_none_preserves_under_O, e5]
    · exact e5
  let m7 := if o.constantFolding then foldModule t sp orc m6 else m6
  have e7 : runO n m7 = runO n m := by
    show runO n (if o.constantFolding then foldModule t sp orc m6 else m6) = runO n m
    split
    · rw [show runO n (foldModule t sp orc m6) = runO n m6 from
        runO_map (foldMap t sp orc) (fold_exprOK t sp orc) n m6 (by rw [e6]; exact hcore), e6]
    · exact e6
  let m8 := if o.removeExceptionBrackets then travModule (removeBrackets el) m7 else m7
  have e8 : runO n m8 = runO n m := by
    show runO n (if o.removeExceptionBrackets then travModule (removeBrackets el) m7 else m7) = runO n m
    split
    · rw [exception_brackets_preserves_under_O, e7]
    · exact e7
  have e9 : runO n (if o.convertPosargs then removePosargs m8 else m8) = runO n m := by
    split
    · rw [show runO n (removePosargs m8) = runO n m8 from runO_map posMap pos_exprOK n m8 (by rw [e8]; exact hcore), e8]
    · exact e8
  have hT : transformM t sp orc el o m = (if o.convertPosargs then removePosargs m8 else m8) := by
    simp only [transformM, m8, m7, m6, m5, m4, m3, m2, m1a, m1c, m1]
  rw [hT]
  exact e9


/-- T01.13: renaming the local names of functions preserves the behaviour of every module, for every fuel: printed lines,
    ending, final globals and import events are the same.  `R` gives each module-level function its renaming and the
    parameters that are copied (`new = parameter` after the docstring); `modOK` is decidable and is evaluated by the
    check on the renaming read off the real minifier's output. -/
theorem local_renaming_preserves (R : RenTable) (m : Module) (h : modOK R m = true) (n : Nat) :
    run n (renModule R m) = run n m := run_renModule R m h n

theorem local_renaming_preserves_under_O (R : RenTable) (m : Module) (h : modOK R m = true) (n : Nat) :
    runO n (renModule R m) = runO n m := runO_renModule R m h n

/-- the default pipeline followed by the renaming of locals — `minify()` without literal hoisting and annotation removal —
    refines the behaviour of every module that stays inside the core -/
theorem pipeline_then_renaming (t : Printer.PrecTable) (sp : Token.Spacing) (orc : Fold.Oracle) (el : List String)
    (o : Opts) (ho : CoreOnly o) (R : RenTable) (n : Nat) (m : Module)
    (hN : o.annotations.any = true → (defNames (beforeAnnotations o m).body).Nodup)
    (hR : modOK R (transformM t sp orc el o m) = true) (hcore : (run n m).ending ≠ "stuck") :
    run n (renModule R (transformM t sp orc el o m)) = run n m := by
  rw [local_renaming_preserves R _ hR n]
  exact pipeline_partial t sp orc el o ho n m hN hcore

/-! non-vacuity: `def f(a): b = a + 1; print(b); return b` / `print(f(1))` with `a ↦ A` (copied), `b ↦ B` satisfies the
    condition; mapping `b` onto the parameter `a` does not. -/

def renamingWitness : Module := ⟨[
  .functionDef false "f" (.mk [] [.mk "a" none] none [] [] none []) [
    .assign [.name "b" .store] (.binOp (.name "a" .load) .add (.constant (.int 1))),
    .expr (.call (.name "print" .load) [.name "b" .load] []),
    .return_ (some (.name "b" .load))] [] none [],
  .assign [.name "r" .store] (.call (.name "f" .load) [.constant (.int 1)] [])]⟩

def goodRenaming : RenTable := fun _ => (fun x => if x == "a" then "A" else if x == "b" then "B" else x, ["a"])
def badRenaming : RenTable := fun _ => (fun x => if x == "b" then "a" else x, [])

example : modOK goodRenaming renamingWitness = true := by decide
example : modOK badRenaming renamingWitness = false := by decide


/-- T01.14: hoisting repeated literals preserves the behaviour of every module, for every fuel: printed lines, ending
    and import events are the same, and every global that is not one of the new names has the same final value.
    `w` says which constants go where (`PMV.HoistAst`); `hoistOK` is decidable and is evaluated by the check on the
    witness read off the real minifier's output. -/
theorem hoisting_preserves (w : HoistW) (m : Module) (h : hoistOK w m = true) (n : Nat) :
    ObsEq (gnames w.gmod) (run n (hoistModule w m)) (run n m) := run_hoistModule w m h n

/-- T01.15: `minify()` with its default options on the core — the statement-level transforms (annotation removal included) and constant folding, then
    the renaming of function locals, then the hoisting of literals — refines the behaviour of every module that stays
    inside the core, up to the global names introduced for hoisted literals. -/
theorem minify_core_preserves (t : Printer.PrecTable) (sp : Token.Spacing) (orc : Fold.Oracle) (el : List String)
    (o : Opts) (ho : CoreOnly o) (R : RenTable) (w : HoistW) (n : Nat) (m : Module)
    (hN : o.annotations.any = true → (defNames (beforeAnnotations o m).body).Nodup)
    (hR : modOK R (transformM t sp orc el o m) = true)
    (hW : hoistOK w (renModule R (transformM t sp orc el o m)) = true)
    (hcore : (run n m).ending ≠ "stuck") :
    ObsEq (gnames w.gmod) (run n (hoistModule w (renModule R (transformM t sp orc el o m)))) (run n m) := by
  have h1 := hoisting_preserves w _ hW n
  rw [pipeline_then_renaming t sp orc el o ho R n m hN hR hcore] at h1
  exact h1

theorem hoisting_preserves_under_O (w : HoistW) (m : Module) (h : hoistOK w m = true) (n : Nat) :
    ObsEq (gnames w.gmod) (runO n (hoistModule w m)) (runO n m) := runO_hoistModule w m h n

/-- T01.16: the same chain under `python -O` semantics, now with remove_asserts and remove_debug in the pipeline (every
    transform of the pipeline), then renaming, then hoisting -/
theorem minify_core_preserves_under_O (t : Printer.PrecTable) (sp : Token.Spacing) (orc : Fold.Oracle) (el : List String)
    (o : Opts) (R : RenTable) (w : HoistW) (n : Nat) (m : Module)
    (hN : o.annotations.any = true → (defNames (beforeAnnotations o m).body).Nodup)
    (hA : o.removeAsserts = true → scopeStable removeAsserts (beforeAsserts o m) = true)
    (hD : o.removeDebug = true → scopeStable removeDebug (beforeDebug o m) = true)
    (hR : modOK R (transformM t sp orc el o m) = true)
    (hW : hoistOK w (renModule R (transformM t sp orc el o m)) = true)
    (hcore : (runO n m).ending ≠ "stuck") :
    ObsEq (gnames w.gmod) (runO n (hoistModule w (renModule R (transformM t sp orc el o m)))) (runO n m) := by
  have h1 := hoisting_preserves_under_O w _ hW n
  rw [local_renaming_preserves_under_O R _ hR n, pipeline_partial_under_O t sp orc el o n m hN hA hD hcore] at h1
  exact h1

/-! non-vacuity: `def f(a): print('lit', 'lit', a); return None` / `print('lit')` / `r = f(None)` with the string held by a
    module-level name and `None` by a local of `f` satisfies the condition; a name that the program already uses does not. -/

def hoistWitnessModule : Module := ⟨[
  .functionDef false "f" (.mk [] [.mk "a" none] none [] [] none []) [
    .expr (.call (.name "print" .load) [.constant (.str "'lit'" [108, 105, 116]), .constant (.str "'lit'" [108, 105, 116]), .name "a" .load] []),
    .return_ (some (.constant .none))] [] none [],
  .expr (.call (.name "print" .load) [.constant (.str "'lit'" [108, 105, 116])] []),
  .assign [.name "r" .store] (.call (.name "f" .load) [.constant .none] [])]⟩

def goodHoist : HoistW :=
  { proMod := [.ghost (.str "'lit'" [108, 105, 116]) "_A"], proFn := fun _ => [.ghost .none "A"] }
def badHoist : HoistW :=
  { proMod := [.ghost (.str "'lit'" [108, 105, 116]) "r"], proFn := fun _ => [] }

example : hoistOK goodHoist hoistWitnessModule = true := by decide
example : hoistOK badHoist hoistWitnessModule = false := by decide

end PMV.C01

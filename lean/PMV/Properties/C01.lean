import PMV.Proofs.PyCore
/-
  C01 — With the default options a minified program behaves like the original.
  `Spec.PyCore` gives a first-order core of Python (ints, bools, strings, None; assignment, `if`,
  `while`/`else`, `break`/`continue`, `print`, `assert`, `raise`, `global`, calls of module-level
  functions) a fuel-indexed definitional semantics whose observable is exactly what C01 names:
  the printed lines, how the run ends (normally / which exception), and the final globals.
  Proved, for every module, every nesting depth, through loops and calls, and for every fuel:
  the statement-level default transforms that are meant to be behaviour-neutral — remove_pass,
  remove_literal_statements (with its `__doc__` guard), remove_explicit_return_none,
  remove_exception_brackets, remove_object_base — and any pipeline of them leave the observable
  unchanged.  Partial: constant folding, renaming, hoisting, import combining, annotation removal
  and positional-only conversion are decided by the differential-execution oracle on the real code
  and by the per-transform theorems of C02–C07/C09/C10, not by a PyCore theorem.
-/
namespace PMV.C01
open PMV PMV.Transforms PMV.PyCore PMV.Minify

/-- T01.1 -/
theorem remove_pass_preserves (n : Nat) (m : Module) : run n (travModule removePass m) = run n m :=
  run_trav (dropT isPass) (dropT_sound isPass isPass_noop) (dropT_table isPass isPass_noop) n m

/-- T01.2 (including the guard that leaves the module alone when it mentions `__doc__`) -/
theorem remove_literals_preserves (n : Nat) (m : Module) : run n (removeLiteralStatements m) = run n m := by
  unfold removeLiteralStatements
  split
  · rfl
  · exact run_trav (dropT isLiteralStmt) (dropT_sound _ isLiteral_noop) (dropT_table _ isLiteral_noop) n m

/-- T01.3 -/
theorem return_none_preserves (n : Nat) (m : Module) : run n (travModule removeReturnNone m) = run n m :=
  run_trav removeReturnNone returnNone_sound returnNone_table n m

/-- T01.4 -/
theorem exception_brackets_preserves (el : List String) (n : Nat) (m : Module) :
    run n (travModule (removeBrackets el) m) = run n m :=
  run_trav _ (brackets_sound el) (brackets_table el) n m

/-- T01.5 -/
theorem remove_object_preserves (n : Nat) (m : Module) : run n (travModule removeObject m) = run n m :=
  run_trav _ object_sound object_table n m

/-- the switches whose transform is not covered by a PyCore theorem are off -/
def CoreOnly (o : Opts) : Prop :=
  o.combineImports = false ∧ o.annotations.any = false ∧ o.removeAsserts = false ∧ o.removeDebug = false ∧
  o.constantFolding = false ∧ o.convertPosargs = false

/-- T01.6: the modelled transform pipeline, restricted to the behaviour-neutral statement transforms
    (any subset of them, in pipeline order), preserves the observable behaviour. -/
theorem pipeline_partial (t : Printer.PrecTable) (sp : Token.Spacing) (orc : Fold.Oracle) (el : List String)
    (o : Opts) (ho : CoreOnly o) (n : Nat) (m : Module) :
    run n (transformM t sp orc el o m) = run n m := by
  obtain ⟨h1, h2, h3, h4, h5, h6⟩ := ho
  unfold transformM
  simp only [h1, h2, h3, h4, h5, h6, Bool.false_eq_true, if_false]
  cases o.removeExceptionBrackets <;> cases o.removeExplicitReturnNone <;> cases o.removeObjectBase <;>
    cases o.removePass <;> cases o.removeLiteralStatements <;>
    simp only [if_true, Bool.false_eq_true, if_false, exception_brackets_preserves, return_none_preserves,
      remove_object_preserves, remove_pass_preserves, remove_literals_preserves]

end PMV.C01

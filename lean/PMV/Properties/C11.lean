import PMV.Generated.Pipeline
import PMV.Generated.Names
import PMV.Model.Pipeline
import PMV.Proofs.RenameOrder
/-
  C11 — Output depends only on source, options and interpreter version.
  Proved on the assigner model: every collection that is a `set` in the implementation (reservation
  scopes, assigned names, the preserved names) is used through membership only, so no iteration order
  (hence no hash seed) can influence which names are chosen.  The generated pipeline table shows that
  `minify()` extends fresh lists / copies, never the caller's list objects.  Process-level facts
  (fresh interpreters under different PYTHONHASHSEED, call histories with reused argument objects,
  concurrent threads) are decided by the harness on the real code; thread schedules are sampled.
-/
namespace PMV.C11
open PMV.Rename

/-- T11.1a: availability and reservation depend on a reservation scope only as a set. -/
theorem scope_order_irrelevant (a : Assigned) (n : String) (sc sc' : List Ns) (h : ∀ ns, ns ∈ sc ↔ ns ∈ sc') :
    avail a n sc = avail a n sc' ∧ reserve n sc a = reserve n sc' a :=
  ⟨avail_scope_congr a n h, reserve_scope_congr n h a⟩

/-- T11.1b: the loop depends on the assigned-names sets only as sets. -/
theorem assigned_order_irrelevant (pg : Bool) (bs : List Binding) (a a' : Assigned) (h : AssignedEquiv a a') :
    loop Generated.nameSeq pg a bs = loop Generated.nameSeq pg a' bs :=
  loop_congr _ pg bs a a' h

/-- T11.1c: listing the preserved globals in another order (they come from a set) gives the same names. -/
theorem preserved_order_irrelevant (pg : Bool) (moduleNs : Ns) (rg rg' : List String) (h : ∀ x, x ∈ rg ↔ x ∈ rg')
    (bindings : List Binding) :
    assign Generated.nameSeq pg moduleNs rg bindings = assign Generated.nameSeq pg moduleNs rg' bindings :=
  assign_preserved_order_irrelevant _ pg moduleNs rg rg' h bindings

/-- G11.2: the generated top level of `minify()` copies a caller-supplied list before extending it
    (`preserve_locals = list(preserve_locals)`), wraps a string, and starts from a fresh list for `None`. -/
theorem caller_lists_copied :
    Generated.pipeline = Pipeline.modelled
    ∧ ("preserve_locals is None", Pipeline.preserveLocalsBlock) ∈ Pipeline.modelled
    ∧ ("preserve_globals is None", Pipeline.preserveGlobalsBlock) ∈ Pipeline.modelled := by decide +kernel

example : AssignedEquiv (fun _ => ["A", "B"]) (fun _ => ["B", "A", "A"]) := by
  intro ns x
  simp only [List.mem_cons, List.mem_nil_iff, or_false]
  constructor
  · rintro (h | h)
    · exact Or.inr (Or.inl h)
    · exact Or.inl h
  · rintro (h | h | h)
    · exact Or.inr h
    · exact Or.inl h
    · exact Or.inl h

end PMV.C11

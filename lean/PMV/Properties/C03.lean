import PMV.Generated.Names
import PMV.Proofs.Rename
import PMV.Proofs.RenameResolve
import PMV.Proofs.Resolve
import PMV.Proofs.ResolveRename
import PMV.Proofs.ResolveCover
/-
  C03 — Renaming preserves which binding every name refers to.
  Proved here (on the model of NameAssigner over abstract bindings, tied to the code by feeding the
  model the binding structures of the real scope analysis and comparing the chosen names):
    * the assigner never introduces a clash between bindings whose reservation scopes intersect;
    * new names come from the generator table, which contains no keyword and no builtin name;
    * pinned bindings keep their names.
  Proved on the model of `resolve_names.get_binding` / `util.get_nonlocal_namespace` over the dumped namespace tree (kind,
  parent, bindings, global and nonlocal declarations of every namespace; the correspondence stage asks both for every
  name use of every program): the binding that answers a use is the first one on Python's lookup path, and no class body
  other than the one the use is in is ever consulted (T03.3).
  Not proved: that the scope analysis puts every namespace on that path into the reservation scope (hypothesis `cover` of
  T03.4) — checked on the real binding structures against the independent scoping specification, and by the
  alpha-equivalence oracle.
-/
namespace PMV.C03
open PMV.Rename

/-- G03.2: the generator table (first 700 names of the running `name_filter()`) contains no keyword or
    builtin, also not with the `_` prefix used for module-level names. -/
theorem names_not_reserved :
    (Generated.nameSeq.all fun n => !Generated.reservedWords.contains n && !Generated.reservedWords.contains ("_" ++ n)) = true := by
  decide +kernel

/-- the table has no repetitions among its first names and starts with the 52 letters. -/
theorem names_start : Generated.nameSeq.take 4 = ["A", "B", "C", "D"] ∧ Generated.nameSeq.length = 700 := by
  decide +kernel

/-- T03.1: for every input (any bindings, scopes, reservations), two results whose reservation scopes
    share a namespace have different final names whenever one of them was renamed. -/
theorem no_new_clash (pg : Bool) (moduleNs : Ns) (rg : List String) (bindings : List Binding)
    (hwf : ∀ b ∈ bindings, WFB b = true) :
    (assign Generated.nameSeq pg moduleNs rg bindings).Pairwise (fun r1 r2 =>
      (r1.renamed = true ∨ r2.renamed = true) → r1.exhausted = false → r2.exhausted = false →
      (∃ ns, ns ∈ r1.b.scope ∧ ns ∈ r2.b.scope) → r1.final.isSome → r1.final ≠ r2.final) :=
  assign_no_new_clash _ pg moduleNs rg bindings hwf

/-- T03.2a: a renamed binding receives a name of the table (so: not a keyword, not a builtin). -/
theorem new_names_from_table (pg : Bool) (moduleNs : Ns) (rg : List String) (bindings : List Binding) (r : Result)
    (h : r ∈ assign Generated.nameSeq pg moduleNs rg bindings) (hr : r.renamed = true) :
    ∃ m ∈ Generated.nameSeq, r.final = some (pfxOf r.b pg ++ m) :=
  renamed_from_table _ pg _ _ r h hr

/-- T04.2 (used by C04/C09/C10): a binding that may not be renamed keeps its name. -/
theorem pinned_never_renamed (pg : Bool) (moduleNs : Ns) (rg : List String) (bindings : List Binding) (r : Result)
    (h : r ∈ assign Generated.nameSeq pg moduleNs rg bindings) (hp : r.b.allow = false) :
    r.final = r.b.name ∧ r.renamed = false :=
  pinned_kept _ pg _ _ r h hp

/-- T03.4: from the assigner's guarantee to name resolution.  Python resolves a name to the first scope on the
    use's lookup path that binds it.  If the reservation scope of the binding a use resolves to covers the lookup
    path below the binding's home (`cover`: checked on the real binding structures, against the independent
    scoping specification, for every program of every run), final names never clash inside intersecting
    reservation scopes when one of them is new (`clash`: this is `no_new_clash`), and kept bindings keep their
    spelling (`kept`: `pinned_never_renamed`), then after renaming the use resolves to the same scope: no binding
    on the way captures it, and its own binding still answers.  (`clash` speaks about bindings homed in another scope than
    `r`: an earlier version of this statement did not exclude `r' = r`, which no renamed `r` can satisfy.) -/
theorem renaming_preserves_resolution (rs : List Result) (path : List Ns) (r : Result) (x : String)
    (hr : r ∈ rs) (hname : r.b.name = some x) (y : String) (hfin : r.final = some y)
    (horig : resolveOrig rs path x = some r.b.home)
    (cover : ∀ a ∈ path.takeWhile (fun a => !bindsOrig rs a x), a ∈ r.b.scope)
    (clash : ∀ r' ∈ rs, r'.b.home ≠ r.b.home → (r.renamed = true ∨ r'.renamed = true) → (∃ ns, ns ∈ r.b.scope ∧ ns ∈ r'.b.scope) → r'.final ≠ r.final)
    (kept : ∀ r' ∈ rs, r'.renamed = false → r'.final = r'.b.name)
    (homeIn : ∀ r' ∈ rs, r'.b.home ∈ r'.b.scope) :
    resolveFinal rs path y = some r.b.home :=
  PMV.Rename.renaming_preserves_resolution rs path r x hr hname y hfin horig cover clash kept homeIn

/-- every binding's home namespace is in its reservation scope (hypothesis `homeIn` above, unconditionally) -/
theorem home_in_scope (b : Binding) : b.home ∈ b.scope := by
  unfold Binding.scope
  rw [List.mem_eraseDups]
  exact List.mem_cons_self

-- Non-vacuity of T03.4: module (0) binds `value`, function (1) binds `local_one`, a use of `value` in the function
-- has lookup path [1, 0]; `value` is renamed to "A" and `local_one` to "B": the use still resolves to scope 0.
example :
    let gv : Binding := ⟨0, .name, some "value", 0, true, none, 0, true, [], [⟨.name, []⟩, ⟨.name, [1, 0]⟩]⟩
    let lv : Binding := ⟨1, .name, some "local_one", 0, true, none, 1, false, [], [⟨.name, []⟩, ⟨.name, []⟩]⟩
    let rs : List Result := [⟨gv, some "A", true, false⟩, ⟨lv, some "B", true, false⟩]
    resolveOrig rs [1, 0] "value" = some 0 ∧ resolveFinal rs [1, 0] "A" = some 0 ∧ resolveFinal rs [1, 0] "B" = some 1 := by
  decide +kernel

/-- T03.5 (PEP 709): a name bound in a list/set/dict comprehension is reserved in every namespace out to the
    function that contains the comprehension, so together with `no_new_clash` it never receives the final
    name of a binding referenced in (or through) that function. -/
theorem comprehension_names_reserved_in_enclosing (b : Binding) (ns : Ns) (h : ns ∈ b.enclosing) : ns ∈ b.scope := by
  unfold Binding.scope
  rw [List.mem_eraseDups]
  exact List.mem_cons_of_mem _ (List.mem_append_left _ h)

/-! ### T03.3: which binding answers a use (model of `get_binding`) -/

/-- T03.3a: for every namespace tree, name and namespace, `get_binding` answers with the first scope on Python's lookup path
    that binds the name: the scope itself unless it declares the name `global` (then the module alone) or `nonlocal` (then
    it is skipped), then the enclosing scopes that are not class bodies, the module last; `none` means the module does not
    bind it either (a builtin or an unresolved name, which is never renamed). -/
theorem get_binding_is_python_lookup (t : Resolve.Tree) (x : String) (fuel n : Nat) :
    Resolve.getBinding t x fuel n = (Resolve.lookupPath t x fuel n).find? fun a => (Resolve.info t a).bindings.contains x :=
  Resolve.getBinding_spec t x fuel n

/-- T03.3b: apart from the scope the use itself is in, no class body is consulted: a name bound in a class body is not
    visible from the functions, lambdas and comprehensions nested in it, so it never captures their uses. -/
theorem class_bodies_skipped (t : Resolve.Tree) (h : Resolve.WFTree t) (x : String) (fuel n : Nat) (hn : n ≤ t.length) :
    ∀ a ∈ (Resolve.lookupPath t x fuel n).drop 1, (Resolve.info t a).kind ≠ .class_ :=
  Resolve.lookupPath_skips_classes t h x fuel n hn

/-- the namespace `get_nonlocal_namespace` returns is never a class body -/
theorem nonlocal_namespace_not_class (t : Resolve.Tree) (h : Resolve.WFTree t) (n : Nat) (hn : n ≤ t.length) :
    (Resolve.info t (Resolve.nonlocalNs t t.length n)).kind ≠ .class_ :=
  Resolve.nonlocalNs_not_class t h t.length n hn

/-- T03.6 (T03.3 and T03.4 together): let `t'` be the namespace tree after renaming (same shape; scopes bind what the results
    `rs` say; `global` / `nonlocal` declarations of `x` now declare `y`).  A use of `x` in namespace `n` that `get_binding`
    resolves to the binding `r` is found, under its new spelling `y` and by the same lookup on the renamed tree, in the same
    scope — provided the reservation scope of `r` covers the lookup path below its home (`cover`), final names never clash
    inside intersecting reservation scopes when one of the two is new (`clash`: what `no_new_clash` gives for two different
    bindings) and kept bindings keep their spelling (`kept`: `pinned_never_renamed`). -/
theorem lookup_after_renaming (t t' : Resolve.Tree) (rs : List Result) (r : Result) (x y : String) (fuel n : Nat)
    (h : Resolve.RenamedFor t t' rs x y)
    (hr : r ∈ rs) (hname : r.b.name = some x) (hfin : r.final = some y)
    (horig : Resolve.getBinding t x fuel n = some r.b.home)
    (cover : ∀ a ∈ (Resolve.lookupPath t x fuel n).takeWhile (fun a => !bindsOrig rs a x), a ∈ r.b.scope)
    (clash : ∀ r' ∈ rs, r'.b.home ≠ r.b.home → (r.renamed = true ∨ r'.renamed = true) → (∃ ns, ns ∈ r.b.scope ∧ ns ∈ r'.b.scope) → r'.final ≠ r.final)
    (kept : ∀ r' ∈ rs, r'.renamed = false → r'.final = r'.b.name)
    (homeIn : ∀ r' ∈ rs, r'.b.home ∈ r'.b.scope) :
    Resolve.getBinding t' y fuel n = Resolve.getBinding t x fuel n :=
  Resolve.lookup_after_renaming t t' rs r x y fuel n h hr hname hfin horig cover clash kept homeIn

/-- T03.7: `renamer.reservation_scope` adds, for every reference, each namespace on the parent chain from the reference's namespace
    up to the binding's home.  In a well-formed namespace tree that covers the lookup path below the home — Python's lookup path is
    a strictly descending part of that parent chain — which is the hypothesis `cover` of T03.4 / T03.6. -/
theorem cover_from_reservation_chains (t t' : Resolve.Tree) (hw : Resolve.WFTree t) (rs : List Result) (x y : String)
    (h : Resolve.RenamedFor t t' rs x y) (scope : List Ns) (fuel n home : Nat)
    (horig : Resolve.getBinding t x fuel n = some home)
    (chain : ∀ a, Resolve.Anc t a n → home < a → a ∈ scope) :
    ∀ a ∈ (Resolve.lookupPath t x fuel n).takeWhile (fun a => !bindsOrig rs a x), a ∈ scope :=
  Resolve.cover_of_parent_chain t t' hw rs x y h scope fuel n home horig chain

/-- T03.6 with `cover` replaced by what `reservation_scope` provides (T03.7). -/
theorem lookup_after_renaming_of_chains (t t' : Resolve.Tree) (hw : Resolve.WFTree t) (rs : List Result) (r : Result) (x y : String)
    (fuel n : Nat) (h : Resolve.RenamedFor t t' rs x y)
    (hr : r ∈ rs) (hname : r.b.name = some x) (hfin : r.final = some y)
    (horig : Resolve.getBinding t x fuel n = some r.b.home)
    (chain : ∀ a, Resolve.Anc t a n → r.b.home < a → a ∈ r.b.scope)
    (clash : ∀ r' ∈ rs, r'.b.home ≠ r.b.home → (r.renamed = true ∨ r'.renamed = true) → (∃ ns, ns ∈ r.b.scope ∧ ns ∈ r'.b.scope) → r'.final ≠ r.final)
    (kept : ∀ r' ∈ rs, r'.renamed = false → r'.final = r'.b.name)
    (homeIn : ∀ r' ∈ rs, r'.b.home ∈ r'.b.scope) :
    Resolve.getBinding t' y fuel n = Resolve.getBinding t x fuel n :=
  Resolve.lookup_after_renaming_of_chains t t' hw rs r x y fuel n h hr hname hfin horig chain clash kept homeIn

-- Non-vacuity of T03.7: `Resolve.exWF`, `Resolve.exChain` and `Resolve.exAppliesChains` instantiate both theorems on the example tree.
example : Resolve.WFTree Resolve.exT := Resolve.exWF

-- Non-vacuity of T03.6: every hypothesis holds for module {value ↦ A} / function {local_one ↦ B} with a read of `value` in the
-- function (`Resolve.exRenamed`, `Resolve.exApplies` instantiate the theorem), and the conclusion is what evaluation gives.
example : Resolve.getBinding Resolve.exT' "A" 4 1 = some 0 ∧ Resolve.getBinding Resolve.exT "value" 4 1 = some 0
    ∧ Resolve.RenamedFor Resolve.exT Resolve.exT' Resolve.exRs "value" "A" :=
  ⟨by decide, by decide, Resolve.exRenamed⟩

-- Non-vacuity: module (0) and class (1) both bind `value`; a method (2) of the class uses it: the module's binding answers,
-- in the class body itself the class's; a method that declares it `global` reaches the module, one nested in a function (3→4)
-- that declares it `nonlocal` reaches function 3.
example :
    let t : Resolve.Tree := [⟨.module, 0, ["value", "Holder", "outer"], [], []⟩, ⟨.class_, 0, ["value", "method"], [], []⟩,
      ⟨.function, 1, ["self"], [], []⟩, ⟨.function, 0, ["value", "inner"], [], []⟩, ⟨.function, 3, [], [], ["value"]⟩,
      ⟨.function, 1, [], ["value"], []⟩]
    Resolve.getBinding t "value" 8 2 = some 0 ∧ Resolve.getBinding t "value" 8 1 = some 1 ∧ Resolve.getBinding t "value" 8 4 = some 3
    ∧ Resolve.getBinding t "value" 8 5 = some 0 ∧ Resolve.getBinding t "print" 8 2 = none ∧ Resolve.lookupPath t "value" 8 2 = [2, 0] := by
  decide +kernel

-- Non-vacuity for T03.5: `outer` (home 0) is read through function 1 by a lambda (2); the comprehension variable
-- (home 3, enclosed by function 1) would be free to take "A" without the enclosing rule; with it, it gets "B".
example :
    let outer : Binding := ⟨0, .name, some "outer_value", 0, true, none, 0, false, [], [⟨.name, []⟩, ⟨.name, [2, 1, 0]⟩, ⟨.name, [2, 1, 0]⟩]⟩
    let comp : Binding := ⟨1, .name, some "loop_item", 0, true, none, 3, false, [1], [⟨.name, []⟩, ⟨.name, []⟩]⟩
    let compOld : Binding := ⟨1, .name, some "loop_item", 0, true, none, 3, false, [], [⟨.name, []⟩, ⟨.name, []⟩]⟩
    (loop Generated.nameSeq false (initial [outer, comp] 9 []) [outer, comp]).map (·.final) = [some "A", some "B"] ∧
    (loop Generated.nameSeq false (initial [outer, compOld] 9 []) [outer, compOld]).map (·.final) = [some "A", some "A"] := by
  decide +kernel

-- Non-vacuity: two bindings sharing namespace 0, one pinned to "A": the other one is renamed to "B".
example :
    let pinned : Binding := ⟨0, .name, some "A", 0, false, some "A", 0, true, [], [⟨.name, []⟩]⟩
    let free : Binding := ⟨1, .name, some "long_name", 0, true, none, 1, false, [], [⟨.name, [0]⟩, ⟨.name, []⟩, ⟨.name, []⟩]⟩
    (loop Generated.nameSeq false (initial [pinned, free] 0 []) [free, pinned]).map (·.final) = [some "B", some "A"]
    ∧ WFB pinned = true ∧ WFB free = true := by decide +kernel

end PMV.C03

import PMV.Generated.Names
import PMV.Proofs.Rename
import PMV.Proofs.InPlace
/-
  C04 — Externally visible names are never changed.
  On the NameAssigner model: pinned bindings (class-level names, dunder names, never-bound names,
  keyword-passable parameters, everything at module level unless rename_globals) keep their names;
  names added at module level carry the `_` prefix when rename_globals is off.  Which bindings the
  binder pins, and which AST fields `Binding.rename` writes, are decided by the oracle on the real code.
-/
namespace PMV.C04
open PMV.Rename

/-- T04.2: a pinned binding is never renamed (for every input of the assigner). -/
theorem pinned_never_renamed (pg : Bool) (moduleNs : Ns) (rg : List String) (bindings : List Binding) (r : Result)
    (h : r ∈ assign Generated.nameSeq pg moduleNs rg bindings) (hp : r.b.allow = false) :
    r.final = r.b.name ∧ r.renamed = false :=
  pinned_kept _ pg _ _ r h hp

/-- T04.4: with `prefix_globals` (i.e. rename_globals off) every new name given to a module-level binding
    (hoisted literal alias, builtin alias) starts with an underscore followed by a table name. -/
theorem module_names_prefixed (moduleNs : Ns) (rg : List String) (bindings : List Binding) (r : Result)
    (h : r ∈ assign Generated.nameSeq true moduleNs rg bindings) (hr : r.renamed = true) (hm : r.b.isModule = true) :
    ∃ m ∈ Generated.nameSeq, r.final = some ("_" ++ m) := by
  obtain ⟨m, hm', hf⟩ := renamed_from_table _ true _ _ r h hr
  refine ⟨m, hm', ?_⟩
  rw [hf]; simp [pfxOf, hm]

/-- without the prefix (rename_globals on, or a non-module binding) the new name is a table name itself -/
theorem other_names_unprefixed (pg : Bool) (moduleNs : Ns) (rg : List String) (bindings : List Binding) (r : Result)
    (h : r ∈ assign Generated.nameSeq pg moduleNs rg bindings) (hr : r.renamed = true) (hm : (r.b.isModule && pg) = false) :
    ∃ m ∈ Generated.nameSeq, r.final = some m := by
  obtain ⟨m, hm', hf⟩ := renamed_from_table _ pg _ _ r h hr
  refine ⟨m, hm', ?_⟩
  rw [hf]; simp [pfxOf, hm]

/-- T04.5: `arg_rename_in_place`, stated outright: a parameter is renamed in the signature exactly when it is positional-only,
    `*args`, `**kwargs`, or the first positional parameter of an undecorated / `@classmethod` function in a class body. -/
theorem in_place_exactly (f : InPlace.Fn) (s : InPlace.Slot) :
    InPlace.argRenameInPlace f s = true ↔
      ((∃ i, s = .posonly i) ∨ s = .vararg ∨ s = .kwarg ∨
        (InPlace.selfLike f = true ∧ f.nPosonly = 0 ∧ 0 < f.nArgs ∧ s = .arg 0)) :=
  InPlace.argRenameInPlace_iff f s

/-- T04.6: a parameter that a caller may pass by keyword keeps its spelling in the signature, unless it is the
    `self` / `cls` of a method (the documented exception). -/
theorem keyword_passable_in_place (f : InPlace.Fn) (s : InPlace.Slot) (hk : s.keywordPassable = true)
    (h : InPlace.argRenameInPlace f s = true) : InPlace.selfLike f = true ∧ s = .arg 0 ∧ f.nPosonly = 0 :=
  InPlace.keywordPassable_inPlace f s hk h

/-- T04.7: keyword-only parameters, positional parameters after the first, and every positional-or-keyword parameter
    of a lambda or of a function outside a class body are never renamed in the signature. -/
theorem never_in_place (f : InPlace.Fn) (i : Nat) :
    InPlace.argRenameInPlace f (.kwonly i) = false ∧ InPlace.argRenameInPlace f (.arg (i + 1)) = false ∧
    ((f.inClass = false ∨ f.isLambda = true) → InPlace.argRenameInPlace f (.arg i) = false) :=
  ⟨InPlace.kwonly_never_inPlace f i, InPlace.later_arg_never_inPlace f i, InPlace.function_arg_never_inPlace f i⟩

example : InPlace.argRenameInPlace ⟨false, true, [.name "classmethod" .load], 0, 2⟩ (.arg 0) = true ∧
    InPlace.argRenameInPlace ⟨false, true, [.name "staticmethod" .load], 0, 2⟩ (.arg 0) = false ∧
    InPlace.argRenameInPlace ⟨true, true, [], 0, 2⟩ (.arg 0) = false := by decide

example : pfxOf ⟨0, .builtin, some "print", 0, true, none, 0, true, [], []⟩ true = "_" := by decide

end PMV.C04

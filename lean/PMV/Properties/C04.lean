import PMV.Generated.Names
import PMV.Proofs.Rename
/-
  C04 — Externally visible names are never changed.
  On the NameAssigner model: pinned bindings (class-level names, dunder names, never-bound names,
  keyword-passable parameters, everything at module level unless rename_globals) keep their names;
  names added at module level carry the `_` prefix when rename_globals is off.  Which bindings the
  binder pins, and which AST fields `Binding.rename` writes, are decided by the oracle on the real code.
-/
namespace PMV.C04
open PMV.Rename

/-- T04.2: a pinned binding is never renamed (for every input of the assigner). -/
theorem pinned_never_renamed (pg : Bool) (moduleNs : Ns) (rg : List String) (bindings : List Binding) (r : Result)
    (h : r ∈ assign Generated.nameSeq pg moduleNs rg bindings) (hp : r.b.allow = false) :
    r.final = r.b.name ∧ r.renamed = false :=
  pinned_kept _ pg _ _ r h hp

/-- T04.4: with `prefix_globals` (i.e. rename_globals off) every new name given to a module-level binding
    (hoisted literal alias, builtin alias) starts with an underscore followed by a table name. -/
theorem module_names_prefixed (moduleNs : Ns) (rg : List String) (bindings : List Binding) (r : Result)
    (h : r ∈ assign Generated.nameSeq true moduleNs rg bindings) (hr : r.renamed = true) (hm : r.b.isModule = true) :
    ∃ m ∈ Generated.nameSeq, r.final = some ("_" ++ m) := by
  obtain ⟨m, hm', hf⟩ := renamed_from_table _ true _ _ r h hr
  refine ⟨m, hm', ?_⟩
  rw [hf]; simp [pfxOf, hm]

/-- without the prefix (rename_globals on, or a non-module binding) the new name is a table name itself -/
theorem other_names_unprefixed (pg : Bool) (moduleNs : Ns) (rg : List String) (bindings : List Binding) (r : Result)
    (h : r ∈ assign Generated.nameSeq pg moduleNs rg bindings) (hr : r.renamed = true) (hm : (r.b.isModule && pg) = false) :
    ∃ m ∈ Generated.nameSeq, r.final = some m := by
  obtain ⟨m, hm', hf⟩ := renamed_from_table _ pg _ _ r h hr
  refine ⟨m, hm', ?_⟩
  rw [hf]; simp [pfxOf, hm]

example : pfxOf ⟨0, .builtin, some "print", 0, true, none, 0, true, [], []⟩ true = "_" := by decide

end PMV.C04

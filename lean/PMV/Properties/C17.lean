import PMV.Generated.Names
import PMV.Proofs.Rename
import PMV.Proofs.Transforms
import PMV.Properties.C07
import PMV.Proofs.RemovePass
/-
  C17 — Turning a size optimisation on never makes the output longer (on the pinned corpus).
  The property quantifies over a finite, pinned corpus: the check enumerates it completely (thorough
  tier) on the real code.  What is proved about the models is the *decision logic* that is meant to
  guarantee it: a binding or literal is renamed / hoisted only when the cost model says the mentions
  do not get longer (or, for names, when its own name has been taken); for a binding referenced by
  plain names only, that is exactly `|new| ≤ |old|`; folding never lengthens; the statement-dropping
  transforms never add statements.  The link between the cost model and printed length (layout slack,
  DESIGN §7-F13) is evaluated, not proved.
-/
namespace PMV.C17
open PMV PMV.Rename

/-- T17.1: a rename happens only if the cost model accepts it or the original name is no longer free. -/
theorem renamed_only_if_profitable_or_forced (names : List String) (pg : Bool) (a : Assigned) (b : Binding)
    (h : (decide1 names pg a b).renamed = true) :
    ∃ cand, (decide1 names pg a b).final = some cand ∧ (shouldRename b cand = true ∨ mustRename a b = true) := by
  unfold decide1 at h ⊢
  by_cases hal : b.allow = true
  · rw [if_pos hal] at h ⊢
    cases hav : availableName names (pfxOf b pg) a b.scope with
    | none => rw [hav] at h; simp at h
    | some cand =>
      rw [hav] at h
      simp only at h ⊢
      by_cases hc : (shouldRename b cand || mustRename a b) = true
      · rw [if_pos hc]
        exact ⟨cand, rfl, by simpa using hc⟩
      · rw [if_neg hc] at h; simp at h
  · rw [if_neg hal] at h; simp at h

/-- T17.2: a literal is hoisted only if the cost model accepts it (there is no "forced" case). -/
theorem hoisted_only_if_profitable (names : List String) (pg : Bool) (a : Assigned) (b : Binding) (hk : b.kind = .hoisted)
    (h : (decide1 names pg a b).renamed = true) :
    ∃ cand, (decide1 names pg a b).final = some cand ∧ shouldRename b cand = true := by
  obtain ⟨cand, hf, hor⟩ := renamed_only_if_profitable_or_forced names pg a b h
  refine ⟨cand, hf, ?_⟩
  rcases hor with h1 | h2
  · exact h1
  · simp [mustRename, hk] at h2

/-- the cost model, read as an inequality on total mention length -/
theorem shouldRename_iff (b : Binding) (n : String) :
    shouldRename b n = true ↔ oldMentions b * b.curLen + newMentions b * n.length + additionalBytes b ≤ b.refs.length * b.curLen := by
  simp [shouldRename]

/-- T17.3: folding never lengthens (from C07). -/
theorem fold_not_longer (orc : Fold.Oracle) (l : Expr) (op : BinOpK) (r : Expr) :
    (Fold.exprText Generated.precTable Generated.spacing (Fold.foldBinOp Generated.precTable Generated.spacing orc l op r)).length
      ≤ (Fold.exprText Generated.precTable Generated.spacing (.binOp l op r)).length :=
  C07.fold_not_longer orc l op r

/-- T17.4: dropping statements never adds statements to a non-empty block. -/
theorem filter_not_more_statements (q : Stmt → Bool) (m : Bool) (b : List Stmt) (hb : b ≠ []) :
    (Transforms.filterSuite q m b).length ≤ b.length := by
  rcases Transforms.filterSuite_cases q m b with h | ⟨_, _, h⟩
  · rw [h]; exact List.length_filter_le _ _
  · rw [h]
    cases b with
    | nil => exact absurd rfl hb
    | cons x xs => simp

/-- T17.4b: the same for remove_pass with its docstring guard (the placeholder takes the place of a removed `pass`). -/
theorem remove_pass_not_more_statements (m : Bool) (b : List Stmt) (hb : b ≠ []) :
    (Transforms.removePass.suiteF m b).length ≤ b.length := by
  show (Transforms.filterSuite Transforms.isPass m (Transforms.passGuard b)).length ≤ b.length
  rcases Transforms.passGuard_cases b with h | ⟨rest, hb', h⟩
  · rw [h]; exact filter_not_more_statements _ m b hb
  · rw [h]
    have := filter_not_more_statements Transforms.isPass m (Transforms.zeroStmt :: rest) (by simp)
    rw [hb']; simpa using this

example : shouldRename ⟨0, .name, some "long_name", 0, true, none, 0, false, [], [⟨.name, []⟩, ⟨.name, []⟩]⟩ "A" = true := by decide
example : shouldRename ⟨0, .hoisted, none, 3, true, none, 0, false, [], [⟨.literal, []⟩, ⟨.literal, []⟩]⟩ "A" = false := by decide

end PMV.C17

import PMV.Generated.Prec
import PMV.Generated.Spacing
import PMV.Generated.Stmt
import PMV.Proofs.ParenGram
import PMV.Proofs.Spacing
import PMV.Proofs.Numbers
/-
  C02 — Printed source re-parses to exactly the same syntax tree.
  Proved here, for every well-formed expression tree of the modelled AST (unbounded depth):
    * the parentheses the printer inserts are sufficient for CPython's grammar (`Gram`), and erasing
      them gives the input back — for the precedence table *generated from the current source*;
    * tokens the tokenizer would glue together are separated by a space — for the generated lists;
    * integer literals denote their value in either spelling.
  `C02_full` states the whole property; the part not proved yet is named in `C02_partial`'s docstring.
-/
namespace PMV.C02
open PMV PMV.Printer PMV.Spec.Grammar

/-- G02.2: the generated precedence table and comparison literals satisfy the paren obligation. -/
theorem table_ok : TableOK Generated.precTable = true := by decide +kernel

/-- T02.1a: parenthesisation is grammatical for every well-formed expression. -/
theorem paren_grammatical (e : Expr) (hwf : WF e = true) : Gram (paren Generated.precTable e) = true :=
  gp Generated.precTable table_ok e hwf

/-- T02.1b: and it only adds parentheses. -/
theorem paren_erases (e : Expr) (hwf : WF e = true) : erase (paren Generated.precTable e) = e :=
  ep Generated.precTable e hwf

/-- G02.3: the generated spacing lists separate every token pair the tokenizer would glue. -/
theorem spacing_ok : Spec.Lex.SpacingOK Generated.spacing = true := by decide +kernel

/-- T02.3: whenever the next token would be glued to the previous one, a space is emitted. -/
theorem tokens_separated (st : Token.St) (tok : Token.Tok) (hl : Spec.Lex.isLayout tok = false)
    (hg : Spec.Lex.glues st.prev (Spec.Lex.nextOf tok) = true) :
    (Token.step Generated.spacing st tok).code = (Spec.Lex.text tok).toList.reverse ++ ' ' :: st.code :=
  Spec.Lex.step_separates Generated.spacing spacing_ok st tok hl hg

/-- T02.6 (integers): the printed spelling of a non-negative integer denotes it. -/
theorem int_literal (n : Nat) : Spec.Numbers.litValue (Token.natChars n) = some n :=
  Token.litValue_natChars n

/-- G02.4: every statement class of the AST has an entry in the printer's dispatch table, and the
    classes the model lays out as blocks are exactly the generated compound list (C08 uses this too). -/
theorem dispatch_complete :
    (["FunctionDef", "AsyncFunctionDef", "ClassDef", "Return", "Delete", "Assign", "TypeAlias", "AugAssign",
      "AnnAssign", "For", "AsyncFor", "While", "If", "With", "AsyncWith", "Match", "Raise", "Try", "TryStar",
      "Assert", "Import", "ImportFrom", "Global", "Nonlocal", "Expr", "Pass", "Break", "Continue", "match_case"].all
        fun c => Generated.stmtTable.dispatch.contains c) = true
    ∧ (["FunctionDef", "AsyncFunctionDef", "ClassDef", "For", "AsyncFor", "While", "If", "With", "AsyncWith",
        "Match", "Try", "TryStar", "match_case"].all fun c => Generated.stmtTable.compound.contains c) = true
    ∧ (["Return", "Delete", "Assign", "TypeAlias", "AugAssign", "AnnAssign", "Raise", "Assert", "Import",
        "ImportFrom", "Global", "Nonlocal", "Expr", "Pass", "Break", "Continue"].all
        fun c => !Generated.stmtTable.compound.contains c) = true := by decide +kernel

/-- The full property, relative to a parser `parse` standing for `ast.parse` (no Lean model of the
    CPython parser exists here; what is proved above is the part of this statement that concerns
    parenthesisation, token separation and integer spelling; statement-level slots, suite layout and
    string/float literals are tied by correspondence and the real-code oracle only). -/
def C02_full (parse : String → Option Module) : Prop :=
  ∀ m : Module, parse (Token.render Generated.spacing (moduleToks Generated.precTable Generated.stmtTable m)) = some m

-- Non-vacuity: a concrete well-formed tree with every kind of decision.
example : WF (.binOp (.binOp (.name "a" .load) .sub (.name "b" .load)) .pow
              (.unaryOp .uSub (.ifExp (.name "c" .load) (.constant (.int 1)) (.constant (.int 2))))) = true := by
  decide
example : Token.render Generated.spacing (exprToks Generated.precTable
    (.binOp (.binOp (.name "a" .load) .sub (.name "b" .load)) .pow
            (.unaryOp .uSub (.ifExp (.name "c" .load) (.constant (.int 1)) (.constant (.int 2))))))
    = "(a-b)**-(1 if c else 2)" := by decide +kernel
example : Spec.Lex.glues .numberLiteral (Spec.Lex.nextOf (.kw "for")) = true := by decide

end PMV.C02

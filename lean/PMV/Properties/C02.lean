import PMV.Generated.Prec
import PMV.Generated.Spacing
import PMV.Generated.Stmt
import PMV.Proofs.ParenGram
import PMV.Proofs.Spacing
import PMV.Proofs.Numbers
import PMV.Proofs.LayoutTable
import PMV.Proofs.LayoutPlain
import PMV.Proofs.LayoutTidy
import PMV.Proofs.LayoutIndent
import PMV.Proofs.LayoutBal4
/-
  C02 — Printed source re-parses to exactly the same syntax tree.
  Proved here, for every well-formed expression tree of the modelled AST (unbounded depth):
    * the parentheses the printer inserts are sufficient for CPython's grammar (`Gram`), and erasing
      them gives the input back — for the precedence table *generated from the current source*;
    * tokens the tokenizer would glue together are separated by a space — for the generated lists;
    * integer literals denote their value in either spelling.
  `C02_full` states the whole property; the part not proved yet is named in `C02_partial`'s docstring.
-/
namespace PMV.C02
open PMV PMV.Printer PMV.Spec.Grammar

/-- G02.2: the generated precedence table and comparison literals satisfy the paren obligation. -/
theorem table_ok : TableOK Generated.precTable = true := by decide +kernel

/-- T02.1a: parenthesisation is grammatical for every well-formed expression. -/
theorem paren_grammatical (e : Expr) (hwf : WF e = true) : Gram (paren Generated.precTable e) = true :=
  gp Generated.precTable table_ok e hwf

/-- T02.1b: and it only adds parentheses. -/
theorem paren_erases (e : Expr) (hwf : WF e = true) : erase (paren Generated.precTable e) = e :=
  ep Generated.precTable e hwf

/-- G02.3: the generated spacing lists separate every token pair the tokenizer would glue. -/
theorem spacing_ok : Spec.Lex.SpacingOK Generated.spacing = true := by decide +kernel

/-- T02.3: whenever the next token would be glued to the previous one, a space is emitted. -/
theorem tokens_separated (st : Token.St) (tok : Token.Tok) (hl : Spec.Lex.isLayout tok = false)
    (hg : Spec.Lex.glues st.prev (Spec.Lex.nextOf tok) = true) :
    (Token.step Generated.spacing st tok).code = (Spec.Lex.text tok).toList.reverse ++ ' ' :: st.code :=
  Spec.Lex.step_separates Generated.spacing spacing_ok st tok hl hg

/-- T02.6 (integers): the printed spelling of a non-negative integer denotes it. -/
theorem int_literal (n : Nat) : Spec.Numbers.litValue (Token.natChars n) = some n :=
  Token.litValue_natChars n

/-- G02.4: every statement class of the AST has an entry in the printer's dispatch table, and the
    classes the model lays out as blocks are exactly the generated compound list (C08 uses this too). -/
theorem dispatch_complete :
    (["FunctionDef", "AsyncFunctionDef", "ClassDef", "Return", "Delete", "Assign", "TypeAlias", "AugAssign",
      "AnnAssign", "For", "AsyncFor", "While", "If", "With", "AsyncWith", "Match", "Raise", "Try", "TryStar",
      "Assert", "Import", "ImportFrom", "Global", "Nonlocal", "Expr", "Pass", "Break", "Continue", "match_case"].all
        fun c => Generated.stmtTable.dispatch.contains c) = true
    ∧ (["FunctionDef", "AsyncFunctionDef", "ClassDef", "For", "AsyncFor", "While", "If", "With", "AsyncWith",
        "Match", "Try", "TryStar", "match_case"].all fun c => Generated.stmtTable.compound.contains c) = true
    ∧ (["Return", "Delete", "Assign", "TypeAlias", "AugAssign", "AnnAssign", "Raise", "Assert", "Import",
        "ImportFrom", "Global", "Nonlocal", "Expr", "Pass", "Break", "Continue"].all
        fun c => !Generated.stmtTable.compound.contains c) = true := by decide +kernel

/-- G02.5: the compound-statement list regenerated from `_suite` agrees with the grammar's compound statements, and
    `match_case` is in it (a `match` body is always a block). -/
theorem stmt_table_ok : Spec.Layout.TableOK Generated.stmtTable := Spec.Layout.stmtTable_ok

/-- T02.4 (layout): for every module whose clause headers and simple statements print as non-empty runs of real tokens
    (`okL`, decidable), the printer's state machine — `newline`, `indent ±1`, `end_statement` with their `rstrip` and
    empty-code special cases, the `elif` token surgery, the missing `newline` before a `while … else` — leaves exactly the
    layout `emitModule` specifies: one line per clause header; a suite on the header line (simple statements joined by
    single `;`) or as a block exactly one level deeper when it holds a compound statement; consecutive statements
    separated by a line break to the depth of their block when either is compound or the block is the module, by `;`
    otherwise; no empty line, no doubled or trailing separator. -/
theorem layout_as_specified (m : Module) (hok : Spec.Layout.okL Generated.precTable Generated.stmtTable m.body = true) :
    Spec.Layout.machineLayout (moduleToks Generated.precTable Generated.stmtTable m)
      = Spec.Layout.emitModule Generated.precTable Generated.stmtTable m :=
  Spec.Layout.module_layout _ _ stmt_table_ok m hok

/-- T02.4, syntactic side condition: expression tokens never contain a layout token (`flat_nlay`, mutual induction over the
    expression printer), so `okL` holds as soon as no `yield` is visited as a statement inside a header or a pattern (type
    alias name, annotated name, pattern value / class — positions where the grammar admits none) and every expression
    statement prints at least one token (`plainL`). -/
theorem layout_as_specified_plain (m : Module) (h : Spec.Layout.plainL Generated.precTable m.body = true) :
    Spec.Layout.machineLayout (moduleToks Generated.precTable Generated.stmtTable m)
      = Spec.Layout.emitModule Generated.precTable Generated.stmtTable m :=
  layout_as_specified m (Spec.Layout.okL_of_plain _ _ m.body h)

/-- T02.4b: the specified layout of a non-empty module starts and ends with a real token and never has two layout tokens in a
    row: the printed text has no empty line, no `;;`, no `;` before a line break and no trailing separator. -/
theorem layout_tidy (m : Module) (hok : Spec.Layout.okL Generated.precTable Generated.stmtTable m.body = true) (hne : m.body ≠ []) :
    Spec.Layout.Tidy (Spec.Layout.emitModule Generated.precTable Generated.stmtTable m) ∧
    Spec.Layout.noAdj (Spec.Layout.emitModule Generated.precTable Generated.stmtTable m) = true :=
  ⟨Spec.Layout.module_tidy _ _ m hok hne, Spec.Layout.tidy_noAdj (Spec.Layout.module_tidy _ _ m hok hne)⟩

/-- T02.4c (indentation discipline): reading the lines of the specified layout in order, a line is deeper than the one before
    it only by exactly one level and only right after a colon — when CPython's tokenizer emits INDENT and the grammar expects a
    block (shallower lines are always fine with tab-count depths).  For every module, no side condition. -/
theorem layout_indentation (m : Module) :
    (Spec.Layout.indRun (0, none) (Spec.Layout.emitModule Generated.precTable Generated.stmtTable m)).isSome = true :=
  Spec.Layout.module_indent _ _ m

/-- T02.4d (brackets): everything the expression printer emits is bracket-balanced (`flat_bal`, mutual induction over the
    expression printer, then patterns, headers and simple statements), so in the specified layout of every module each line
    break and each `;` is at bracket depth 0 — where the tokenizer reads it as NEWLINE / statement separator rather than
    ignoring it — and all brackets are closed at the end.  No side condition. -/
theorem layout_brackets (m : Module) :
    Spec.Layout.depthL 0 (Spec.Layout.emitModule Generated.precTable Generated.stmtTable m) = some 0 :=
  Spec.Layout.module_brackets _ _ m

/-- T02.5 (characters): when moreover no token text ends in a character that `newline` strips or is empty (`textOK`),
    the printed text is the concatenation of the characters of a list of layout tokens (a token with the space the spacing
    rule puts before it; a line break followed by `depth` tabs; a `;`) which, spacing forgotten, is the specified layout. -/
theorem printed_text_is_layout (m : Module) (hok : Spec.Layout.okL Generated.precTable Generated.stmtTable m.body = true)
    (hts : ∀ tok ∈ moduleToks Generated.precTable Generated.stmtTable m, Spec.Layout.textOK tok = true) :
    ∃ L : List Spec.Layout.LTok,
      Token.render Generated.spacing (moduleToks Generated.precTable Generated.stmtTable m) = String.ofList (Spec.Layout.revCode L.reverse).reverse ∧
      L.map Spec.Layout.LTok.erase = Spec.Layout.emitModule Generated.precTable Generated.stmtTable m := by
  refine ⟨((Spec.Layout.lrun Generated.spacing (moduleToks Generated.precTable Generated.stmtTable m)).acc.dropWhile Spec.Layout.LTok.isLay).reverse, ?_, ?_⟩
  · rw [List.reverse_reverse]
    exact Spec.Layout.render_eq Generated.spacing _ hts
  · rw [List.map_reverse]
    exact Spec.Layout.printed_layout Generated.spacing _ _ stmt_table_ok m hok

/-- The full property, relative to a parser `parse` standing for `ast.parse` (no Lean model of the
    CPython parser exists here; what is proved above is the part of this statement that concerns
    parenthesisation, token separation and integer spelling; statement-level slots, suite layout and
    string/float literals are tied by correspondence and the real-code oracle only). -/
def C02_full (parse : String → Option Module) : Prop :=
  ∀ m : Module, parse (Token.render Generated.spacing (moduleToks Generated.precTable Generated.stmtTable m)) = some m

-- Non-vacuity: a concrete well-formed tree with every kind of decision.
example : WF (.binOp (.binOp (.name "a" .load) .sub (.name "b" .load)) .pow
              (.unaryOp .uSub (.ifExp (.name "c" .load) (.constant (.int 1)) (.constant (.int 2))))) = true := by
  decide
example : Token.render Generated.spacing (exprToks Generated.precTable
    (.binOp (.binOp (.name "a" .load) .sub (.name "b" .load)) .pow
            (.unaryOp .uSub (.ifExp (.name "c" .load) (.constant (.int 1)) (.constant (.int 2))))))
    = "(a-b)**-(1 if c else 2)" := by decide +kernel
example : Spec.Lex.glues .numberLiteral (Spec.Lex.nextOf (.kw "for")) = true := by decide

-- Non-vacuity of T02.4 / T02.5: nested compound statements, an `elif` chain, `while … else`, inline and block suites.
def layoutWitness : Module := ⟨[
  .expr (.name "a" .load),
  .if_ (.name "b" .load) [.expr (.name "c" .load), .pass]
    [.if_ (.name "d" .load) [.while_ (.name "e" .load) [.break_] [.continue_, .pass]] [.expr (.name "f" .load)]],
  .expr (.name "g" .load), .expr (.name "h" .load)]⟩

example : Spec.Layout.okL Generated.precTable Generated.stmtTable layoutWitness.body = true := by decide +kernel
example : Spec.Layout.plainL Generated.precTable layoutWitness.body = true := by decide +kernel
-- nor is the bracket condition: a line break inside an open bracket is rejected
example : Spec.Layout.depthL 0 [.t (.delim "("), .nl 0, .t (.delim ")")] = none := by decide
-- the discipline is not vacuous: a deeper line without a colon before it is rejected
example : Spec.Layout.indRun (0, none) [.t (.ident "a"), .nl 1, .t (.ident "b")] = none := by decide
example : (moduleToks Generated.precTable Generated.stmtTable layoutWitness).all Spec.Layout.textOK = true := by decide +kernel
example : Token.render Generated.spacing (moduleToks Generated.precTable Generated.stmtTable layoutWitness)
    = "a\nif b:c;pass\nelif d:\n\twhile e:break\n\telse:continue;pass\nelse:f\ng\nh" := by decide +kernel

end PMV.C02

import PMV.Generated.Prec
import PMV.Generated.Spacing
import PMV.Proofs.Fold
import PMV.Proofs.Numbers
/-
  C07 — Constant folding never changes a value, its type, or an error.
  `evalLit` is the specification of what a closed literal arithmetic expression evaluates to: integer
  and bool arithmetic by `PyInt.eval` (Python semantics, validated against CPython), float/complex
  arithmetic as an arbitrary oracle.  The theorems hold for *every* oracle, so they do not depend on
  floating point facts; only `NegInvolutive` (negating a complex twice gives it back) is assumed.
-/
namespace PMV.C07
open PMV PMV.Fold PMV.Printer

/-- T07.1/T07.2/T07.4: folding preserves the value, the type tag (bool / int / float / complex are
    distinct constructors of `FVal`) and the error-ness of every literal expression at any depth, for
    the generated precedence and spacing tables and any evaluation oracle. -/
theorem fold_preserves_value (orc : Oracle) (hneg : NegInvolutive orc) (e : Expr) :
    evalLit orc (foldE Generated.precTable Generated.spacing orc e) = evalLit orc e :=
  foldE_value _ _ orc hneg e

/-- an expression whose evaluation raises is never replaced by something that does not. -/
theorem errors_stay_errors (orc : Oracle) (hneg : NegInvolutive orc) (e : Expr) (h : evalLit orc e = none) :
    evalLit orc (foldE Generated.precTable Generated.spacing orc e) = none := by
  rw [fold_preserves_value orc hneg e, h]

/-- T07.3: a folding step never makes the printed expression longer; it is strictly shorter when it
    changes anything. -/
theorem fold_not_longer (orc : Oracle) (l : Expr) (op : BinOpK) (r : Expr) :
    (exprText Generated.precTable Generated.spacing (foldBinOp Generated.precTable Generated.spacing orc l op r)).length
      ≤ (exprText Generated.precTable Generated.spacing (.binOp l op r)).length := by
  rcases foldBinOp_shorter Generated.precTable Generated.spacing orc l op r with h | h
  · rw [h]; exact Nat.le_refl _
  · exact Nat.le_of_lt h

/-- what is left alone: `/` and `**`, non-literal operands, raising or NaN results. -/
theorem fold_only_when (orc : Oracle) (l : Expr) (op : BinOpK) (r : Expr)
    (h : foldBinOp Generated.precTable Generated.spacing orc l op r ≠ .binOp l op r) :
    ∃ lv rv v, operandVal l = some lv ∧ operandVal r = some rv ∧ op ≠ .div ∧ op ≠ .pow ∧
      evalBin orc op lv rv = some v ∧ isNan v = false ∧
      newNode orc v = some (foldBinOp Generated.precTable Generated.spacing orc l op r) :=
  foldBinOp_changed _ _ orc l op r h

/-- the printed spelling of a folded non-negative integer denotes that integer (with C02.int_literal
    this closes the gap between the value of the new node and the value of its text). -/
theorem folded_int_text (n : Nat) : Spec.Numbers.litValue (Token.natChars n) = some n :=
  Token.litValue_natChars n

/-- `a // b` and `a % b` of the specification satisfy Python's identity `(a // b) * b + a % b == a`. -/
theorem floordiv_mod_identity (a b q m : Int) (hq : PyInt.eval .floorDiv a b = some q) (hm : PyInt.eval .mod a b = some m) :
    q * b + m = a := by
  simp only [PyInt.eval] at hq hm
  split at hq
  · cases hq
  · cases hq; split at hm
    · cases hm
    · cases hm
      rw [Int.mul_comm]; exact Int.mul_fdiv_add_fmod a b

-- Non-vacuity: a concrete fold, an error that is kept, a not-shorter result that is kept.
example : exprText Generated.precTable Generated.spacing (foldE Generated.precTable Generated.spacing ⟨[], []⟩
    (.binOp (.constant (.int 10)) .mult (.binOp (.constant (.int 5)) .sub (.constant (.int 2))))) = "30" := by
  decide +kernel
example : exprText Generated.precTable Generated.spacing (foldE Generated.precTable Generated.spacing ⟨[], []⟩
    (.binOp (.constant (.int 5)) .floorDiv (.constant (.int 0)))) = "5//0" := by decide +kernel
example : exprText Generated.precTable Generated.spacing (foldE Generated.precTable Generated.spacing ⟨[], []⟩
    (.binOp (.constant .true_) .bitAnd (.constant .false_))) = "False" := by decide +kernel
example : exprText Generated.precTable Generated.spacing (foldE Generated.precTable Generated.spacing ⟨[], []⟩
    (.binOp (.constant (.int 5)) .sub (.constant (.int 10)))) = "-5" := by decide +kernel
example : NegInvolutive ⟨[], []⟩ := by intro r k r' h; simp at h

end PMV.C07

import PMV.Proofs.Hoist
import PMV.Proofs.Rename
import PMV.Generated.Names
/-
  C06 — Hoisted literals are bound once, before use, to an identical value.
  Proved on the placement model: the namespace chosen for an alias encloses every use; the assignment
  is inserted after docstring / `__future__` statements only and keeps the order of everything else;
  the alias name clashes with no name of any binding whose scope it shares (C03.no_new_clash applies
  to hoisted bindings as to any other).  Which literals are collected (exclusions for patterns,
  `__slots__`, f-string text, literal statements) and value identity of the key are decided by the
  oracle on the real code.
-/
namespace PMV.C06
open PMV.Hoist

/-- T06.3a: dominance. -/
theorem alias_encloses_every_use (m : Nat) (paths : List (List Nat)) (hm : ∀ p ∈ paths, p.head? = some m) :
    ∀ p ∈ paths, placePath paths <+: p :=
  placePath_prefix m paths hm

/-- T06.3b: placement in the body. -/
theorem alias_first_after_leading {α} (leading : α → Bool) (new : α) (s : List α) :
    ∃ pre post, insertStmt leading new s = pre ++ new :: post ∧ pre.all leading = true ∧ pre ++ post = s :=
  insertStmt_before_all_leading leading new s

/-- T06.1 (freshness): a renamed hoisted binding gets a name different from the final name of every
    binding whose reservation scope intersects its own. -/
theorem alias_fresh (pg : Bool) (moduleNs : Rename.Ns) (rg : List String) (bindings : List Rename.Binding)
    (hwf : ∀ b ∈ bindings, Rename.WFB b = true) :
    (Rename.assign Generated.nameSeq pg moduleNs rg bindings).Pairwise (fun r1 r2 =>
      (r1.renamed = true ∨ r2.renamed = true) → r1.exhausted = false → r2.exhausted = false →
      (∃ ns, ns ∈ r1.b.scope ∧ ns ∈ r2.b.scope) → r1.final.isSome → r1.final ≠ r2.final) :=
  Rename.assign_no_new_clash _ pg moduleNs rg bindings hwf

/-- an un-renamed hoisted binding introduces no name at all -/
theorem unhoisted_introduces_nothing (names : List String) (pg : Bool) (a : Rename.Assigned) (b : Rename.Binding)
    (hn : b.name = none) (h : (Rename.decide1 names pg a b).renamed = false) (hx : (Rename.decide1 names pg a b).exhausted = false) :
    (Rename.decide1 names pg a b).final = none := by
  rw [(Rename.decide1_kept h hx).1, hn]

example : place [[0, 3, 7], [0, 3, 9], [0, 3]] = some 3 := by decide
example : insertStmt (fun s : String => s == "doc" || s == "future") "A='x'" ["doc", "future", "import os", "doc"]
    = ["doc", "future", "A='x'", "import os", "doc"] := by decide

end PMV.C06

import PMV.Proofs.Hoist
import PMV.Proofs.Rename
import PMV.Generated.Names
import PMV.Proofs.HoistCollect
/-
  C06 — Hoisted literals are bound once, before use, to an identical value.
  Proved on the placement model: the namespace chosen for an alias encloses every use; the assignment
  is inserted after docstring / `__future__` statements only and keeps the order of everything else;
  the alias name clashes with no name of any binding whose scope it shares (C03.no_new_clash applies
  to hoisted bindings as to any other).  Which literals are collected is proved on the model of the
  collecting traversal (`PMV.HoistCollect`, T06.4): exactly the literal occurrences outside match patterns,
  string statements and class-level `__slots__` assignments.  The literal text of f-strings is not an
  expression of the model's AST (the correspondence settles that the real traversal skips it); value
  identity of the key is decided by the oracle on the real code.
-/
namespace PMV.C06
open PMV.Hoist

/-- T06.3a: dominance. -/
theorem alias_encloses_every_use (m : Nat) (paths : List (List Nat)) (hm : ∀ p ∈ paths, p.head? = some m) :
    ∀ p ∈ paths, placePath paths <+: p :=
  placePath_prefix m paths hm

/-- T06.3b: placement in the body. -/
theorem alias_first_after_leading {α} (leading : α → Bool) (new : α) (s : List α) :
    ∃ pre post, insertStmt leading new s = pre ++ new :: post ∧ pre.all leading = true ∧ pre ++ post = s :=
  insertStmt_before_all_leading leading new s

/-- T06.1 (freshness): a renamed hoisted binding gets a name different from the final name of every
    binding whose reservation scope intersects its own. -/
theorem alias_fresh (pg : Bool) (moduleNs : Rename.Ns) (rg : List String) (bindings : List Rename.Binding)
    (hwf : ∀ b ∈ bindings, Rename.WFB b = true) :
    (Rename.assign Generated.nameSeq pg moduleNs rg bindings).Pairwise (fun r1 r2 =>
      (r1.renamed = true ∨ r2.renamed = true) → r1.exhausted = false → r2.exhausted = false →
      (∃ ns, ns ∈ r1.b.scope ∧ ns ∈ r2.b.scope) → r1.final.isSome → r1.final ≠ r2.final) :=
  Rename.assign_no_new_clash _ pg moduleNs rg bindings hwf

/-- an un-renamed hoisted binding introduces no name at all -/
theorem unhoisted_introduces_nothing (names : List String) (pg : Bool) (a : Rename.Assigned) (b : Rename.Binding)
    (hn : b.name = none) (h : (Rename.decide1 names pg a b).renamed = false) (hx : (Rename.decide1 names pg a b).exhausted = false) :
    (Rename.decide1 names pg a b).final = none := by
  rw [(Rename.decide1_kept h hx).1, hn]

example : place [[0, 3, 7], [0, 3, 9], [0, 3]] = some 3 := by decide
example : insertStmt (fun s : String => s == "doc" || s == "future") "A='x'" ["doc", "future", "import os", "doc"]
    = ["doc", "future", "A='x'", "import os", "doc"] := by decide

/-! ### T06.4: which literals are collected (and therefore may be replaced) -/
open PMV PMV.HoistCollect in
/-- T06.4: the traversal collects exactly the literal occurrences of the module in which every match pattern, every
    string statement and every assignment to `__slots__` in a class namespace has been erased (`blank`) — nothing
    from those positions at any depth, everything from all others, in source order. -/
theorem collected_exactly_outside_exclusions (m : Module) : collect m = allLits (blank m) :=
  colL_blank false m.body

open PMV PMV.HoistCollect in
/-- T06.4b: only `None`, `True`, `False`, strings and bytes are ever collected (numbers and `...` never are). -/
theorem collected_are_hoistable (m : Module) : ∀ c ∈ collect m, hoistable c = true :=
  colL_hoistable false m.body

open PMV PMV.HoistCollect in
/-- T06.4c: a string or bytes statement (a docstring, wherever it stands) contributes nothing. -/
theorem string_statement_never_collected (cls : Bool) (v : Expr) (h : isStrConst v = true) : colS cls (.expr v) = [] := by
  simp only [colS, h, if_true]

open PMV PMV.HoistCollect in
/-- T06.4d: an assignment (plain, augmented, annotated) to `__slots__` whose namespace is a class contributes nothing,
    whatever its value holds. -/
theorem class_slots_never_collected (ts : List Expr) (tg v ann : Expr) (op : BinOpK) (ov : Option Expr) (s : Bool)
    (hts : ts.any isSlotsName = true) (htg : isSlotsName tg = true) :
    colS true (.assign ts v) = [] ∧ colS true (.augAssign tg op v) = [] ∧ colS true (.annAssign tg ann ov s) = [] := by
  simp [colS, hts, htg]

open PMV PMV.HoistCollect in
/-- T06.4e: what is collected from a `match` statement does not depend on its patterns. -/
theorem patterns_never_collected (cls : Bool) (s : Expr) (p p' : Pattern) (g : Option Expr) (body : List Stmt) (rest : List MatchCase) :
    colS cls (.match_ s (.mk p g body :: rest)) = colS cls (.match_ s (.mk p' g body :: rest)) := by
  simp only [colS, colC]

open PMV PMV.HoistCollect in
/-- T06.4f: outside a class namespace a `__slots__` assignment is an ordinary one (the exclusion is not wider than stated). -/
theorem function_level_slots_collected (ts : List Expr) (v : Expr) : colS false (.assign ts v) = colEs ts ++ colE v := by
  simp [colS]

open PMV PMV.HoistCollect in
/-- T06.5a: every collected occurrence is a reference of exactly one hoisted binding — the reference counts of the bindings add
    up to the number of collected occurrences. -/
theorem every_occurrence_in_one_binding (m : Module) : total (bindingsOf m) = (collect m).length := by
  unfold bindingsOf groups
  rw [groupsFrom_total]; simp [total]

open PMV PMV.HoistCollect in
/-- T06.5b: the binding an occurrence belongs to holds a constant of the same type and value (`HoistedValue` equality:
    `None` / `True` / `False` themselves, strings by code points, bytes by bytes; never across types). -/
theorem binding_value_is_the_literal (m : Module) : ∀ c ∈ collect m, ∃ e ∈ bindingsOf m, sameValue e.1 c = true :=
  groupsFrom_covers (collect m) [] (colL_hoistable false m.body)

open PMV PMV.HoistCollect in
/-- T06.5c: the value of a hoisted binding is one of the collected occurrences (the first of its value), never anything else. -/
theorem binding_value_is_an_occurrence (m : Module) : ∀ e ∈ bindingsOf m, e.1 ∈ collect m := by
  intro e he
  rcases groupsFrom_keys (collect m) [] e he with h | ⟨e', h', _⟩
  · exact h
  · cases h'

open PMV.HoistCollect in
/-- T06.5d: values of different types are never the same key, whatever their payload (`1 == True`, `'' == b''` style confusions). -/
theorem different_types_never_merged (r : String) (a : List Nat) :
    sameValue (.str r a) (.bytes r a) = false ∧ sameValue .true_ (.int 1) = false ∧ sameValue (.int 0) .false_ = false ∧
    sameValue .none .false_ = false := by
  simp [sameValue]

open PMV PMV.HoistCollect in
example : groups [.str "'a'" [97], .none, .str "\"a\"" [97], .bytes "b'a'" [97], .none, .true_]
    = [(.str "'a'" [97], 2), (.none, 2), (.bytes "b'a'" [97], 1), (.true_, 1)] := by decide

-- non-vacuity: a class with `__slots__` inside an `if`, a docstring, a method with a `match` and an f-string
open PMV PMV.HoistCollect in
example : collect ⟨[.classDef "C" [] [] [
      .expr (.constant (.str "'doc'" [100])),
      .if_ (.constant .true_) [.assign [.name "__slots__" .store] (.tuple [.constant (.str "'a'" [97])])] [],
      .functionDef false "f" (.mk [] [] none [] [] none []) [
        .assign [.name "__slots__" .store] (.constant (.str "'a'" [97])),
        .match_ (.constant (.str "'a'" [97])) [.mk (.matchValue (.constant (.str "'a'" [97]))) (some (.constant .none))
          [.return_ (some (.joinedStr "f'a{1}'" [.constant (.int 1), .constant (.bytes "b'a'" [97])]))]]] [] none []] [] []]⟩
    = [.true_, .str "'a'" [97], .str "'a'" [97], .none, .bytes "b'a'" [97]] := by decide

end PMV.C06

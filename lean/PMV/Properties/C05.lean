import PMV.Generated.Pipeline
import PMV.Model.Pipeline
import PMV.Model.Minify
import PMV.Proofs.Transforms
import PMV.Proofs.TransformsImports
import PMV.Proofs.RemovePass
import PMV.Proofs.DropGuard
/-
  C05 — Each option performs only its documented rewrite, only where it is valid.
  `Spec.Rewrites.canonModule c` erases exactly what the documentation lets the options in `c` do.
  Proved: for remove_pass / remove_asserts / remove_literal_statements / remove_debug / combine_imports /
  remove_object_base / remove_explicit_return_none the output equals the input modulo that erasure
  (for every module, at every nesting depth); a block never becomes empty; statements outside the
  dropped kind are all kept, in order; combining imports never reorders, loses or invents an imported
  name; with every switch off the transform pipeline is the identity; the stages run under exactly the
  generated conditions.  The canon for the remaining options (annotations, positional-only markers,
  exception brackets — whose specification shares its helper functions with the model) is used as an oracle
  on the real code.
-/
namespace PMV.C05
open PMV PMV.Transforms PMV.Spec.Rewrites

/-- G05.0: each transform runs under its own switch only, in the modelled order. -/
theorem pipeline_as_modelled : Generated.pipeline = Pipeline.modelled := by decide +kernel

/-- T05.2: with every switch off no tree transform is applied. -/
theorem all_off_is_identity (t : Printer.PrecTable) (sp : Token.Spacing) (orc : Fold.Oracle) (el : List String) (m : Module) :
    Minify.transformM t sp orc el Minify.Opts.allOff m = m := by
  simp [Minify.transformM, Minify.Opts.allOff, AnnOpts.any]

/-- T05.3a: a block that is not the module body never becomes empty (a `0` is left otherwise). -/
theorem block_stays_nonempty (q : Stmt → Bool) (b : List Stmt) : filterSuite q false b ≠ [] :=
  filterSuite_nonempty q b

/-- T05.3b: a statement that is not of the dropped kind is kept. -/
theorem other_statements_kept (q : Stmt → Bool) (m : Bool) (b : List Stmt) (s : Stmt) (hs : s ∈ b) (hq : q s = false) :
    s ∈ filterSuite q m b :=
  filterSuite_keeps q m b s hs hq

/-- T05.1 (remove_pass): output = input modulo dropping `pass` statements and `0` placeholders (a placeholder is left in a
    block that would become empty and, since fix F39, in front of a string statement that would become a docstring). -/
theorem remove_pass_only_documented (m : Module) :
    canonModule { pass := true } (travModule removePass m) = canonModule { pass := true } m := by
  have : removePass = suiteT (fun m b => filterSuite isPass m (passGuard b)) := rfl
  rw [this]
  exact canon_suiteT _ _ (fun cls fb m ys => removePass_suite cls fb m ys) rfl rfl m

/-- T05.1 (remove_asserts): output = input modulo dropping `assert` statements and `0` placeholders (one is left in a block that
    would become empty and, since fix F41, in front of a string statement that would become a docstring; the same for remove_debug). -/
theorem remove_asserts_only_documented (m : Module) :
    canonModule { asserts := true } (travModule removeAsserts m) = canonModule { asserts := true } m :=
  removeAsserts_canon m

/-- T05.6 (F39, F41): none of the statement-removing options gives a module, class or function a docstring. Whatever is nested
    in it, a block that does not start with a string statement does not start with one after remove_pass, remove_asserts or
    remove_debug (`m` says whether the block is the module body). -/
theorem docstring_never_gained (m : Bool) (b : List Stmt) (h : startsWithString b = false) :
    startsWithString (removePass.suiteF m (travBody removePass b)) = false
    ∧ startsWithString (removeAsserts.suiteF m (travBody removeAsserts b)) = false
    ∧ startsWithString (removeDebug.suiteF m (travBody removeDebug b)) = false :=
  no_docstring_gained m b h

-- Non-vacuity: `assert x; 'text'; y` keeps `'text'` second (a `0` in front); `x; assert x; 'text'` just loses the assert;
-- without the guard (the plain filter) the first block would start with the string.
example :
    let txt : Stmt := .expr (.constant (.str "'text'" [116]))
    let x : Expr := .name "x" .load
    startsWithString [.assert_ x none, txt, .expr x] = false
    ∧ (removeAsserts.suiteF false [.assert_ x none, txt, .expr x]).map isStrStmt = [false, true, false]
    ∧ (removeAsserts.suiteF false [.expr x, .assert_ x none, txt]).map isStrStmt = [false, true]
    ∧ startsWithString (filterSuite isAssert false [.assert_ x none, txt, .expr x]) = true
    ∧ (removeDebug.suiteF true [.if_ (.name "__debug__" .load) [.expr x] [], txt]).map isStrStmt = [false, true]
    ∧ (removePass.suiteF false [.pass, .pass, txt]).map isStrStmt = [false, true] := by
  decide

/-- T05.1 (remove_literal_statements), including the `__doc__` guard: when the module mentions
    `__doc__` nothing is removed at all (so in particular the module docstring stays). -/
theorem remove_literals_only_documented (m : Module) :
    canonModule { literals := true, keepModuleDoc := docInModule m } (removeLiteralStatements m)
      = canonModule { literals := true, keepModuleDoc := docInModule m } m := by
  unfold removeLiteralStatements
  cases hdoc : docInModule m
  · simp only [Bool.false_eq_true, if_false]
    apply canon_dropT (c := { literals := true, keepModuleDoc := false }) (q := isLiteralStmt) ⟨rfl, rfl, rfl⟩
    · intro s hs; simp [dropStmt, hs]
    · simp [dropStmt, COpts.placeholders, isZero, zeroStmt]
    · intro cls s; exact (kind_cStmt _ cls s).2.2.1
    · rfl
    · rfl
  · simp

/-- T05.1 (remove_debug): output = input modulo replacing an `if __debug__:` statement by what `-O` would run. -/
theorem remove_debug_only_documented (m : Module) :
    canonModule { debug := true } (travModule removeDebug m) = canonModule { debug := true } m :=
  removeDebug_canon m

/-- T05.1 (remove_object_base): output = input modulo dropping `object` from base lists. -/
theorem remove_object_only_documented (m : Module) :
    canonModule { object := true } (travModule removeObject m) = canonModule { object := true } m :=
  removeObject_canon m

/-- T05.1 (remove_explicit_return_none): output = input modulo `return None` ≡ `return` and the bare `return`s that end a function. -/
theorem remove_return_none_only_documented (m : Module) :
    canonModule { returnNone := true } (travModule removeReturnNone m) = canonModule { returnNone := true } m :=
  removeReturnNone_canon m

/-- T05.1 (combine_imports): output = input modulo splitting import statements into single-name imports — so no alias is lost,
    added, renamed or moved across another statement. -/
theorem combine_imports_only_documented (m : Module) :
    canonModule { imports := true } (travModule combineImports m) = canonModule { imports := true } m :=
  combineImports_canon m

/-- T05.3c: `CombineImports` keeps the sequence of imported names (no reordering, nothing lost or added). -/
theorem combine_imports_keeps_order (b : List Stmt) :
    flattenImports (combineImport b) = flattenImports b ∧ flatFrom (combineFrom b) = flatFrom b :=
  ⟨flatten_combineImport b, flatFrom_combineFrom b⟩

-- the fix F39: a string statement behind leading `pass` statements does not become the docstring
example : (removePass.suiteF false [.pass, .pass, .expr (.constant (.str "'t'" [116])), .return_ none]).map isZero = [true, false, false] := by decide
example : (removePass.suiteF false [.expr (.constant (.str "'t'" [116])), .pass]).map isZero = [false] := by decide
-- Non-vacuity
example : (canonModule { debug := true } ⟨[.if_ (.name "__debug__" .load) [.pass] [.expr (.name "x" .load)], .expr (.name "y" .load)]⟩).body.length = 2 := by decide
example : (filterSuite isPass false [.pass, .pass]).length = 1 ∧ (filterSuite isPass false [.pass, .pass]).all Spec.Rewrites.isZero = true := by decide
example : (filterSuite isPass true [.pass]).length = 0 := by decide
example : (combineFrom [.importFrom (some "a") [⟨"x", none⟩] 0, .importFrom (some "b") [⟨"y", none⟩] 0,
    .importFrom (some "a") [⟨"z", none⟩] 0]).length = 3 := by decide

end PMV.C05

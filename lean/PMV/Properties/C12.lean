import PMV.Generated.Strings
import PMV.Generated.Prec
import PMV.Proofs.MiniString
import PMV.Proofs.FoldTokens
/-
  C12 — Minifying never runs code taken from the input.
  Every `eval` in the code base is in the inventory below (regenerated from the source on every
  run); what reaches each of them is a closed literal:
    * MiniString: quote + escaped body + quote is exactly one string literal for *every* string;
    * FoldConstants: the evaluated text consists of numbers, True/False/None, operators, parentheses.
  (f_string.Str / Bytes literal splitting: modelled by correspondence and the audit-hook oracle only.)
-/
namespace PMV.C12
open PMV PMV.MiniString PMV.Spec.StrLex

/-- G12.0: the call sites of eval/exec/compile/__import__/open/literal_eval in the package are exactly
    the modelled ones (a new or moved site breaks this obligation). -/
theorem eval_sites_inventory :
    Generated.evalSites =
      [("__main__.py", "main", "open"), ("__main__.py", "main", "open"), ("__main__.py", "main", "open"),
       ("__main__.py", "main", "open"), ("__main__.py", "main", "open"), ("__main__.py", "main", "open"),
       ("ast_compat.py", "Ellipsis.__new__", "literal_eval"),
       ("f_string.py", "Bytes.__str__", "eval"), ("f_string.py", "Str.__str__", "eval"),
       ("ministring.py", "MiniBytes.__str__", "eval"), ("ministring.py", "MiniString.__str__", "eval"),
       ("ministring.py", "MiniString.__str__", "eval"),
       ("transforms/constant_folding.py", "safe_eval", "eval")] := by decide +kernel

/-- G12.1: the generated escape tables satisfy the obligation (backslash, LF and CR escaped; the
    quote escaped; every replacement is a backslash pair followed by inert characters). -/
theorem esc_ok : EscOK Generated.escTable = true := by decide +kernel

/-- T12.1: for every string, either quote character, safe mode on or off: what MiniString hands to
    `eval` is exactly one short string literal … -/
theorem ministring_short_closed (q : Nat) (hq : q = 39 ∨ q = 34) (safe : Bool) (s : List Nat) :
    scanShort q (toShort Generated.escTable q safe s ++ [q]) = some [] :=
  toShort_closed Generated.escTable esc_ok q hq safe [] s

/-- … or exactly one long (triple-quoted) string literal. -/
theorem ministring_long_closed (q : Nat) (hq : q = 39 ∨ q = 34) (safe : Bool) (s : List Nat) :
    scanLong q (toLong Generated.escTable q safe s ++ [q, q, q]) = some [] :=
  toLong_closed Generated.escTable esc_ok q hq safe [] s

/-- T12.3: a closed literal expression (numbers whose spelling is numeric — decidable predicate
    `ClosedLit`, which rules out the names `inf`/`nan` — True/False/None, binary operators, unary minus)
    prints to closed tokens only: numeric texts, True/False/None, operators, parentheses. Nothing else
    can reach `safe_eval`: `visit_BinOp` only evaluates such expressions (C07.fold_only_when). -/
theorem fold_closed_tokens (e : Expr) (h : Fold.ClosedLit e = true) :
    (Printer.exprToks Generated.precTable e).all Fold.closedTok = true :=
  Fold.flat_closed _ (Fold.paren_closed _ e h)

-- Non-vacuity: an adversarial string (quote, backslash, newline, NUL, closing-triple attempt)
example : evalText Generated.escTable 39 1 [39, 92, 10, 0, 39, 39, 39] =
    [39, 92, 39, 92, 92, 92, 110, 92, 120, 48, 48, 92, 39, 92, 39, 92, 39, 39] := by decide +kernel
example : isOneLiteral 39 3 (evalText Generated.escTable 39 3 [39, 39, 39, 92, 10, 34]) = true := by decide +kernel

example : Fold.ClosedLit (.binOp (.constant (.float "inf")) .add (.binOp (.constant (.int 255)) .mult (.constant (.complex "1e+16j")))) = true := by
  decide +kernel
example : Fold.ClosedLit (.constant (.complex "(inf+1j)")) = false := by decide +kernel

end PMV.C12

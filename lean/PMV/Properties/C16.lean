import PMV.Generated.Shebang
import PMV.Proofs.Shebang
/-
  C16 — Shebang, source encoding and line endings are handled faithfully.
  Proved on the model of `_find_shebang` / the re-attachment in `minify()`: a source that starts with
  `#!` yields exactly its first physical line (LF, CRLF or lone CR terminated); any other source yields
  none; with preservation on, the first physical line of the output is that line, and with it off (or
  without a shebang) the output is the printed module alone.  The regular expressions and the
  `preserve_shebang is True` test are regenerated from the source and must equal the modelled ones.
  Decoding of source bytes (PEP 263 cookies, BOM) and tree equality are decided on the real code.
-/
namespace PMV.C16
open PMV.Shebang PMV.Spec.Lines

/-- G16.0: both patterns (bytes and text) are the modelled one, and only `True` switches preservation on. -/
theorem patterns_as_modelled :
    Generated.shebangPatterns = ["^#![^\\r\\n]*", "^#![^\\r\\n]*"] ∧ Generated.shebangTest = "preserve_shebang is True" := by
  decide +kernel

/-- T16.1: the shebang found is the first physical line. -/
theorem shebang_is_first_line (src rest : List Nat) (h : src = 35 :: 33 :: rest) : findShebang src = some (firstLine src) :=
  findShebang_eq_firstLine src rest h

/-- T16.1b: nothing else is ever taken for a shebang. -/
theorem no_shebang_otherwise (src : List Nat) (h : ¬ ∃ rest, src = 35 :: 33 :: rest) : findShebang src = none :=
  findShebang_none src h

/-- T16.3a: with preservation on, the first physical line of the output is the source's shebang line. -/
theorem output_first_line (src rest minified : List Nat) (h : src = 35 :: 33 :: rest) :
    firstLine (attach true src minified) = firstLine src := by
  unfold attach
  simp only [if_true]
  rw [findShebang_eq_firstLine src rest h]
  simp only
  exact firstLine_append_lf _ _ (takeWhile_no_lineEnd src)

/-- T16.3b: with preservation off, or without a shebang, the output is the printed module alone. -/
theorem shebang_off_absent (src minified : List Nat) : attach false src minified = minified := by
  simp [attach]

theorem no_shebang_absent (preserve : Bool) (src minified : List Nat) (h : ¬ ∃ rest, src = 35 :: 33 :: rest) :
    attach preserve src minified = minified := by
  unfold attach
  rw [findShebang_none src h]
  cases preserve <;> simp

-- Non-vacuity: CR-terminated source
example : findShebang [35, 33, 47, 98, 13, 112, 13] = some [35, 33, 47, 98] := by decide
example : firstLine (attach true [35, 33, 47, 98, 13, 112] [112]) = [35, 33, 47, 98] := by decide

end PMV.C16

import PMV.Generated.Shebang
import PMV.Proofs.Shebang
import PMV.Proofs.Encoding
/-
  C16 — Shebang, source encoding and line endings are handled faithfully.
  Proved on the model of `_find_shebang` / the re-attachment in `minify()`: a source that starts with
  `#!` yields exactly its first physical line (LF, CRLF or lone CR terminated); any other source yields
  none; with preservation on, the first physical line of the output is that line, and with it off (or
  without a shebang) the output is the printed module alone.  The regular expressions and the
  `preserve_shebang is True` test are regenerated from the source and must equal the modelled ones.
  The encoding a shebang is decoded with: the name normalisation of `_source_encoding` (the tokenizer's `get_normal_name`) is
  modelled; its name tables are regenerated from the source; the model, the implementation and CPython's own
  `tokenize._get_normal_name` are compared on a systematic family of names on every run.
  Decoding of the module's bytes itself (PEP 263 cookies, BOM) is CPython's, and tree equality is decided on the real code.
-/
namespace PMV.C16
open PMV.Shebang PMV.Spec.Lines

/-- G16.0: both patterns (bytes and text) are the modelled one, and only `True` switches preservation on. -/
theorem patterns_as_modelled :
    Generated.shebangPatterns = ["^#![^\\r\\n]*", "^#![^\\r\\n]*"] ∧ Generated.shebangTest = "preserve_shebang is True" := by
  decide +kernel

/-- T16.1: the shebang found is the first physical line. -/
theorem shebang_is_first_line (src rest : List Nat) (h : src = 35 :: 33 :: rest) : findShebang src = some (firstLine src) :=
  findShebang_eq_firstLine src rest h

/-- T16.1b: nothing else is ever taken for a shebang. -/
theorem no_shebang_otherwise (src : List Nat) (h : ¬ ∃ rest, src = 35 :: 33 :: rest) : findShebang src = none :=
  findShebang_none src h

/-- T16.3a: with preservation on, the first physical line of the output is the source's shebang line. -/
theorem output_first_line (src rest minified : List Nat) (h : src = 35 :: 33 :: rest) :
    firstLine (attach true src minified) = firstLine src := by
  unfold attach
  simp only [if_true]
  rw [findShebang_eq_firstLine src rest h]
  simp only
  exact firstLine_append_lf _ _ (takeWhile_no_lineEnd src)

/-- T16.3b: with preservation off, or without a shebang, the output is the printed module alone. -/
theorem shebang_off_absent (src minified : List Nat) : attach false src minified = minified := by
  simp [attach]

theorem no_shebang_absent (preserve : Bool) (src minified : List Nat) (h : ¬ ∃ rest, src = 35 :: 33 :: rest) :
    attach preserve src minified = minified := by
  unfold attach
  rw [findShebang_none src h]
  cases preserve <;> simp

/-! ### the declared encoding -/
open PMV.Encoding in
/-- G16.4: the names, prefixes, slice length and replacements in `_source_encoding` are the modelled ones. -/
theorem encoding_names_as_modelled :
    Generated.encSlices = [2, 12] ∧ Generated.encLowered = 1 ∧ Generated.encReplaces = [[[95], [45]]]
    ∧ Generated.encEquals = [[utf8], [latin1, iso88591, isoLatin1]]
    ∧ Generated.encPrefixes = [[utf8 ++ [45]], [latin1 ++ [45], iso88591 ++ [45], isoLatin1 ++ [45]]]
    ∧ Generated.encAssigned = [utf8, iso88591] := by
  decide +kernel

open PMV.Encoding in
/-- T16.4a: a name stands for UTF-8, for Latin-1, or for itself; and which of the three depends only on its first twelve
    characters, whatever their case. -/
theorem encoding_class_by_first_twelve (name : List Nat) :
    cls (normalName (name.take 12)) = cls (normalName name) ∧ cls (normalName (name.map lowerC)) = cls (normalName name) :=
  ⟨cls_eq _ _ (norm_take name), cls_eq _ _ (norm_lower name)⟩

open PMV.Encoding in
/-- T16.4b: the suffix an editor adds after a separator (`utf-8-unix`, `latin-1-dos`, `iso-8859-1-mac`, …) does not change what
    the name stands for. -/
theorem encoding_suffix_ignored (s : List Nat) :
    normalName (utf8 ++ 45 :: s) = .utf8 ∧ normalName (latin1 ++ 45 :: s) = .latin1
    ∧ normalName (iso88591 ++ 45 :: s) = .latin1 ∧ normalName (isoLatin1 ++ 45 :: s) = .latin1 :=
  ⟨utf8_suffix s, latin1_suffix s, iso88591_suffix s, isoLatin1_suffix s⟩

open PMV.Encoding in
/-- T16.4c: `iso-8859-1` continued by anything but a separator is a different encoding (iso-8859-10 … iso-8859-16) and is
    not taken for Latin-1: the shebang is decoded with the codec of that name. -/
theorem encoding_other_parts_kept (d : Nat) (rest : List Nat) (h1 : d ≠ 45) (h2 : d ≠ 95) :
    normalName (iso88591 ++ d :: rest) = .other (iso88591 ++ d :: rest) :=
  iso8859_part_kept d rest h1 h2

-- Non-vacuity: "UTF_8-unix", "Latin_1", "iso-8859-15", "ISO_8859_1_dos"
open PMV.Encoding in
example : normalName [85, 84, 70, 95, 56, 45, 117, 110, 105, 120] = .utf8 ∧ normalName [76, 97, 116, 105, 110, 95, 49] = .latin1
    ∧ normalName (iso88591 ++ [53]) = .other (iso88591 ++ [53])
    ∧ normalName [73, 83, 79, 95, 56, 56, 53, 57, 95, 49, 95, 100, 111, 115] = .latin1 := by decide

-- Non-vacuity: CR-terminated source
example : findShebang [35, 33, 47, 98, 13, 112, 13] = some [35, 33, 47, 98] := by decide
example : firstLine (attach true [35, 33, 47, 98, 13, 112] [112]) = [35, 33, 47, 98] := by decide

end PMV.C16

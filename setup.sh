#!/bin/sh
# Offline setup after a fresh restore: regenerate tables from /repo, build the Lean library
# (all property modules) and link the model driver. No network, no elan, no Mathlib require.
set -e
HERE="$(cd "$(dirname "$0")" && pwd)"
cd "$HERE"
/venv/bin/python tools/extract.py || echo "setup: extraction reported errors (checks will report them)"
cd lean
lake build PMV pmv-driver

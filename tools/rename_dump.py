"""Run the real pipeline up to (not including) `rename`, dump the binding structures for the Lean
NameAssigner model, then run the real `rename` and report the names it chose.

The dump re-derives, from the data the scope analysis left on the tree (`.namespace` pointers,
binding reference lists), what the *documented* algorithm needs: the namespace chain of every
reference (reservation scope), the reference kinds (cost model), and the in-place rule for
parameters.  These re-derivations are part of the trusted translator."""
import ast

import python_minifier.ast_compat as mast
from python_minifier.ast_annotation import add_parent
from python_minifier.rename import (add_namespace, allow_rename_globals, allow_rename_locals, bind_names, rename,
                                    rename_literals, resolve_names)
from python_minifier.rename.binding import BuiltinBinding, NameBinding
from python_minifier.rename.renamer import all_bindings
from sexp import enc_str, lst


def documented_in_place(node):
    """May this parameter be renamed in the signature? (docs: first parameter of an undecorated or
    @classmethod method, *args / **kwargs, positional-only parameters.)"""
    func = node.namespace
    if isinstance(func, ast.comprehension):
        return True
    args = func.args
    if isinstance(getattr(func, 'namespace', None), ast.ClassDef) and not isinstance(func, ast.Lambda):
        allargs = list(getattr(args, 'posonlyargs', [])) + args.args
        if allargs and node is allargs[0]:
            decs = func.decorator_list
            if len(decs) == 0:
                return True
            if len(decs) == 1 and isinstance(decs[0], ast.Name) and decs[0].id == 'classmethod':
                return True
    if args.vararg is node or args.kwarg is node:
        return True
    if node in getattr(args, 'posonlyargs', []):
        return True
    return False


def prepare(src, rename_locals, rename_globals, hoist_literals, preserve_locals=(), preserve_globals=()):
    module = ast.parse(src)
    add_parent(module)
    add_namespace(module)
    bind_names(module)
    resolve_names(module)
    if module.tainted:
        rename_locals = rename_globals = False
    pl = list(preserve_locals) + list(module.preserved)
    pg = list(preserve_globals) + list(module.preserved)
    allow_rename_locals(module, rename_locals, pl)
    allow_rename_globals(module, rename_globals, pg)
    if hoist_literals:
        rename_literals(module)
    return module, pg, (not rename_globals)


def dump(module, reserved_globals, prefix_globals):
    ns_ids = {}

    def nid(n):
        if id(n) not in ns_ids:
            ns_ids[id(n)] = len(ns_ids)
        return ns_ids[id(n)]

    nid(module)
    pairs = list(all_bindings(module))
    items = []
    for namespace, b in pairs:
        refs = []
        for node in b.references:
            # chain of namespaces from the reference to the home namespace (walrus targets start at the NamedExpr)
            start = node
            parent = getattr(node, '_parent', None)
            if isinstance(parent, ast.NamedExpr) and parent.target is node:
                start = parent
            chain = []
            n = start
            guard = 0
            while n is not namespace and guard < 1000:
                chain.append(nid(n.namespace))
                n = n.namespace
                guard += 1
            if isinstance(b, (NameBinding,)):
                if isinstance(node, ast.Name):
                    kind = 'name'
                elif isinstance(node, (ast.FunctionDef, ast.AsyncFunctionDef, ast.ClassDef)):
                    kind = 'def'
                elif isinstance(node, ast.ExceptHandler):
                    kind = 'except'
                elif isinstance(node, (ast.Global, ast.Nonlocal)):
                    kind = '(decl %d)' % len([x for x in node.names if x == b.name])
                elif isinstance(node, ast.alias):
                    kind = '(alias %d)' % (1 if node.asname is not None else 0)
                elif isinstance(node, ast.arguments):
                    kind = '(arguments %d %d)' % (1 if node.vararg == b.name else 0, 1 if node.kwarg == b.name else 0)
                elif isinstance(node, ast.arg):
                    kind = '(arg %d)' % (1 if documented_in_place(node) else 0)
                elif isinstance(node, (ast.MatchAs, ast.MatchStar, ast.MatchMapping)):
                    kind = 'match'
                elif isinstance(node, (ast.TypeVar, ast.TypeVarTuple, ast.ParamSpec)):
                    kind = 'typeparam'
                else:
                    kind = 'name'
            else:
                kind = 'literal'
            refs.append('(%s %s)' % (kind, lst([str(c) for c in chain])))
        if isinstance(b, BuiltinBinding):
            k = 'builtin'
        elif isinstance(b, NameBinding):
            k = 'name'
        else:
            k = 'hoisted'
        vlen = len(repr(b.value)) if k == 'hoisted' else 0
        # list/set/dict comprehensions are compiled inline (PEP 709): the enclosing namespaces out to the first real one
        encl = []
        n = namespace
        while isinstance(n, (ast.ListComp, ast.SetComp, ast.DictComp)):
            n = n.namespace
            encl.append(nid(n))
        items.append('(B %s %s %d %d %s %d %d %s %s)' % (
            k, 'N' if b.name is None else enc_str(b.name), vlen, 1 if b.allow_rename else 0,
            'N' if b.reserved is None else enc_str(b.reserved), nid(namespace), 1 if namespace is module else 0,
            lst([str(c) for c in encl]), lst(refs)))
    line = 'rename.assign %d %s %s' % (1 if prefix_globals else 0, lst([enc_str(x) for x in reserved_globals if isinstance(x, str)]), lst(items))
    return line, pairs


def real_names(module, pairs, reserved_globals, prefix_globals):
    before = [b.name for _n, b in pairs]
    rename(module, prefix_globals=prefix_globals, preserved_globals=reserved_globals)
    return ['%s>%s' % ('N' if o is None else o, 'N' if b.name is None else b.name) for o, (_n, b) in zip(before, pairs)]


def hoist_paths(src):
    """For every hoisted binding of the real HoistLiterals: the function-namespace path (module first) of each
    reference, and the namespace the real code placed the binding in (as small integers)."""
    from python_minifier.rename.rename_literals import HoistedBinding
    module, pg, prefix = prepare(src, False, False, True)
    ids = {}

    def nid(n):
        if id(n) not in ids:
            ids[id(n)] = len(ids)
        return ids[id(n)]

    def nearest(node):
        ns = node.namespace
        while not isinstance(ns, (ast.FunctionDef, ast.AsyncFunctionDef, ast.Module)):
            ns = ns.namespace
        return ns

    def path(node):
        p = []
        while True:
            ns = nearest(node)
            p.insert(0, nid(ns))
            if isinstance(ns, ast.Module):
                return p
            node = ns

    nid(module)
    out = []
    for _ns, b in all_bindings(module):
        if isinstance(b, HoistedBinding):
            out.append(([path(r) for r in b.references], nid(b._local_namespace)))
    return out

"""Alpha-equivalence oracle for the renaming stages (real code only; no model involved).

check(src, out) compares the input tree and the minified tree *modulo the permitted rewrites of the
renamer* (renamed identifiers, `import a` -> `import a as A`, inserted `A = <name|literal>` statements
at the head of a body, literals replaced by such aliases) and verifies, with the scoping specification
in scopes.py, that every name occurrence still refers to the corresponding binding."""
import ast

import astcmp
import scopes

BUILTIN_NAMES = set(dir(__import__('builtins')))


class Mismatch(Exception):
    pass


def home(r):
    """normalise a resolution to the scope the binding lives in ('local' and 'cell' name the same binding)."""
    if r[0] in ('local', 'cell'):
        return ('fn', r[1])
    return r


def _leading(body):
    i = 0
    for s in body:
        if (isinstance(s, ast.ImportFrom) and s.module == '__future__') or (
                isinstance(s, ast.Expr) and isinstance(s.value, ast.Constant) and isinstance(s.value.value, str)):
            i += 1
        else:
            break
    return i


def _is_alias_stmt(s):
    return (isinstance(s, ast.Assign) and len(s.targets) == 1 and isinstance(s.targets[0], ast.Name)
            and isinstance(s.value, (ast.Name, ast.Constant)))


class Comparer(object):
    def __init__(self, p_tree, q_tree):
        self.p_tree, self.q_tree = p_tree, q_tree
        self.p_root, p_occs, self.p_errors = scopes.build(p_tree)
        self.q_root, q_occs, self.q_errors = scopes.build(q_tree)
        self.p_occ = dict(((id(o.node), o.field, o.index), o) for o in p_occs)
        self.q_occ = dict(((id(o.node), o.field, o.index), o) for o in q_occs)
        self.pairs = []          # (p_occ, q_occ)
        self.aliases = []        # (q scope occ of the alias target, value node, inserted stmt)
        self.hoisted_uses = []   # (p constant node, q name node)
        self._in_class_body = {}
        self.problems = []

    # ---- structural walk
    def body(self, pb, qb, where):
        k = len(qb) - len(pb)
        if k < 0:
            raise Mismatch('%s: output body has fewer statements (%d < %d)' % (where, len(qb), len(pb)))
        i0 = _leading(qb)
        ins = qb[i0:i0 + k]
        if k > 0 and i0 < _leading(pb):
            # a docstring or __future__ import of the input now comes after an inserted statement
            raise Mismatch('%s: a statement was inserted ahead of the docstring / __future__ import' % where)
        for s in ins:
            if not _is_alias_stmt(s):
                raise Mismatch('%s: unexpected inserted statement %s' % (where, ast.dump(s)[:80]))
            self.aliases.append(s)
        rest = qb[:i0] + qb[i0 + k:]
        for a, b in zip(pb, rest):
            if where == 'ClassDef':
                # the statements that run in the class namespace: the body and the blocks of its compound statements
                stack = [a]
                while stack:
                    st = stack.pop()
                    self._in_class_body[id(st)] = True
                    if isinstance(st, (ast.FunctionDef, ast.AsyncFunctionDef, ast.ClassDef)):
                        continue
                    for fld in ('body', 'orelse', 'finalbody'):
                        stack.extend(x for x in getattr(st, fld, []) or [] if isinstance(x, ast.stmt))
                    for h in getattr(st, 'handlers', []) or []:
                        stack.extend(h.body)
                    for c in getattr(st, 'cases', []) or []:
                        stack.extend(c.body)
            self.node(a, b)

    def ident(self, pn, qn, field, index=None):
        po = self.p_occ.get((id(pn), field, index))
        qo = self.q_occ.get((id(qn), field, index))
        if po is None or qo is None:
            # not a scoped identifier (attribute name etc.): must be identical
            a = getattr(pn, field)
            b = getattr(qn, field)
            if index is not None:
                a, b = a[index], b[index]
            if a != b:
                raise Mismatch('%s.%s changed: %r -> %r' % (type(pn).__name__, field, a, b))
            return
        self.pairs.append((po, qo))

    def node(self, p, q, no_hoist=False):
        if isinstance(p, ast.Constant) and isinstance(q, ast.Name) and isinstance(q.ctx, ast.Load):
            if no_hoist == 'deep' or (no_hoist == 'shallow' and isinstance(p.value, str)) or no_hoist == 'shallow-any':
                raise Mismatch('literal %r replaced by a name where that changes the meaning (pattern / __slots__ / f-string text / literal statement)' % (p.value,))
            self.hoisted_uses.append((p, q))
            return
        if type(p) is not type(q):
            raise Mismatch('node type %s -> %s' % (type(p).__name__, type(q).__name__))
        if isinstance(p, ast.Constant):
            d = astcmp.strict_equal(p, q)
            if d:
                raise Mismatch(d)
            return
        if isinstance(p, ast.alias):
            if p.name != q.name:
                raise Mismatch('import of %r became %r' % (p.name, q.name))
            if p.name == '*':
                return
            # binding name: asname or root of dotted name
            pb = p.asname if p.asname is not None else p.name.split('.')[0]
            qb = q.asname if q.asname is not None else q.name.split('.')[0]
            po = self.p_occ.get((id(p), 'asname' if p.asname is not None else 'name', None))
            qo = self.q_occ.get((id(q), 'asname' if q.asname is not None else 'name', None))
            if po is None or qo is None:
                if pb != qb:
                    raise Mismatch('alias binding %r -> %r' % (pb, qb))
            else:
                self.pairs.append((po, qo))
            return
        for f in p._fields:
            if f in ('kind', 'type_comment', 'ctx'):
                continue
            a, b = getattr(p, f, None), getattr(q, f, None)
            if f == 'body' and isinstance(a, list) and a and isinstance(a[0], ast.stmt):
                self.body(a, b, type(p).__name__)
                continue
            if isinstance(p, (ast.Global, ast.Nonlocal)) and f == 'names':
                if len(a) != len(b):
                    raise Mismatch('global/nonlocal list length')
                for i in range(len(a)):
                    self.ident(p, q, 'names', i)
                continue
            # positions where a literal must stay a literal
            nh = 'deep' if no_hoist == 'deep' else False
            if isinstance(p, ast.match_case) and f == 'pattern':
                nh = 'deep'
            if isinstance(p, ast.JoinedStr) and f == 'values':
                nh = 'joined'
            if isinstance(p, ast.Expr) and f == 'value':
                nh = 'shallow'           # a string statement (docstring position) must stay a string
            if (isinstance(p, ast.Assign) and f == 'value' and self._in_class_body.get(id(p))
                    and any(isinstance(t, ast.Name) and t.id == '__slots__' for t in p.targets)):
                nh = 'deep'
            if (isinstance(p, (ast.AnnAssign, ast.AugAssign)) and f == 'value' and self._in_class_body.get(id(p))
                    and isinstance(p.target, ast.Name) and p.target.id == '__slots__'):
                nh = 'deep'
            if isinstance(a, ast.AST):
                if not isinstance(b, ast.AST):
                    raise Mismatch('%s.%s missing' % (type(p).__name__, f))
                self.node(a, b, nh if nh in ('deep', 'shallow') else False)
            elif isinstance(a, list):
                if not isinstance(b, list) or len(a) != len(b):
                    raise Mismatch('%s.%s list length %d -> %s' % (type(p).__name__, f, len(a), len(b) if isinstance(b, list) else b))
                for x, y in zip(a, b):
                    if isinstance(x, ast.AST):
                        # direct Constant children of a JoinedStr are literal text; FormattedValue subtrees are expressions
                        self.node(x, y, 'deep' if nh == 'deep' else ('shallow-any' if (nh == 'joined' and isinstance(x, ast.Constant)) else False))
                    elif x != y:
                        raise Mismatch('%s.%s element %r -> %r' % (type(p).__name__, f, x, y))
            elif isinstance(a, str) and f in ('id', 'name', 'arg', 'rest', 'asname'):
                self.ident(p, q, f)
            elif a != b:
                raise Mismatch('%s.%s %r -> %r' % (type(p).__name__, f, a, b))

    # ---- semantic checks
    def run(self):
        try:
            self.body(self.p_tree.body, self.q_tree.body, 'Module')
        except Mismatch as e:
            return ['structure: %s' % e]
        probs = []
        p_mod_bound = scopes.module_bound_names(self.p_root)
        # alias table of the output: (scope path, name) -> ('const', node) | ('name', id)
        alias = {}
        for s in self.aliases:
            t = s.targets[0]
            qo = self.q_occ.get((id(t), 'id', None))
            r = home(scopes.resolve(qo.scope, t.id)) if qo else None
            key = (r, t.id)
            if key in alias:
                probs.append('alias %s assigned twice in the same scope' % t.id)
            alias[key] = ('const', s.value) if isinstance(s.value, ast.Constant) else ('name', s.value.id)
        alias_names_by_scope = {}
        for (r, n), v in alias.items():
            alias_names_by_scope.setdefault(r, set()).add(n)
        # 1. every paired identifier: same kind of resolution, same home scope, consistent injective renaming per home scope
        fwd, bwd = {}, {}
        for po, qo in self.pairs:
            rp = home(scopes.resolve(po.scope, po.name))
            rq = home(scopes.resolve(qo.scope, qo.name))
            # parameter kept in the signature while the body uses an inserted alias `A = param`
            is_param = isinstance(po.node, ast.arg)
            if rp[0] == 'global' and po.name not in p_mod_bound:
                # a name the module never binds (builtin or undefined)
                a = alias.get((rq, qo.name))
                if a is not None:
                    if a != ('name', po.name):
                        probs.append('unbound name %s replaced by %s which is bound to %r' % (po.name, qo.name, a))
                    continue
                if qo.name != po.name:
                    probs.append('unbound/builtin name %s renamed to %s without an alias assignment' % (po.name, qo.name))
                elif rq != rp:
                    probs.append('free name %s is captured in the output: resolves to %r' % (po.name, rq))
                continue
            if rp != rq:
                # allowed: same scope, but the output name is an inserted alias of the parameter (arg re-binding)
                probs.append('%s (%r) -> %s (%r): resolution changed' % (po.name, rp, qo.name, rq))
                continue
            if is_param and qo.name == po.name:
                # the signature keeps the name; body occurrences may use an alias
                a_names = [n for (r, n), v in alias.items() if r == rq and v == ('name', po.name)]
                if a_names:
                    continue
            key = (rp, po.name)
            a = alias.get((rq, qo.name))
            if a is not None and a == ('name', po.name) and rq == rp:
                # body occurrence renamed to the alias of the parameter
                fwd.setdefault(key, set()).add(qo.name)
                bwd.setdefault((rq, qo.name), set()).add(po.name)
                continue
            if a is not None:
                probs.append('binding %s is spelled %s in the output, which is also an inserted alias for %r' % (po.name, qo.name, a[1] if a[0] == 'name' else a[1].value))
                continue
            fwd.setdefault(key, set()).add(qo.name)
            bwd.setdefault((rq, qo.name), set()).add(po.name)
        for key, names in fwd.items():
            if len(names) > 1:
                probs.append('binding %s in %r is spelled %s in the output' % (key[1], key[0], sorted(names)))
        for key, names in bwd.items():
            if len(names) > 1:
                probs.append('distinct bindings %s in %r share the output name %s' % (sorted(names), key[0], key[1]))
        # 2. hoisted literals: the name must be an alias bound exactly once to an identical constant, visible from the use
        for pc, qn in self.hoisted_uses:
            qo = self.q_occ.get((id(qn), 'id', None))
            rq = home(scopes.resolve(qo.scope, qn.id))
            a = alias.get((rq, qn.id))
            if a is None or a[0] != 'const':
                probs.append('literal %r replaced by name %s which is not an inserted constant alias (%r)' % (pc.value, qn.id, a))
            elif astcmp.strict_equal(pc, a[1]):
                probs.append('literal %r replaced by alias %s = %r' % (pc.value, qn.id, a[1].value))
        # 3. aliases are fresh: never rebound, never deleted, never collide with a name of the input visible there
        q_bind_counts = {}
        for (k, o) in self.q_occ.items():
            if o.ctx == 'bind':
                r = home(scopes.resolve(o.scope, o.name))
                q_bind_counts[(r, o.name)] = q_bind_counts.get((r, o.name), 0) + 1
        for (r, n), v in alias.items():
            # literal aliases and builtin aliases must be single-assignment; a re-bound parameter may be assigned again
            single = v[0] == 'const' or (v[0] == 'name' and r == ('global', ()) and v[1] not in p_mod_bound)
            if single and q_bind_counts.get((r, n), 0) != 1:
                probs.append('alias %s is bound %d times in its scope' % (n, q_bind_counts.get((r, n), 0)))
        return probs


def _documented_in_place(arg_node, func):
    args = func.args
    allargs = list(getattr(args, 'posonlyargs', [])) + args.args
    if isinstance(func, ast.Lambda):
        pass
    elif getattr(func, '_pmv_in_class', False) and allargs and arg_node is allargs[0]:
        decs = func.decorator_list
        if len(decs) == 0 or (len(decs) == 1 and isinstance(decs[0], ast.Name) and decs[0].id == 'classmethod'):
            return True
    if args.vararg is arg_node or args.kwarg is arg_node:
        return True
    if arg_node in getattr(args, 'posonlyargs', []):
        return True
    return False


def interface_problems(src, out, rename_globals):
    """C04: names through which other code reaches into the module keep their spelling."""
    try:
        p, q = ast.parse(src), ast.parse(out)
    except (SyntaxError, ValueError):
        return []
    c = Comparer(p, q)
    try:
        c.body(p.body, q.body, 'Module')
    except Mismatch as e:
        return ['structure: %s' % e]
    except RecursionError:
        return []
    probs = []
    # which functions are methods: their enclosing scope is a class body (also when nested in if/with/try there)
    def mark(node, in_class):
        for ch in ast.iter_child_nodes(node):
            if isinstance(ch, (ast.FunctionDef, ast.AsyncFunctionDef)):
                ch._pmv_in_class = in_class
                mark(ch, False)
            elif isinstance(ch, ast.ClassDef):
                mark(ch, True)
            elif isinstance(ch, ast.Lambda):
                mark(ch, False)
            else:
                mark(ch, in_class)
    mark(p, False)
    owner = {}
    for n in ast.walk(p):
        if isinstance(n, (ast.FunctionDef, ast.AsyncFunctionDef, ast.Lambda)):
            a = n.args
            for x in list(getattr(a, 'posonlyargs', [])) + a.args + a.kwonlyargs + [y for y in (a.vararg, a.kwarg) if y]:
                owner[id(x)] = n
    p_mod_bound = scopes.module_bound_names(c.p_root)
    for po, qo in c.pairs:
        if po.name == qo.name:
            continue
        r = scopes.resolve(po.scope, po.name)
        if po.name.startswith('__') and po.name.endswith('__'):
            probs.append('double-underscore name %s renamed to %s' % (po.name, qo.name))
        elif r[0] == 'class':
            probs.append('name %s bound in a class body renamed to %s' % (po.name, qo.name))
        elif isinstance(po.node, ast.arg) and po.field == 'arg':
            f = owner.get(id(po.node))
            if f is not None and not _documented_in_place(po.node, f):
                probs.append('keyword-passable parameter %s renamed to %s in the signature' % (po.name, qo.name))
        elif r[0] == 'global' and po.name not in p_mod_bound:
            al = [s for s in c.aliases if s.targets[0].id == qo.name and isinstance(s.value, ast.Name) and s.value.id == po.name]
            if not al:
                probs.append('name %s, used but never bound, renamed to %s' % (po.name, qo.name))
        elif r[0] == 'global' and not rename_globals:
            probs.append('module-level name %s renamed to %s although rename_globals is off' % (po.name, qo.name))
    q_mod_bound = scopes.module_bound_names(c.q_root)
    if not rename_globals:
        for n in sorted(p_mod_bound - q_mod_bound):
            probs.append('module-level name %s disappeared' % n)
        for n in sorted(q_mod_bound - p_mod_bound):
            if not n.startswith('_'):
                probs.append('new module-level name %s does not start with an underscore' % n)
    return probs


def preserved_problems(src, out, names, which):
    """C10: every occurrence of a listed name bound in a function scope (locals) / at module level (globals) keeps its spelling."""
    try:
        p, q = ast.parse(src), ast.parse(out)
    except (SyntaxError, ValueError):
        return []
    c = Comparer(p, q)
    try:
        c.body(p.body, q.body, 'Module')
    except Mismatch as e:
        return ['structure: %s' % e]
    except RecursionError:
        return []
    probs = []
    for po, qo in c.pairs:
        if po.name in names and po.name != qo.name:
            r = home(scopes.resolve(po.scope, po.name))
            is_global = r[0] == 'global'
            if (which == 'globals' and is_global) or (which == 'locals' and not is_global):
                probs.append('preserved name %s renamed to %s' % (po.name, qo.name))
    return probs


def check(src, out):
    """Returns a list of problems (empty = alpha-equivalent modulo permitted rewrites)."""
    try:
        p = ast.parse(src)
    except (SyntaxError, ValueError):
        return []
    try:
        q = ast.parse(out)
        compile(out, '<minified>', 'exec', dont_inherit=True)
    except (SyntaxError, ValueError) as e:
        return ['output does not compile: %s: %s' % (e.__class__.__name__, str(e)[:120])]
    try:
        problems = Comparer(p, q).run()
    except RecursionError:
        return []
    # the running interpreter's deviation from the language's comprehension scoping (PEP 709 inlining, CPython 3.12): a name
    # chosen for a comprehension variable must not be captured by a sibling nested scope unless the source already had that
    try:
        before = scopes.pep709_captures(scopes.build(p)[0])
        after = scopes.pep709_captures(scopes.build(q)[0])
        if len(after) > len(before):
            problems = problems + ['PEP 709: the minified names make a nested scope read an inlined comprehension variable %r (the source has %d such captures, the output %d)' % (
                sorted(after)[:3], len(before), len(after))]
    except RecursionError:
        pass
    return problems

"""collect seeded changes from worktrees /tmp/wt-<id> into /verif/seeded/<id>: checks that the worktree's diff is patch.diff and
that the demonstration shows the violation with the patch and none without it"""
import json, os, shutil, subprocess, sys
ids = sys.argv[1:]
for sid in ids:
    wt = '/tmp/wt-' + sid
    seed = os.path.join(wt, '_seed')
    if not os.path.isfile(os.path.join(seed, 'patch.diff')):
        print(sid, 'no patch.diff'); continue
    diff = subprocess.run(['git', '-C', wt, 'diff'], capture_output=True, text=True).stdout
    same = diff.strip() == open(os.path.join(seed, 'patch.diff')).read().strip()
    env = dict(os.environ, PYTHONPATH=wt + '/src')
    def demo():
        r = subprocess.run(['/venv/bin/python', os.path.join(seed, 'demonstration.py')], capture_output=True, text=True, env=env, cwd=wt, timeout=600)
        return r.returncode, [l for l in r.stdout.splitlines() if l.startswith(('VIOLATION SHOWN', 'NO VIOLATION'))]
    with_patch = demo()
    subprocess.run(['git', '-C', wt, 'apply', '-R', os.path.join(seed, 'patch.diff')], check=True)
    try:
        without = demo()
    finally:
        subprocess.run(['git', '-C', wt, 'apply', os.path.join(seed, 'patch.diff')], check=True)
    ok = same and with_patch[1] and with_patch[1][0].startswith('VIOLATION SHOWN') and without[1] and without[1][0].startswith('NO VIOLATION')
    print(sid, 'diff==patch' if same else 'DIFF DIFFERS', with_patch[0], [l[:60] for l in with_patch[1]], without[0], [l[:40] for l in without[1]], 'OK' if ok else 'CHECK')
    if ok:
        dst = '/verif/seeded/' + sid
        os.makedirs(dst, exist_ok=True)
        for f in ('patch.diff', 'demonstration.py', 'meta.json'):
            shutil.copy(os.path.join(seed, f), os.path.join(dst, f))

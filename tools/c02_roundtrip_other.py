"""Run under another interpreter (PYTHONPATH=/repo/src): strict round trip of corpus files and a fixed
list of snippets through python_minifier.unparse. Prints FAIL\t<repr source>\t<why> lines and DONE."""
import ast
import glob
import os
import sys

sys.path.insert(0, os.path.dirname(os.path.abspath(__file__)))
import astcmp  # noqa: E402

import python_minifier  # noqa: E402

SNIPPETS = ['x = (a-b)**-(1 if c else 2)', 'x = a if b else c if d else e', 'x = [i for i in (a if b else c)]', 'x = a < (b < c)',
            'x = (1).real', 'x = 1e16; y = 100.0; z = 1e-7', 'x = -a**b; y = (-a)**b', 'x = a or (b or c)', 'x = not (a and b)',
            'def f(a, /, b=1, *c, d, **e): return (yield)', 'x = f(a for a in b)', 'x = {**a, **(b or c)}', 'x = [*a, *(b or c)]',
            'with a as b, c: pass', 'x = lambda: (yield)', 'x = 0xffffffffffff; y = 10**20', "x = 'a' 'b'; y = b'\\xff'"]
n = fails = 0
srcs = list(SNIPPETS)
for f in sorted(glob.glob(os.path.join(os.environ.get('PMV_CORPUS', ''), '*.py'))):
    try:
        srcs.append(open(f, encoding='utf-8').read())
    except Exception:
        pass
for src in srcs:
    try:
        tree = ast.parse(src)
    except (SyntaxError, ValueError, RecursionError):
        continue
    n += 1
    try:
        text = python_minifier.unparse(tree)
        d = astcmp.strict_equal(tree, ast.parse(text))
    except RecursionError:
        continue
    except Exception as e:
        d = 'raised %s' % e.__class__.__name__
    if d:
        fails += 1
        print('FAIL\t%r\t%s' % (src[:300], d))
print('DONE\tversion=%s cases=%d fails=%d' % (sys.version.split()[0], n, fails))

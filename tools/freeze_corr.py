"""allow_rename_locals / allow_rename_globals (rename/util.py) against their Lean model (PMV.Freeze; theorems T09.3, T10.4)."""
import ast
import sexp


def analysed(src):
    from python_minifier.ast_annotation import add_parent
    from python_minifier.rename import add_namespace, bind_names, resolve_names
    m = ast.parse(src)
    add_parent(m)
    add_namespace(m)
    bind_names(m)
    resolve_names(m)
    return m


def dump(module):
    """→ (tree as S-expression, [binding objects by identity number], encoded module bindings)"""
    from python_minifier.rename.util import is_namespace
    order, index = [], {}

    def bid(b):
        if id(b) not in index:
            index[id(b)] = len(order)
            order.append(b)
        return index[id(b)]

    def enc_b(b):
        i = bid(b)
        return '(%d %s)' % (i, sexp.enc_str(b.name)) if isinstance(b.name, str) else '(%d)' % i

    def node(n):
        isns = bool(is_namespace(n))
        bs = [enc_b(b) for b in n.bindings] if isns else []
        return '(%d %d %s %s)' % (isns, isinstance(n, ast.Module), sexp.lst(bs), sexp.lst([node(c) for c in ast.iter_child_nodes(n)]))
    tree = node(module)
    return tree, order, sexp.lst([enc_b(b) for b in module.bindings])


def requests_for(src, rl, pl, rg, pg):
    """the two driver requests for one program and one configuration, with what the real functions did"""
    from python_minifier.rename.util import allow_rename_locals, allow_rename_globals, find__all__, is_only_declared
    m = analysed(src)
    tree, order, modb = dump(m)
    before = [b.allow_rename for b in order]
    allow_rename_locals(m, rl, list(pl))
    after_l = [b.allow_rename for b in order]
    real_l = sorted(i for i in range(len(order)) if before[i] and not after_l[i])
    already = [i for i in range(len(order)) if not before[i]]
    ex = list(find__all__(m))
    od = [i for i, b in enumerate(order) if any(b is mb for mb in m.bindings) and is_only_declared(b)]
    allow_rename_globals(m, rg, list(pg))
    after_g = [b.allow_rename for b in order]
    real_g = sorted(i for i in range(len(order)) if after_l[i] and not after_g[i])
    names = lambda xs: sexp.lst([sexp.enc_str(x) for x in xs])
    req_l = 'freeze.locals %d %s %s' % (rl, names(pl), tree)
    req_g = 'freeze.globals %d %s %s %s %s' % (rg, names(pg), names(ex), sexp.lst([str(i) for i in od]), modb)
    return req_l, req_g, real_l, real_g, set(already), set(i for i in range(len(order)) if not after_l[i]), len(order)

"""run the pinned baseline test command in a worktree (with its own src on PYTHONPATH) and compare with BASELINE.json's stable_pass"""
import json, os, subprocess, sys
import xml.etree.ElementTree as ET
wt = sys.argv[1]
out = '/tmp/scratch/junit-%s.xml' % os.path.basename(wt)
env = dict(os.environ, PYTHONPATH=wt + '/src')
env.pop('PYTHON_MINIFIER_VERIF', None)
cmd = ['/venv/bin/python', '-m', 'pytest', '-ra', '-q', '-p', 'no:cacheprovider', '--timeout=900', '--continue-on-collection-errors', '--junitxml=' + out]
p = subprocess.run(cmd, cwd=wt, env=env, stdout=subprocess.PIPE, stderr=subprocess.STDOUT, text=True)
base = json.load(open('/root/.vp/BASELINE.json'))
stable = set(base['stable_pass'])
passed = set()
for tc in ET.parse(out).getroot().iter('testcase'):
    ok = not any(c.tag in ('failure', 'error', 'skipped') for c in tc)
    if ok:
        passed.add(('%s::%s' % (tc.get('classname'), tc.get('name'))).replace(wt + '/', '/repo/'))
missing = sorted(stable - passed)
print(os.path.basename(wt), 'BASELINE', 'stable', len(stable), 'passed', len(passed), 'missing', len(missing), missing[:5], p.stdout.strip().splitlines()[-1])
os.remove(out)

"""Scope-heavy program generators for the renaming properties.

exhaustive(): every combination of an outer scope, a binding form for `target_name`, and a reference
position (possibly inside a nested scope), with and without a colliding module-level name.
random_programs(): tools/gen.py modules over a pool of long, colliding identifiers."""
import ast
import itertools

import gen

LONG_NAMES = ['target_name', 'other_name', 'third_name', 'value_item', 'target_name', 'print', 'len', 'ValueError', 'self', 'cls',
              'args', 'kwargs', 'result_value', 'A', 'B', '_A', 'C', 'object', 'isinstance', 'str']

# binding forms for `target_name` inside a body (each a list of lines)
BINDS = {
    'assign': ['target_name = other_name'],
    'augassign': ['target_name = 1', 'target_name += 2'],
    'annassign': ['target_name: int = 3'],
    'annassign_novalue': ['target_name: int'],
    'for': ['for target_name in range(3):', '    pass'],
    'with': ['with open(other_name) as target_name:', '    pass'],
    'except': ['try:', '    pass', 'except ValueError as target_name:', '    pass'],
    'import': ['import target_name'],
    'import_as': ['import os.path as target_name'],
    'from_import': ['from os import target_name'],
    'from_import_as': ['from os import path as target_name'],
    'def': ['def target_name():', '    return 1'],
    'class': ['class target_name:', '    pass'],
    'walrus': ['if (target_name := other_name):', '    pass'],
    'tuple': ['(target_name, value_item) = other_name'],
    'star': ['[*target_name, value_item] = other_name'],
    'match_as': ['match other_name:', '    case [1, 2] as target_name:', '        pass', '    case {"k": 1, **value_item}:', '        pass',
                 '    case [value_item, *third_name]:', '        pass'],
    'global_assign': ['global target_name', 'target_name = 5'],
    'comp_walrus': ['value_item = [(target_name := item_var) for item_var in range(3)]'],
    'comp_walrus_nested': ['value_item = [[(target_name := item_var) for item_var in row_var] for row_var in [[1], [2]]]'],
    'comp_walrus_cond': ['value_item = [item_var for row_var in [[1]] for item_var in row_var if (target_name := item_var)]'],
    'genexp_walrus_nested': ['value_item = list({(target_name := item_var) for item_var in row_var} for row_var in [[1]])'],
    'del': ['target_name = 1', 'del target_name'],
    'none': [],
}

# reference constructs using `target_name` (lines, relative indentation)
REFS = {
    'same': ['print(target_name, target_name)'],
    'nested_def': ['def inner_function(inner_param):', '    return target_name + inner_param', 'inner_function(1)'],
    'nested_def_nonlocal': ['def inner_function():', '    nonlocal target_name', '    target_name = 7', '    return target_name'],
    'nested_def_global': ['def inner_function():', '    global target_name', '    target_name = 7', '    return target_name'],
    'nested_def_rebind': ['def inner_function():', '    target_name = 7', '    return target_name'],
    'nested_lambda': ['inner_lambda = lambda lambda_param: target_name + lambda_param'],
    'lambda_default': ['inner_lambda = lambda lambda_param=target_name: lambda_param'],
    'nested_class': ['class InnerClass:', '    attribute_one = target_name', '    def method_one(self, method_param):',
                     '        return target_name, method_param, self.attribute_one'],
    'nested_class_rebind': ['class InnerClass:', '    result_value = target_name', '    target_name = 2'],
    'listcomp': ['result_value = [target_name + comp_var for comp_var in range(3) if target_name]'],
    'listcomp_iter': ['result_value = [comp_var for comp_var in target_name]'],
    'listcomp_shadow': ['result_value = [target_name for target_name in range(3)]'],
    'genexp_nested': ['result_value = list((target_name, comp_var, other_var) for comp_var in range(2) for other_var in range(comp_var))'],
    'dictcomp': ['result_value = {comp_key: target_name for comp_key in range(2)}'],
    'comp_walrus_use': ['result_value = [(walrus_var := comp_var + target_name) for comp_var in range(3)]', 'print(walrus_var)'],
    'default_arg': ['def inner_function(inner_param=target_name):', '    return inner_param'],
    'default_arg_rebind': ['def inner_function(inner_param=target_name):', '    target_name = 7', '    return inner_param, target_name, target_name'],
    'kwonly_default': ['def inner_function(*, inner_param=target_name):', '    return inner_param'],
    'kwonly_default_rebind': ['def inner_function(first_param=1, *, inner_param=target_name, other_param=target_name):', '    target_name = first_param * 2',
                              '    return inner_param, other_param, target_name, target_name'],
    'lambda_kwonly_default': ['inner_lambda = lambda *, lambda_param=target_name: lambda_param'],
    'annotation_rebind': ['def inner_function(inner_param: target_name = None, *rest: target_name, **more: target_name) -> target_name:', '    target_name = 7', '    return target_name'],
    'decorator_rebind': ['@target_name', 'def inner_function():', '    target_name = 7', '    return target_name'],
    'class_base': ['class InnerClass(target_name, metaclass=target_name):', '    target_name = 2'],
    'decorator': ['@target_name', 'def inner_function():', '    pass'],
    'annotation': ['def inner_function(inner_param: target_name) -> target_name:', '    return inner_param'],
    'base_class': ['class InnerClass(target_name):', '    pass'],
    'keyword_call': ['print(target_name=target_name, end=other_name)'],
    'attribute': ['print(other_name.target_name, target_name.other_name)'],
    'fstring': ["print(f'{target_name!r:>{value_item}}')"],
    'method_args': ['class InnerClass:', '    def method_one(self, target_name, *args, **kwargs):', '        return self, target_name, args, kwargs',
                    '    @classmethod', '    def method_two(cls, target_name):', '        return cls, target_name',
                    '    @staticmethod', '    def method_three(target_name, /, other_name):', '        return target_name, other_name'],
    'try_except_use': ['try:', '    pass', 'except target_name:', '    pass'],
    'builtins': ['print(len(other_name), len(value_item), len(target_name), isinstance(target_name, str), isinstance(other_name, str))'],
    'literals': ["print('a long literal string', 'a long literal string', 'a long literal string', target_name)"],
}

OUTERS = {
    'module': '{body}',
    'def': 'def outer_function(outer_param, other_name=1):\n{ibody}\n    return outer_param\n',
    'async_def': 'async def outer_function(outer_param, other_name=1):\n{ibody}\n    return outer_param\n',
    'class': 'class OuterClass:\n{ibody}\n',
    'def_in_def': 'def outermost(value_item):\n    def outer_function(outer_param, other_name=1):\n{iibody}\n        return outer_param\n    return outer_function\n',
    'method': 'class OuterClass:\n    def outer_method(self, outer_param, other_name=1):\n{iibody}\n        return outer_param\n',
}


def _indent(lines, n):
    return '\n'.join(' ' * n + l for l in lines)


def exhaustive(full=True):
    out = []
    outers = OUTERS if full else dict((k, OUTERS[k]) for k in ('module', 'def', 'class', 'method'))
    for (on, ot), (bn, bl), (rn, rl) in itertools.product(sorted(outers.items()), sorted(BINDS.items()), sorted(REFS.items())):
        for collide in (False, True):
            lines = bl + rl
            if not lines:
                continue
            body = ot.format(body=_indent(lines, 0), ibody=_indent(lines, 4), iibody=_indent(lines, 8))
            prelude = 'other_name = 0\nvalue_item = [1]\n'
            if collide:
                prelude += 'target_name = 100\nprint(target_name)\n'
            src = prelude + body + '\n'
            try:
                compile(src, '<scopegen>', 'exec', dont_inherit=True)
            except (SyntaxError, ValueError):
                continue
            out.append(('%s/%s/%s/%s' % (on, bn, rn, 'collide' if collide else 'free'), src))
    return out


def random_programs(rng, n, depth=3):
    old = gen.NAMES
    gen.NAMES = LONG_NAMES
    out = []
    try:
        tries = 0
        while len(out) < n and tries < n * 4:
            tries += 1
            r = gen.normalise(gen.gen_module(rng, depth))
            if r is not None:
                out.append(('rnd%d' % len(out), r[0]))
    finally:
        gen.NAMES = old
    return out


def sibling_comprehension_programs():
    """A variable of an outer function (or a global) read from a nested scope of a function that also contains a comprehension:
    the comprehension variable and the outer variable are distinct bindings in sibling scopes, which is where name reuse
    happens (and where CPython 3.12's comprehension inlining changes what the nested scope sees)."""
    out = []
    outers = {
        'local': 'def outer_function():\n    outer_value = 7\n{B}\n    return inner_function()\nprint(outer_function())\n',
        'param': 'def outer_function(outer_value=7, second_value=8):\n{B}\n    return inner_function()\nprint(outer_function())\n',
        'global': 'outer_value = 7\ndef outer_function():\n{B}\n    return inner_function()\nprint(outer_function())\n',
    }
    readers = {
        'lambda': 'reader = lambda: outer_value',
        'def': 'def reader():\n    return outer_value',
        'genexp': 'reader = lambda: list(outer_value for unused_item in range(1))',
        'deep': 'def reader():\n    def deeper():\n        return outer_value\n    return deeper()',
        'lambda-default': 'reader = lambda extra=1: outer_value + extra',
    }
    comps = {
        'list': 'collected = [loop_item for loop_item in range(2)]',
        'set': 'collected = {loop_item for loop_item in range(2)}',
        'dict': 'collected = {loop_item: other_item for loop_item, other_item in [(1, 2)]}',
        'nested': 'collected = [[loop_item for loop_item in range(2)] for outer_item in range(1)]',
        'genexp': 'collected = list(loop_item for loop_item in range(2))',
        'two': 'collected = [loop_item for loop_item in range(2)]\nmore = [third_item for third_item in range(3) if third_item]',
        'lambda-inside': 'collected = [(lambda: loop_item)() for loop_item in range(2)]',
    }
    for ok, otmpl in sorted(outers.items()):
        for rk, rd in sorted(readers.items()):
            for ck, cp in sorted(comps.items()):
                for order in ('comp-first', 'reader-first'):
                    parts = [cp, rd] if order == 'comp-first' else [rd, cp]
                    inner = 'def inner_function():\n' + '\n'.join('    ' + l for p in parts for l in p.split('\n')) + '\n    return reader(), collected'
                    body = '\n'.join('    ' + l for l in inner.split('\n'))
                    out.append(('sibling/%s/%s/%s/%s' % (ok, rk, ck, order), otmpl.replace('{B}', body)))
    return out


def declaration_programs():
    """`global` / `nonlocal` statements that declare several names at once, where some of the declared names are spelled like
    the names the generator hands out (A, B, C, ...) so that one binding is renamed *onto* the old spelling of another."""
    out = []
    pools = [('A', 'B'), ('B', 'A'), ('A', 'B', 'C'), ('C', 'A', 'B'), ('B', 'C', 'A'), ('A', 'long_name'), ('long_name', 'A'),
             ('first_long', 'second_long'), ('A', 'B', 'long_name'), ('long_name', 'B', 'A'), ('D', 'A'), ('_A', 'A')]
    for names in pools:
        for extra in (0, 1, 3):                       # how often an unrelated, frequently used global is mentioned
            for style in ('global', 'nonlocal', 'global-twice', 'global-split', 'global-unbound'):
                uses = ' + '.join(['frequent_value'] * (extra + 1))
                body = []
                for i, n in enumerate(names):
                    prev = names[i - 1] if i else 'frequent_value'
                    body.append('%s = %s + %s' % (n, prev, uses if i == 0 else prev))
                if style == 'global':
                    src = 'frequent_value = 1\n' + ''.join('%s = %d\n' % (n, i + 2) for i, n in enumerate(names))
                    src += 'def update():\n    global %s\n' % ', '.join(names) + ''.join('    %s\n' % l for l in body)
                    src += 'update()\nprint(frequent_value, %s)\n' % ', '.join(names)
                elif style == 'global-twice':
                    src = 'frequent_value = 1\n' + ''.join('%s = %d\n' % (n, i + 2) for i, n in enumerate(names))
                    src += 'def update():\n    global %s\n' % ', '.join(names) + ''.join('    %s\n' % l for l in body)
                    src += 'def again():\n    global %s\n' % ', '.join(reversed(names)) + ''.join('    %s\n' % l for l in body[:1])
                    src += 'update()\nagain()\nprint(frequent_value, %s)\n' % ', '.join(names)
                elif style == 'global-unbound':
                    # declared global and only read: the module never binds these names (they are set from outside, or builtins)
                    src = 'frequent_value = 1\ndef read_all():\n    global %s\n    return [frequent_value, %s]\n' % (', '.join(names), ', '.join(n + ' + ' + n for n in names))
                elif style == 'global-split':
                    src = 'frequent_value = 1\n' + ''.join('%s = %d\n' % (n, i + 2) for i, n in enumerate(names))
                    src += 'def update():\n    global %s\n    global %s\n' % (names[0], ', '.join(names[1:])) + ''.join('    %s\n' % l for l in body)
                    src += 'update()\nprint(frequent_value, %s)\n' % ', '.join(names)
                else:
                    src = 'def outer_function():\n    frequent_value = 1\n' + ''.join('    %s = %d\n' % (n, i + 2) for i, n in enumerate(names))
                    src += '    def update():\n        nonlocal %s\n' % ', '.join(names) + ''.join('        %s\n' % l for l in body)
                    src += '    update()\n    return frequent_value, %s\nprint(outer_function())\n' % ', '.join(names)
                out.append(('decl/%s/%s/%d' % (style, '-'.join(names), extra), src))
    return out


SHORT_MAP = {'target_name': 'A', 'other_name': 'B', 'value_item': 'C', 'third_name': 'D', 'inner_function': 'E', 'result_value': 'F', 'inner_param': 'G',
             'comp_var': 'H', 'outer_value': 'A', 'loop_item': 'B', 'reader': 'C', 'collected': 'D', 'inner_lambda': 'I', 'item_var': 'J'}


def short_named(progs, variants=2):
    """The same programs with their identifiers spelled like the names the generator hands out first (golfed or already
    minified code): a binding that keeps its name now competes with new names of the same spelling."""
    import re
    out = []
    keys = sorted(SHORT_MAP, key=len, reverse=True)
    pat = re.compile(r'\b(' + '|'.join(keys) + r')\b')
    for ident, src in progs:
        for v in range(variants):
            if v == 0:
                m = SHORT_MAP
            else:       # rotate the letters so that the first-assigned generated name belongs to a different identifier
                letters = sorted(set(SHORT_MAP.values()))
                rot = dict(zip(letters, letters[v:] + letters[:v]))
                m = dict((k, rot[x]) for k, x in SHORT_MAP.items())
            new = pat.sub(lambda mo: m[mo.group(1)], src)
            try:
                compile(new, '<short>', 'exec', dont_inherit=True)
            except (SyntaxError, ValueError):
                continue
            out.append(('short%d/%s' % (v, ident), new))
    return out


def import_programs():
    """imports bound in inner scopes and read from scopes nested further in (an import keeps its name unless `as` pays off)"""
    out = []
    for mod in ('A', 'B', 'os', 'long_module_name'):
        for reader in ('list(%s.conv(item) + item * item for item in items)', '[%s.conv(item) for item in items if item]',
                       '(lambda item: %s.conv(item) + item + item)(items)', 'inner(items)'):
            for extra in ('', 'other = items\n    '):
                body = 'def convert(items):\n    import %s\n    %s' % (mod, extra)
                if reader == 'inner(items)':
                    body += 'def inner(item):\n        return %s.conv(item) + item * item\n    ' % mod
                body += 'return ' + (reader % mod if '%s' in reader else reader) + '\n'
                out.append(('import/%s/%s/%d' % (mod, reader[:8], len(extra)), body))
                out.append(('import-from/%s/%s/%d' % (mod, reader[:8], len(extra)), body.replace('import %s\n' % mod, 'from pkg import %s\n' % mod)))
    return out


# every kind of binding the renamer can rewrite, in one module: under a taint trigger none of them may move
EVERY_BINDING = '''import os.path as path_module, collections
from itertools import chain as chain_function
module_value = 1
def plain_function(first_param, second_param=2, /, third_param=3, *rest_params, keyword_param=4, **other_params):
    local_value = first_param + second_param + third_param + keyword_param + len(rest_params) + len(other_params)
    def inner_function(inner_param):
        nonlocal local_value
        local_value = local_value + inner_param
        return local_value
    class LocalClass:
        class_attribute = local_value
        def method(self, method_param, *method_rest, **method_others):
            return self, method_param, method_rest, method_others
        @classmethod
        def class_method(cls, class_param, /):
            return cls, class_param
        @staticmethod
        def static_method(static_param):
            return static_param
    import json as json_module
    from os import sep as separator_value
    try:
        pass
    except ValueError as caught_error:
        raise caught_error
    with open(path_module.devnull) as opened_file, open(path_module.devnull):
        pass
    for loop_value, (other_loop_value, *more_loop_values) in []:
        pass
    if (walrus_value := inner_function(1)):
        pass
    match first_param:
        case {'key': mapped_value, **rest_mapping}:
            pass
        case [first_item, *other_items] | (first_item, other_items):
            pass
        case LocalClass(class_attribute=captured_attribute) as whole_value:
            pass
    comprehension_result = [comp_value + local_value for comp_value in rest_params if (comp_walrus := comp_value)]
    generator_result = {key_value: item_value for key_value, item_value in other_params.items()}
    star_lambda = lambda *lambda_rest, **lambda_others: (lambda_rest, lambda_others)
    posonly_lambda = lambda lambda_first, /, lambda_second=2, *, lambda_keyword=3: (lambda_first, lambda_second, lambda_keyword)
    walrus_lambda = lambda lambda_param: (lambda_walrus := lambda_param) + lambda_walrus
    nested_lambda = lambda outer_lambda_param: lambda *inner_lambda_rest: (outer_lambda_param, inner_lambda_rest)
    global module_value
    module_value = local_value
    del local_value
    return json_module, separator_value, star_lambda, posonly_lambda, walrus_lambda, nested_lambda, comprehension_result, generator_result
async def coroutine_function(awaited_param, *coroutine_rest):
    async with awaited_param as async_context:
        async for async_item in async_context:
            yield [async_comp async for async_comp in async_item]
module_lambda = lambda *module_lambda_rest, **module_lambda_others: module_lambda_rest
class ModuleClass(collections.OrderedDict):
    attribute_lambda = lambda self, *attribute_rest: attribute_rest
    def method(self, /, positional_method_param, *, keyword_method_param=None):
        return [self for self in [positional_method_param]]
'''


def class_import_programs():
    """runnable: imports in a class body — directly or inside an `if` / `try` / `with` / `for` / `while` block of it — of a class at
    module level, in a function, or in another class; the imported names are class attributes and are read often"""
    out = []
    blocks = {'direct': '{I}', 'if': 'if flag_value:\n    {I}', 'try': 'try:\n    {I}\nexcept ImportError:\n    pass', 'with': 'with context_value:\n    {I}',
              'for': 'for _ in [0]:\n    {I}', 'while': 'while True:\n    {I}\n    break', 'if-else': 'if not flag_value:\n    pass\nelse:\n    {I}',
              'try-finally': 'try:\n    pass\nfinally:\n    {I}'}
    imports = {'two-statements': 'import collections\nimport itertools', 'one-statement': 'import collections, itertools',
               'with-other-between': 'import collections\nmarker_value = 1\nimport itertools', 'dotted-and-plain': 'import os.path\nimport collections\nimport itertools',
               'as-names': 'import collections as collections\nimport itertools', 'from-imports': 'from os import path\nimport collections\nfrom os import sep\nimport itertools'}
    uses = ('counted = collections.Counter("aabc").most_common(1)\nchained = list(itertools.chain([1], [2])) + list(itertools.chain([3])) + [collections.OrderedDict().__class__.__name__]\n'
            'def method(self):\n    return self.collections.__name__, self.itertools.__name__')
    wraps = {'module': 'flag_value = True\nimport contextlib\ncontext_value = contextlib.nullcontext()\nclass Tools:\n{B}\nprint(sorted(n for n in Tools.__dict__ if not n.startswith("_")), Tools.counted, Tools.chained, Tools().method())\n',
             'function': 'import contextlib\ndef make_tools(flag_value, context_value):\n    class Tools:\n{BB}\n    return sorted(n for n in Tools.__dict__ if not n.startswith("_")), Tools.counted, Tools.chained, Tools().method()\nprint(make_tools(True, contextlib.nullcontext()))\n',
             'class': 'flag_value = True\nimport contextlib\ncontext_value = contextlib.nullcontext()\nclass Outer:\n    class Tools:\n{BB}\nprint(sorted(n for n in Outer.Tools.__dict__ if not n.startswith("_")), Outer.Tools.counted, Outer.Tools().method())\n'}
    for bk, block in sorted(blocks.items()):
        for ik, imp in sorted(imports.items()):
            inner = block.replace('{I}', imp.replace('\n', '\n' + ' ' * (block.index('{I}') - block.rfind('\n', 0, block.index('{I}')) - 1)))
            body = inner + '\n' + uses
            for wk, wrap in sorted(wraps.items()):
                src = wrap.replace('{BB}', _indent_text(body, 8)).replace('{B}', _indent_text(body, 4))
                out.append(('class-import/%s/%s/%s' % (wk, bk, ik), src))
    return out


def _indent_text(text, n):
    return '\n'.join((' ' * n + line) if line else line for line in text.split('\n'))


def parameter_programs():
    """functions whose parameters mix ordinary (keyword-callable, so never renamed in the signature) names — spelled long or like
    generated names — with parameters that are renamed in place (*args, **kwargs, positional-only, self/cls), at varying
    reference counts (the assignment order follows the counts)"""
    out = []
    ordinary = ['A', 'B', 'amount_value', '_A']
    special = [('*{n}', 'sum({n})'), ('**{n}', 'len({n})'), ('{n}, /', '{n}'), ('{n}=1, /', '{n}')]
    for o in ordinary:
        for sp, use in special:
            for nuse_o in (1, 3):
                for nuse_s in (1, 4):
                    n = 'extra_values'
                    sig = sp.format(n=n)
                    params = ('%s, %s%s' % (sig, o, '=2' if '=' in sig else '')) if '/' in sig else '%s, %s' % (o, sig)
                    expr = ' + '.join([o] * nuse_o + [use.format(n=n)] * nuse_s)
                    out.append(('param/%s/%s/%d/%d' % (o, sp, nuse_o, nuse_s), 'def total(%s):\n    return %s\n' % (params, expr)))
                    out.append(('param-method/%s/%s/%d/%d' % (o, sp, nuse_o, nuse_s),
                                'class Holder:\n    def total(self, %s):\n        return %s + self.base + self.base\n' % (params, expr)))
            out.append(('param-lambda/%s/%s' % (o, sp), 'total = lambda %s: %s\n' % (
                ('%s, %s%s' % (sp.format(n='extra_values'), o, '=2' if '=' in sp else '')) if '/' in sp else ('%s, %s' % (o, sp.format(n='extra_values'))),
                o + ' + ' + use.format(n='extra_values') + ' + ' + use.format(n='extra_values'))))
        # an ordinary parameter read from a nested scope that has busier locals of its own: the name the parameter keeps in
        # the signature must stay reserved in every scope that reads it
        nested = [('genexp', 'def total({o}, rows_value):\n    return sum(item_value * {o} + item_value + item_value for item_value in rows_value)\n'),
                  ('lambda', 'def total({o}, rows_value):\n    key_function = lambda item_value, other_value=1: item_value * {o} + item_value + item_value + other_value + other_value\n    return sorted(rows_value, key=key_function)\n'),
                  ('nested-def', 'def total({o}, count_value):\n    def inner_function(start_value):\n        running_value = start_value * {o}\n        running_value = running_value + start_value\n        return running_value + start_value + running_value\n    return inner_function(count_value)\n'),
                  ('nested-two-deep', 'def total({o}, count_value):\n    def middle_function(first_value):\n        def inner_function(second_value):\n            third_value = second_value + second_value + second_value\n            return third_value * {o} + third_value\n        return inner_function(first_value) + first_value + first_value\n    return middle_function(count_value)\n'),
                  ('method-genexp', 'class Holder:\n    def total(self, {o}, rows_value):\n        return [cell_value * {o} + cell_value + cell_value for cell_value in rows_value], list(cell_value * {o} + cell_value for cell_value in rows_value)\n')]
        for kind, template in nested:
            out.append(('param-nested/%s/%s' % (kind, o), template.format(o=o)))
        out.append(('param-two/%s' % o, 'def scale(%s, factor_value):\n    return %s * factor_value * factor_value * factor_value\n' % (o, o)))
        out.append(('param-kwonly/%s' % o, 'def scale(*values_list, %s=2):\n    return [value_item * %s for value_item in values_list] + values_list\n' % (o, o)))
    return out


def capture_programs():
    """runnable programs in which an expression is evaluated in another scope than the one it is written next to (defaults,
    annotations, decorators, base classes, the first iterable of a comprehension), in which a class body declares a name
    global / nonlocal or reads a local of the enclosing function, and the capture idiom `name=name`; with the inner and the
    outer name spelt alike, so that attaching a reference to the wrong scope changes what the program prints"""
    out = []
    for n in ('index_value', 'A', 'B'):
        d = {'n': n}
        progs = [
            ('kwonly-default', 'def make_callbacks(count_value):\n    callbacks = []\n    for %(n)s in range(count_value):\n        def callback(*, %(n)s=%(n)s):\n            return %(n)s * %(n)s + %(n)s\n        callbacks.append(callback)\n    return [each_callback() for each_callback in callbacks]\nprint(make_callbacks(3))\n'),
            ('positional-default', 'def make_callbacks(count_value):\n    callbacks = []\n    for %(n)s in range(count_value):\n        def callback(%(n)s=%(n)s):\n            return %(n)s * %(n)s + %(n)s\n        callbacks.append(callback)\n    return [each_callback() for each_callback in callbacks]\nprint(make_callbacks(3))\n'),
            ('lambda-default', 'def make_callbacks(count_value):\n    callbacks = [lambda %(n)s=%(n)s: %(n)s + %(n)s for %(n)s in range(count_value)]\n    later = []\n    for %(n)s in range(count_value):\n        later.append(lambda *, %(n)s=%(n)s: %(n)s * 3)\n    return [each_callback() for each_callback in callbacks + later]\nprint(make_callbacks(3))\n'),
            ('kwonly-default-of-parameter', 'def make_formatter(%(n)s):\n    def formatter(value_item, *, %(n)s=%(n)s, other_option=None):\n        return str(%(n)s) + str(value_item) + str(%(n)s) + str(other_option)\n    %(n)s = %(n)s + %(n)s\n    return formatter\nprint(make_formatter("<")("x"), make_formatter("[")("y", other_option=1))\n'),
            ('default-mentions-other-parameter-name', 'def outer_function(first_value, second_value):\n    def inner_function(%(n)s=first_value, *, second_value=second_value, third_value=(first_value, second_value)):\n        return %(n)s, second_value, third_value\n    first_value = second_value = None\n    return inner_function()\nprint(outer_function(1, 2))\n'),
            ('async-kwonly-default', 'import asyncio\ndef make_coroutines(count_value):\n    made = []\n    for %(n)s in range(count_value):\n        async def coroutine(*, %(n)s=%(n)s):\n            return %(n)s + %(n)s\n        made.append(coroutine)\n    return made\nprint([asyncio.run(each()) for each in make_coroutines(3)])\n'),
            ('annotation-in-enclosing-scope', 'def outer_function(%(n)s):\n    def inner_function(value_item: %(n)s = %(n)s, *, other_item: %(n)s = %(n)s) -> %(n)s:\n        %(n)s = value_item\n        return %(n)s, other_item\n    return inner_function(), inner_function.__annotations__\nprint(outer_function(int))\n'),
            ('decorator-in-enclosing-scope', 'def outer_function(%(n)s):\n    @%(n)s\n    def inner_function(%(n)s=2):\n        return %(n)s\n    return inner_function\nprint(outer_function(lambda function_value: function_value() + 1))\n'),
            ('class-global-read', '%(n)s = "module level"\ndef make_class():\n    %(n)s = "local of make_class"\n    consume = [%(n)s, %(n)s, %(n)s]\n    class Holder:\n        global %(n)s\n        seen = %(n)s\n        again = [%(n)s, %(n)s]\n    return consume, Holder.seen, Holder.again\nprint(make_class())\n'),
            ('class-global-read-two-deep', '%(n)s = "module level"\ndef make_class(%(n)s):\n    def middle_function():\n        class Holder:\n            global %(n)s\n            seen = (%(n)s, %(n)s)\n        return Holder.seen\n    return middle_function(), %(n)s, %(n)s\nprint(make_class("parameter"))\n'),
            ('class-global-assign', '%(n)s = "module level"\ndef make_class():\n    %(n)s = "local of make_class"\n    class Holder:\n        global %(n)s\n        %(n)s = "set by the class body"\n        seen = %(n)s\n    return %(n)s, %(n)s, Holder.seen\nprint(make_class(), %(n)s)\n'),
            ('class-nonlocal-read', 'def make_class():\n    %(n)s = "local of make_class"\n    class Holder:\n        nonlocal %(n)s\n        seen = [%(n)s, %(n)s]\n        %(n)s = "set by the class body"\n    return %(n)s, Holder.seen, hasattr(Holder, "%(n)s")\nprint(make_class())\n'),
            ('method-nonlocal-class-attribute', 'def make_counter():\n    %(n)s = 0\n    class Counter:\n        %(n)s = "unrelated class attribute"\n        def step(self):\n            nonlocal %(n)s\n            %(n)s += 1\n            return %(n)s\n    return Counter().step(), Counter().step(), Counter.%(n)s, %(n)s\nprint(make_counter())\n'),
            ('method-global-class-attribute', '%(n)s = 10\ndef make_counter():\n    %(n)s = 0\n    class Counter:\n        %(n)s = "unrelated class attribute"\n        def step(self):\n            global %(n)s\n            %(n)s += 1\n            return %(n)s\n    return Counter().step(), Counter().step(), Counter.%(n)s, %(n)s\nprint(make_counter(), %(n)s)\n'),
            ('method-free-read-class-attribute', 'def make_reader(%(n)s):\n    class Reader:\n        %(n)s = "unrelated class attribute"\n        def read(self):\n            return %(n)s, %(n)s, self.%(n)s\n    return Reader().read(), %(n)s\nprint(make_reader("parameter"))\n'),
            ('nested-class-reads-outer-class-name', 'def make_classes(%(n)s):\n    class Outer:\n        %(n)s = "outer class attribute"\n        class Inner:\n            seen = [%(n)s, %(n)s]\n            def read(self):\n                return %(n)s\n    return Outer.Inner.seen, Outer.Inner().read(), Outer.%(n)s, %(n)s\nprint(make_classes("parameter"))\n'),
            ('method-reads-local-shadowed-by-class-attribute', 'def make_reader(seed_value):\n    %(n)s = seed_value * 2\n    class Reader:\n        %(n)s = "unrelated class attribute"\n        def read(self):\n            return %(n)s, %(n)s, self.%(n)s\n        describe = lambda self: (%(n)s, self.%(n)s)\n    return Reader().read(), Reader().describe(), %(n)s, %(n)s\nprint(make_reader(21))\n'),
            ('method-reads-local-shadowed-by-class-def', 'def make_reader(seed_value):\n    %(n)s = seed_value * 2\n    class Reader:\n        def %(n)s(self):\n            return "method"\n        def read(self):\n            return %(n)s, %(n)s, self.%(n)s()\n    return Reader().read(), %(n)s, %(n)s\nprint(make_reader(21))\n'),
            ('property-setter-named-like-enclosing-local', 'def make_counter(%(n)s):\n    start_value = %(n)s + %(n)s + %(n)s\n    class Counter:\n        def __init__(self):\n            self._stored = start_value\n        @property\n        def %(n)s(self):\n            return self._stored\n        @%(n)s.setter\n        def %(n)s(self, new_value):\n            self._stored = new_value\n    return Counter\ndef use_counter():\n    counter_object = make_counter(2)()\n    counter_object.%(n)s = counter_object.%(n)s + 1\n    return counter_object.%(n)s, sorted(name for name in type(counter_object).__dict__ if not name.startswith("_"))\nprint(use_counter())\n'),
            ('class-def-read-again-in-class-body', 'def make_table(%(n)s):\n    scaled_value = %(n)s * %(n)s * %(n)s\n    class Table:\n        def %(n)s(self):\n            return scaled_value\n        alias_value = %(n)s\n        class %(n)s_holder:\n            pass\n        inner_alias = %(n)s_holder\n    return Table().%(n)s(), Table.alias_value is Table.%(n)s, Table.inner_alias.__name__\nprint(make_table(2))\n'),
            ('class-import-read-again-in-class-body', 'def make_tools(collections):\n    first_seen = [collections, collections, collections]\n    class Tools:\n        import collections\n        counted = collections.Counter("aab").most_common(1)\n    return Tools.counted, first_seen, Tools.collections.__name__\nprint(make_tools("outer value"))\n'),
            ('class-free-read', 'def make_class(%(n)s):\n    class Holder:\n        seen = [%(n)s, %(n)s, %(n)s]\n        def method(self):\n            return %(n)s\n    return Holder.seen, Holder().method(), %(n)s\nprint(make_class("parameter"))\n'),
            ('class-local-same-spelling', 'def make_class(%(n)s):\n    class Holder:\n        %(n)s = "class level"\n        after = %(n)s\n        def method(self):\n            return %(n)s\n    return Holder.after, Holder().method(), Holder.%(n)s\nprint(make_class("parameter"))\n'),
            ('class-bases-in-enclosing-scope', 'def make_class(%(n)s):\n    class Holder(%(n)s, metaclass=type(%(n)s)):\n        %(n)s = 1\n    return Holder.__mro__[1].__name__, Holder.%(n)s\nprint(make_class(dict))\n'),
            ('comprehension-first-iterable', 'def outer_function(%(n)s):\n    return [%(n)s * 2 for %(n)s in %(n)s], [other_item for other_item in %(n)s for %(n)s in [other_item]], %(n)s\nprint(outer_function([1, 2]))\n'),
            ('genexp-first-iterable-in-class', 'def outer_function(%(n)s):\n    class Holder:\n        %(n)s = [5, 6]\n        made = list(item_value + 1 for item_value in %(n)s)\n    return Holder.made, %(n)s\nprint(outer_function([1, 2]))\n'),
            ('walrus-in-comprehension', 'def outer_function(values_list):\n    %(n)s = 0\n    doubled = [(%(n)s := each_value * 2) for each_value in values_list]\n    return doubled, %(n)s, %(n)s\nprint(outer_function([1, 2, 3]))\n'),
            ('except-name-same-spelling', 'def outer_function(%(n)s):\n    try:\n        raise ValueError(%(n)s)\n    except ValueError as %(n)s:\n        seen = str(%(n)s) + str(%(n)s)\n    return seen\nprint(outer_function("message"))\n'),
            ('match-capture-same-spelling', 'def outer_function(%(n)s):\n    match %(n)s:\n        case [first_item, *%(n)s]:\n            return first_item, %(n)s, %(n)s\n        case {"key": %(n)s}:\n            return %(n)s\n    return %(n)s\nprint(outer_function([1, 2, 3]), outer_function({"key": 4}), outer_function(5))\n'),
        ]
        # a class body at module level reads a module global that it also binds itself: the read goes to the global
        progs += [
            ('class-augassign-global', '%(n)s = 10\nclass Registry:\n    %(n)s += 1\ndef report_value():\n    return %(n)s + %(n)s\nprint(Registry.%(n)s, report_value())\n'),
            ('class-augassign-global-in-blocks', '%(n)s = 6\nclass Registry:\n    if %(n)s:\n        %(n)s |= 9\n    for loop_item in (1, 2):\n        %(n)s *= 2\ndef report_value():\n    return %(n)s + %(n)s + %(n)s\nprint(Registry.%(n)s, report_value())\n'),
            ('class-augassign-global-only-use', '%(n)s = [1]\nclass Registry:\n    %(n)s += [2]\nprint(Registry.%(n)s, %(n)s, %(n)s, %(n)s)\n'),
            ('nested-class-augassign-global', '%(n)s = 3\nclass Outer:\n    class Inner:\n        %(n)s -= 1\n    %(n)s **= 2\ndef report_value():\n    return %(n)s, %(n)s\nprint(Outer.%(n)s, Outer.Inner.%(n)s, report_value())\n'),
            ('class-read-then-assign-global', '%(n)s = 10\nclass Registry:\n    seen_value = %(n)s\n    %(n)s = seen_value + 1\ndef report_value():\n    return %(n)s + %(n)s\nprint(Registry.%(n)s, report_value())\n'),
            ('class-annotated-assign-reads-global', '%(n)s = 10\nclass Registry:\n    %(n)s: int = %(n)s + 1\ndef report_value():\n    return %(n)s + %(n)s\nprint(Registry.%(n)s, report_value())\n'),
            ('class-augassign-in-function-class-global', '%(n)s = 5\ndef make_class():\n    class Registry:\n        %(n)s += 1\n    return Registry.%(n)s\ndef report_value():\n    return %(n)s + %(n)s\nprint(make_class(), report_value())\n'),
        ]
        for kind, template in progs:
            out.append(('capture/%s/%s' % (kind, n), template % d))
    # `import a.b` binds the root package `a`: when `a` is declared nonlocal / global where the import runs, the variable it
    # binds belongs to another scope, and `import a.b as X` would bind the submodule instead
    for root, sub, attr in (('os', 'path', 'sep'), ('importlib', 'util', 'import_module'), ('xml', 'dom', '__name__')):
        d = {'r': root, 's': sub, 'a': attr}
        out += [
            ('capture/nonlocal-dotted-import/' + root, 'def make_loader():\n    %(r)s = None\n    def ensure_loaded():\n        nonlocal %(r)s\n        if %(r)s is None:\n            import %(r)s.%(s)s\n    def describe_it(first_name):\n        ensure_loaded()\n        return %(r)s.%(s)s.__name__, %(r)s.__name__, hasattr(%(r)s, "%(a)s"), first_name\n    return describe_it\nprint(make_loader()("a"))\n' % d),
            ('capture/nonlocal-dotted-import-two-deep/' + root, 'def make_loader(%(r)s=None):\n    def middle_function():\n        def ensure_loaded():\n            nonlocal %(r)s\n            import %(r)s.%(s)s, %(r)s.%(s)s as other_alias\n            return other_alias.__name__\n        return ensure_loaded(), %(r)s.__name__, %(r)s.%(s)s.__name__\n    return middle_function(), %(r)s.__name__\nprint(make_loader())\n' % d),
            ('capture/global-dotted-import/' + root, '%(r)s = None\ndef ensure_loaded():\n    global %(r)s\n    import %(r)s.%(s)s\n    return %(r)s.__name__\ndef describe_it():\n    return ensure_loaded(), %(r)s.%(s)s.__name__, %(r)s.__name__, %(r)s.__name__\nprint(describe_it())\n' % d),
            ('capture/class-nonlocal-dotted-import/' + root, 'def make_loader():\n    %(r)s = None\n    class Loader:\n        nonlocal %(r)s\n        import %(r)s.%(s)s\n    return %(r)s.%(s)s.__name__, %(r)s.__name__, %(r)s.__name__, hasattr(Loader, "%(r)s")\nprint(make_loader())\n' % d),
        ]
    return out


def private_name_programs():
    """identifiers of the form __name inside a class are mangled to _Class__name by the compiler: inside the class they are
    different names from an outer __name, and they depend on the spelling of the class name"""
    return [
        ('private/global-vs-class', "__counter_value = 5\nclass TallyClass:\n    def read_value(self):\n        try:\n            return __counter_value\n        except NameError:\n            return 'mangled'\nprint(TallyClass().read_value())\n"),
        ('private/local-vs-class', "def outer_function():\n    __secret_value = 1\n    class BoxClass:\n        def peek_value(self):\n            try:\n                return __secret_value\n            except NameError:\n                return 'mangled'\n    return BoxClass().peek_value()\nprint(outer_function())\n"),
        ('private/class-attr', "class HolderClass:\n    __hidden_value = 3\n    def get_value(self):\n        return self.__hidden_value + HolderClass.__hidden_value\nprint(HolderClass().get_value(), HolderClass._HolderClass__hidden_value)\n"),
        ('private/param', "class HolderClass:\n    def method_one(self, __private_param, other_param):\n        __local_value = __private_param + other_param\n        return __local_value + __local_value\nprint(HolderClass().method_one(1, 2))\n"),
        ('private/nested-class', "class OuterClass:\n    __outer_private = 1\n    class InnerClass:\n        __inner_private = 2\n        def read_value(self):\n            return self.__inner_private\nprint(OuterClass.InnerClass().read_value())\n"),
        ('private/function-local-class', "def make_class():\n    class LocalClass:\n        __slot_value = 7\n        def read_value(self):\n            return self.__slot_value\n    return LocalClass\nprint(make_class()().read_value(), make_class()._LocalClass__slot_value)\n"),
    ]


def export_programs():
    """modules that declare their interface (__all__ in its various spellings) and contain literals worth hoisting, builtins
    worth aliasing and names worth renaming at module level: every name the minifier adds must stay out of the interface"""
    lit = "'a literal that is repeated'"
    out = []
    alls = ["__all__ = ['exported_function', 'EXPORTED_VALUE']", "__all__ = ['exported_function']\n__all__ += ['EXPORTED_VALUE']",
            "__all__: list = ['exported_function', 'EXPORTED_VALUE']", "__all__ = ('exported_function', 'EXPORTED_VALUE')", "__all__ = []", '',
            # several literal lists: every one of them names part of the interface (alternative branches, a later rebinding)
            "import sys\nif sys.version_info < (3, 0):\n    __all__ = ['exported_function']\nelse:\n    __all__ = ['EXPORTED_VALUE']",
            "try:\n    __all__ = ['exported_function']\nexcept NameError:\n    __all__ = ['EXPORTED_VALUE']",
            "__all__ = ['exported_function']\n__all__ = ['EXPORTED_VALUE']",
            "__all__ = ['exported_function']\nif True:\n    __all__: list = ['EXPORTED_VALUE']\n__all__ += []"]
    for a in alls:
        body = ('%s\nEXPORTED_VALUE = %s\nhidden_value = [%s, %s, %s]\n'
                'def exported_function(first_argument):\n    local_value = len(first_argument) + len(hidden_value) + len(EXPORTED_VALUE)\n    return local_value, %s, print, print\n'
                'def hidden_function():\n    return exported_function(hidden_value), %s\n') % (a, lit, lit, lit, lit, lit, lit)
        out.append(('export/%d' % len(out), body))
    return out

"""get_binding (rename/resolve_names.py) against its Lean model (PMV.Resolve.getBinding, theorem getBinding_spec)."""
import ast
import sexp


def dump_namespaces(module):
    """→ (list of namespace nodes in pre-order, encoded tree). Pre-order puts every namespace after its parent."""
    from python_minifier.rename.util import is_namespace
    nodes = []

    def walk(n):
        if is_namespace(n):
            nodes.append(n)
        for ch in ast.iter_child_nodes(n):
            walk(ch)
    walk(module)
    # a namespace's parent is node.namespace; sort so that parents come first (pre-order of the *namespace* tree)
    index = {}
    ordered = []

    def place(n):
        if id(n) in index:
            return
        if not isinstance(n, ast.Module):
            place(n.namespace)
        index[id(n)] = len(ordered)
        ordered.append(n)
    place(module)
    for n in nodes:
        place(n)
    enc = []
    for n in ordered:
        kind = ('module' if isinstance(n, ast.Module) else 'function' if isinstance(n, (ast.FunctionDef, ast.AsyncFunctionDef))
                else 'class' if isinstance(n, ast.ClassDef) else 'other')
        parent = 0 if isinstance(n, ast.Module) else index[id(n.namespace)]
        names = lambda xs: sexp.lst([sexp.enc_str(x) for x in xs])
        enc.append('(%s %d %s %s %s)' % (kind, parent, names([b.name for b in n.bindings if b.name is not None]),
                                         names(sorted(n.global_names)), names(sorted(n.nonlocal_names))))
    return ordered, index, sexp.lst(enc)


def queries_of(module, index):
    out = []
    for n in ast.walk(module):
        if isinstance(n, ast.Name) and hasattr(n, 'namespace') and id(n.namespace) in index:
            out.append((n.id, n.namespace))
    return out


def real_home(name, namespace, ordered):
    from python_minifier.rename.resolve_names import get_binding
    b = get_binding(name, namespace)
    for i, ns in enumerate(ordered):
        if any(x is b for x in ns.bindings):
            return i
    return None

"""Run the real `python_minifier.__main__.main()` in-process under controlled argv / cwd / stdin /
environment, optionally with a replaced `minify`, and report exit status, bytes written to
stdout.buffer, text written to stdout, and any escaping exception."""
import io
import os
import sys

import common

common.use_repo()


class _Buf(object):
    def __init__(self):
        self.chunks = []

    def write(self, b):
        self.chunks.append(bytes(b))
        return len(b)

    def flush(self):
        pass


class _Out(object):
    def __init__(self):
        self.buffer = _Buf()
        self.text = []

    def write(self, s):
        self.text.append(s)
        return len(s)

    def flush(self):
        pass


class _In(object):
    def __init__(self, data):
        self.buffer = io.BytesIO(data)

    def read(self):
        return self.buffer.read().decode('utf-8')


def run_cli(argv, cwd, stdin=b'', force=False, minify=None):
    import python_minifier.__main__ as m
    old = (sys.argv, sys.stdout, sys.stderr, sys.stdin, os.getcwd(), m.minify,
           os.environ.pop('PYMINIFY_FORCE_BEST_EFFORT', None))
    out, err = _Out(), _Out()
    res = {'exit': 0, 'exc': None}
    try:
        sys.argv = ['pyminify'] + list(argv)
        sys.stdout, sys.stderr, sys.stdin = out, err, _In(stdin)
        os.chdir(cwd)
        if force:
            os.environ['PYMINIFY_FORCE_BEST_EFFORT'] = '1'
        if minify is not None:
            m.minify = minify
        try:
            m.main()
        except SystemExit as e:
            code = e.code
            res['exit'] = code if isinstance(code, int) else (0 if code is None else 1)
        except BaseException as e:  # an escaping exception ends the real process with status 1
            res['exit'] = 1
            res['exc'] = e.__class__.__name__
    finally:
        sys.argv, sys.stdout, sys.stderr, sys.stdin = old[0], old[1], old[2], old[3]
        os.chdir(old[4])
        m.minify = old[5]
        os.environ.pop('PYMINIFY_FORCE_BEST_EFFORT', None)
        if old[6] is not None:
            os.environ['PYMINIFY_FORCE_BEST_EFFORT'] = old[6]
    res['stdout'] = b''.join(out.buffer.chunks)
    res['stdout_text'] = ''.join(out.text)
    res['stderr'] = ''.join(err.text)
    return res


def snapshot(root):
    """path (relative, '/'-joined) -> bytes for every regular file (symlinks followed)."""
    snap = {}
    for d, dirs, files in os.walk(root):
        dirs.sort()
        for f in sorted(files):
            p = os.path.join(d, f)
            try:
                with open(p, 'rb') as fh:
                    snap[os.path.relpath(p, root)] = fh.read()
            except OSError:
                snap[os.path.relpath(p, root)] = None
    return snap

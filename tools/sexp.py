"""Python side of the S-expression wire format (see lean/PMV/Sexp.lean)."""


def enc_cps(cps):
    return 's:' + ','.join('%x' % c for c in cps)


def enc_str(s):
    return enc_cps([ord(c) for c in s])


def enc_bytes(b):
    return enc_cps(list(b))


def lst(items):
    return '(' + ' '.join(items) + ')'


def parse(text):
    """Parse one S-expression (atoms -> str, lists -> list)."""
    toks = text.replace('(', ' ( ').replace(')', ' ) ').split()
    pos = [0]

    def rd():
        t = toks[pos[0]]
        pos[0] += 1
        if t == '(':
            out = []
            while toks[pos[0]] != ')':
                out.append(rd())
            pos[0] += 1
            return out
        return t

    items = []
    while pos[0] < len(toks):
        items.append(rd())
    return items


def dec_cps(atom):
    assert atom.startswith('s:'), atom
    body = atom[2:]
    return [int(x, 16) for x in body.split(',')] if body else []


def dec_str(atom):
    return ''.join(chr(c) for c in dec_cps(atom))


def dec_bytes(atom):
    return bytes(dec_cps(atom))

"""Writes /verif/MANIFEST.json from the table below (kept as code so that level notes stay in one place)."""
import json
import os

HERE = os.path.dirname(os.path.dirname(os.path.abspath(__file__)))

BASELINE = "cd /repo && /venv/bin/python -m pytest -ra -q -p no:cacheprovider --timeout=900 --continue-on-collection-errors"

CHECKS = {
    'C01': dict(
        text='Lean: Spec.PyCore gives a first-order core of Python (ints, bools, strings, None; assignment, if, while/else, for-in-range/else, break/continue, '
             'try/except/else/finally, print, assert, raise, global, import statements as ordered import events binding opaque values, calls of module-level functions) a fuel-indexed definitional semantics whose observable is '
             'the printed lines, how the run ends, the final globals and the sequence of import events. Proved for every module, nesting depth and fuel, through loops '
             'and calls (strong induction on fuel, mutual structural induction on statements): remove_pass, remove_literal_statements '
             '(with its __doc__ guard), combine_imports, remove_explicit_return_none, remove_builtin_exception_brackets and remove_object_base leave the '
             'observable unchanged; constant folding (for ANY oracle, via a homomorphism theorem on expressions and the folding-step '
             'lemma over PyInt) and positional-only conversion refine it (identical unless the original run leaves the core); so does '
             'every pipeline of these eight in transformM; under -O semantics (runO) remove_asserts and remove_debug are neutral too and the pipeline theorem covers ten transforms (all but annotation removal); a run that ends within its fuel is the same at every larger fuel. T01.13: renaming the local names of functions (per-function renaming, parameters copied to their new names as the renamer does) leaves the observable unchanged for every module and fuel under a decidable side condition modOK, proved by relating the two runs state by state through loops, handlers and calls. T01.14: hoisting repeated literals into names preserves it up to the new global names under the decidable hoistOK; T01.17: annotation removal refines it (annotated locals; evaluated annotations are outside the core). T01.15 chains every default transform, renaming and hoisting: minify() with exactly its default options on the core; T01.16 the same under -O with remove_asserts / remove_debug. Ties: the composed model prints the same text as minify() with all defaults (and as minify(rename_locals only), minify(rename_locals+hoist_literals)) on generated core programs, and modOK / hoistOK hold for the witnesses read off the real output; the semantics is validated against CPython exec on generated core '
             'programs; the transform model is compared with minify() on them; differential execution of original vs minified (stdout, '
             'exception type / exit status, public namespace) on generated runnable programs, directed scope programs and corner '
             'programs over subsets of the thirteen default-on switches decides the rest on the real code.',
        note='PARTIAL: renaming of globals and nested scopes (closures, classes, comprehensions) have no PyCore theorem, evaluated annotations are outside the core (their structural contracts '
             'are C02-C06, C09, C10); outside the PyCore fragment the property rests on the oracle. Documented-unsafe corners of '
             'default options are known findings F12a-d.',
        technique='Lean 4 proof of behaviour preservation over a definitional core semantics + spec validation against CPython + differential execution of the real minifier',
        ref='§6 C01'),
    'C17': dict(
        text='The property quantifies over a pinned, finite corpus: the thorough check enumerates it completely on the real code (72 files x 11 '
             'size options x 2 bases), the quick check a seeded slice. Lean theorems cover the decision logic meant to guarantee it: a '
             'binding is renamed only if the cost model accepts the candidate or its own name is no longer free, a literal is hoisted '
             'only if the cost model accepts it, the cost model is the stated inequality on total mention length, folding never '
             'lengthens, statement-dropping never adds statements. Tie: the assigner/fold/transform correspondences of C03, C07, C05.',
        note='PARTIAL by nature of the property: the relation between the cost model and the printed length (layout slack when an '
             'inserted assignment lands before a compound statement, DESIGN F13) is evaluated on the corpus, not proved.',
        technique='exhaustive evaluation of the pinned corpus + Lean 4 proofs about the cost-model decisions',
        ref='§6 C17'),
    'C08': dict(
        text='Lean (decide on tables regenerated from the source and the running interpreter): the inventory of raise statements equals the '
             'classified one (API validation, self-check, CLI, internal guards, caught, unknown node, abstract stub, f-string search), '
             'every concrete ast node class has a visitor on the printer and every statement class a dispatch entry, ast.parse is the '
             'first stage; with C02 (the printed expressions are grammatical) and C03 (no new clash). The quantified claim itself — '
             'minify returns and the result compiles, for every compilable source and option set; unparseable sources raise what the '
             'parser raises — is decided by running the real code over every generator of this framework, numeric extremes, '
             'adversarial f-strings, deep nesting, a malformed stream, under defaults / all-on / all-off / single switches / random subsets.',
        note='PARTIAL: the Lean models are total, so totality of the implementation is not a theorem; it is an exploration with an '
             'inventory obligation. RecursionError/MemoryError cannot be exhibited by a model (known finding F7 for very deep trees).',
        technique='Lean 4 decide on generated inventories (raise sites, visitor coverage, pipeline head) + exhaustive/random execution oracle',
        ref='§6 C08'),
    'C16': dict(
        text='Lean theorems on a model of _find_shebang and of the re-attachment in minify(): a source starting with #! yields exactly its '
             'first physical line under the LF / CRLF / lone-CR rule, any other source yields none, the output\'s first line is that line '
             'when preservation is on and the output is the printed module alone otherwise; the two regular expressions and the '
             '`preserve_shebang is True` test are regenerated from the source and must equal the modelled ones (decide). The encoding a '
             'declared name stands for (the normalisation in _source_encoding, CPython\'s get_normal_name) is modelled: it depends only on '
             'the first twelve characters whatever their case, an editor suffix after a separator is ignored, iso-8859-1 continued by '
             'anything else is another codec; its name tables are regenerated (decide). Ties: normalName vs _source_encoding and vs '
             'tokenize._get_normal_name on 1466 declared names; model vs '
             '_find_shebang on all strings of length <= 4 over a 7-character alphabet plus random lines, for text and bytes. Decoding '
             '(PEP 263 cookies, BOM), strict tree equality of parse(output) with parse(input), and api(bytes) == api(text) are decided on '
             'the real code over the full encoding x newline x shebang x input-kind x preserve matrix.',
        note='PARTIAL: source decoding and the codecs are CPython\'s (assumed); finding the declaration (the cookie regex) is covered by the '
             'matrix only. Composition with C02 gives that the rest of the output is the printed tree.',
        technique='Lean 4 proof (list lemmas over a regex model, generated patterns by decide) + correspondence + encoding matrix oracle',
        ref='§6 C16'),
    'C11': dict(
        text='Lean theorems on the assigner model: reservation scopes, assigned-name sets and the preserved-name collection are used '
             'through membership only (congruence of every step and of the whole loop under set-equal states, permutation invariance of '
             'the preserved globals), so no set iteration order, hence no hash seed, can change the chosen names; the generated top level '
             'of minify() copies caller-supplied lists before extending them (decide on the pipeline table). Process-level facts are '
             'decided on the real code: fresh interpreters under 8/48 hash seeds, call histories reusing argument objects (deep-copy '
             'comparison), 8 threads behind a barrier.',
        note='PARTIAL: thread interleavings are sampled (bytecode-level schedules cannot be exhibited by a model); mapper/binder sets are '
             'covered by the process-level runs only. Trusted: the harness in tools/props/c11.py.',
        technique='Lean 4 proof (congruence / permutation invariance) + generated pipeline table + multi-process, history and thread runs',
        ref='§6 C11'),
    'C05': dict(
        text='Lean: a model of SuiteTransformer and of the tree transforms (pass, asserts, debug, literal statements with the __doc__ guard, '
             'imports, return None, object base, annotations with the dataclass/NamedTuple/TypedDict exemption, positional-only markers, '
             'exception brackets on spec-supplied names) composed in the order and under the conditions of the generated pipeline table; a '
             'specification canon_O of the documented rewrites; theorems: for remove_pass, remove_asserts, remove_literal_statements, remove_debug, combine_imports, remove_object_base and remove_explicit_return_none the '
             'output equals the input modulo canon at every nesting depth (mutual induction over statements), blocks never become empty, '
             'statements of other kinds are all kept, combining imports preserves the sequence of imported names, all-off is the identity, '
             'the pipeline table equals the modelled one (decide); none of remove_pass / remove_asserts / remove_debug gives a block a leading string statement it did not have (docstring_never_gained, after fixes F39 / F41); under the `python -O` semantics of Spec.PyCore (validated against compile(optimize=1)) '
             'remove_asserts and remove_debug leave the observable of every module unchanged provided the removed statements bind no function-local name (decidable side condition scopeStable, evaluated per program; without it the claim is false: theorem remove_debug_changes_scoping exhibits the witness, replayed on CPython as finding F38) (the "equals what -O would run" clause). Ties: original and minified are executed under optimize=1 on directed and generated programs; the model prints the same text as minify() on every statement-kind x '
             'suite-kind template and random modules under single switches, default flips, pairs and random subsets. For the remaining '
             'options canon_O(minify(P,O)) == canon_O(P) is evaluated on the real code with the Lean specification as the oracle.',
        note='PARTIAL: absorption theorems are proved for seven of the transforms; for annotations / '
             'posargs / brackets / folding the canon is an oracle, not a theorem (folding is C07). Which names are un-shadowed builtins comes '
             'from tools/scopes.py. Trusted: Spec/Rewrites.lean as the reading of the documentation.',
        technique='Lean 4 proof (mutual structural induction, canon absorption) + model/implementation text correspondence + documented-rewrite canon oracle',
        ref='§6 C05'),
    'C04': dict(
        text='Lean theorems on the NameAssigner model: a binding that may not be renamed keeps its name for every input; every name given '
             'to a module-level binding carries the underscore prefix when rename_globals is off, and is otherwise a generator-table '
             'name. arg_rename_in_place is modelled (PMV.InPlace) and its decision proved outright: a parameter is renamed in the '
             'signature exactly when it is positional-only, *args, **kwargs or the first positional parameter of an undecorated / '
             '@classmethod function in a class body; keyword-only and later positional parameters never are. Ties: assigner '
             'correspondence on dumped bindings; argRenameInPlace vs the real function on every parameter of generated signatures. '
             'Which other bindings the binder pins (class-level names, dunder names, '
             'never-bound names) and which AST fields renaming writes are decided by an oracle on the real '
             'code that aligns input and output trees and demands identical spelling at every interface position.',
        note='PARTIAL: bind_names/resolve_names pinning rules (other than arg_rename_in_place) and Binding.rename are not modelled in Lean. Reading: first parameter of '
             'undecorated/@classmethod methods, *args/**kwargs and positional-only parameters are the documented reflective views.',
        technique='Lean 4 proof (assigner model) + model/implementation correspondence + interface-position oracle on aligned trees',
        ref='§6 C04'),
    'C06': dict(
        text='Lean theorems: the namespace chosen for a hoisted alias is a prefix of (encloses) the namespace path of every use; the '
             'assignment is inserted after docstring / from __future__ statements only and preserves the order of all other statements; '
             'an alias name differs from the final name of every binding whose scope it shares (no_new_clash); an un-hoisted literal '
             'introduces no name. Tie: placement model compared with the namespace the real place_bindings chose; assigner correspondence. '
             'The collecting traversal of HoistLiterals is modelled over the whole AST (PMV.HoistCollect.collect) with an exact '
             'specification (collected_exactly_outside_exclusions: what is collected is exactly every None / True / False / string / bytes '
             'occurrence of the module in which every match pattern, every string statement and every assignment to __slots__ in a class '
             'namespace has been erased, at any depth; collected_are_hoistable: numbers and ... never); tie: the model against the sequence '
             'of values the real traversal hands to get_binding (observed from outside) on templates, directed position programs and '
             'generated programs, and the references of the hoisted bindings are exactly the collected nodes. '
             'The dictionary of hoisted bindings is modelled as the grouping of the collected occurrences under the HoistedValue key (bindingsOf): '
             'every occurrence is a reference of exactly one binding and that binding holds a constant of the same type and value '
             '(every_occurrence_in_one_binding, binding_value_is_the_literal, different_types_never_merged); tie: against the real _hoisted dictionary. '
             'Single assignment and strict value identity of the output are decided by the alpha-equivalence oracle on literal templates x 11 literal '
             'kinds and generated programs.',
        note='PARTIAL: the literal text of f-strings is not an expression of the model AST (the correspondence settles that the real traversal '
             'skips it); the replacement step rename() and should_rename are covered by the oracle (and the C17 cost theorems), not modelled here.',
        technique='Lean 4 proof (exact specification of the collecting traversal, prefix/dominance and insertion lemmas, assigner invariant) + correspondence + alpha-equivalence oracle',
        ref='§6 C06'),
    'C10': dict(
        text='Lean theorems: applyPreserve (model of allow_rename_locals/globals) pins every listed binding, and a pinned binding is never '
             'renamed by the assigner, for every program, list and option; the generated pipeline shows the lists reaching these stages. '
             'find__all__ is modelled (PMV.Exports.findAll) with an exact specification (findAll_exact: a string is returned iff a simple '
             'statement running at module level, not inside def/class, assigns a list display containing it to __all__) and '
             'exported_names_kept; tie: the model vs the real function on generated modules with nested / shadowed / malformed __all__ forms. '
             'Oracle on the real code: random preserve lists (also a bare string, builtins, names bound in several scopes), literal '
             '__all__ lists in three statement forms, the awslambda entrypoint: listed names keep their spelling at every binding and '
             'reference and the output stays alpha-equivalent to the input.',
        note='PARTIAL: the real allow_rename_* traversal is not modelled (applyPreserve is a hand model without correspondence '
             'of its own; its effect is observed through the oracle). CLI list splitting is C13.',
        technique='Lean 4 proof (pinning + assigner model) + preserve-list oracle on aligned trees',
        ref='§6 C10'),
    'C09': dict(
        text='Lean: the top-level shape of minify() (stages, conditions, order) regenerated from the source equals the modelled pipeline, '
             'in which the taint block clears both renaming flags and the name-introducing stages (literal hoisting, exception-bracket '
             'removal) are gated on not module.tainted (decide on generated tables); when every binding is pinned the NameAssigner model '
             'renames nothing and introduces no name (theorem); a model of the traversals allow_rename_locals / allow_rename_globals '
             '(PMV.Freeze, with an iff-specification) proves that with the flags cleared every binding of every namespace, at any depth '
             'and on whatever kind of node, is frozen — the premise of that theorem. Ties: generated pipeline table; the assigner '
             'correspondence of C03; the freeze model against the real functions on the node / namespace / binding trees of generated programs. '
             'The name part of taint detection is modelled on the resolver model of C03 (tainted exactly when a lookup of exec / eval / locals / '
             'globals / vars finds no binding on Python\'s lookup path; tainted_by_names_iff) and compared with the real module.tainted over the '
             'lookups resolve_names makes. The syntactic sources are modelled too (PMV.TaintSyntax): tainted_by_imports_iff (an import alias * or '
             'with root module timeit in any statement at any depth), only_declared_iff / declared_trigger_taints (the only-declared rule), compared '
             'with module.tainted after bind_names and with is_only_declared on every module binding. End to end, taint detection is decided by an oracle on the real code: trigger x position x '
             'program enumeration, the output tree must be identical to the input tree; a control group with shadowed trigger names '
             'must still be renamed.',
        note='PARTIAL: that minify() combines the three modelled taint sources (names, imports, declarations) as a disjunction is read off the generated pipeline table and the oracle, not a theorem about one model; a bound '
             'trigger name that is the builtin at run time (F29a-d) escapes any static rule. Trusted: extract_pipeline (scrapes minify()), tools/taint_corr.py, '
             'the oracle in tools/props/c09.py.',
        technique='Lean 4 proof (decide on the generated pipeline table, pinned-bindings theorem, freeze traversal, iff-specifications of the three taint sources) + correspondence + real-code identity oracle over trigger/position enumeration',
        ref='§6 C09'),
    'C03': dict(
        text='Lean theorems on a model of NameAssigner (reservation scopes, cost model, generator table, the must-rename rule): for every '
             'set of bindings, two bindings whose reservation scopes share a namespace never end up with the same name when one of them '
             'was renamed; new names come from the generator table, which (decide, regenerated from the running name_filter) contains no '
             'keyword or builtin; pinned bindings keep their names. A model of resolve_names.get_binding / get_nonlocal_namespace over the '
             'dumped namespace tree is proved to answer with the first scope on Python\'s lookup path (own scope unless global / nonlocal, '
             'enclosing non-class scopes, module; get_binding_is_python_lookup, class_bodies_skipped), and lookup_after_renaming composes the '
             'two: the same lookup on the renamed tree, under the new spelling, finds the scope it found before, given that the reservation '
             'scope covers the lookup path below the home (cover) and the assigner\'s no-clash guarantee; cover itself follows from the parent '
             'chains reservation_scope adds (cover_from_reservation_chains). Ties: the assigner model is fed the '
             'binding structures the real scope analysis produced and must choose exactly the names the real rename() chose; the resolver '
             'model and the real get_binding are asked for every Name of every program; cover is checked on the real structures. The remaining '
             'part — which names a namespace binds and which namespaces a binding reserves (mapper / bind_names) — is decided by an '
             'alpha-equivalence oracle on the real code built on a scoping specification validated against symtable, over an exhaustive '
             'outer-scope x binding-form x reference-position enumeration (6337 programs) and random modules.',
        note='PARTIAL: mapper / bind_names are not modelled in Lean (their output is the input of the models; the hypothesis cover of '
             'T03.4 / T03.6 is checked per program, not proved); for that half the check is an exploration with an independent oracle. '
             'Trusted: tools/resolver_corr.py (dumps the namespace tree), tools/rename_dump.py (derives '
             'reference chains and the documented in-place rule from the annotated tree), tools/scopes.py (scoping spec), tools/alpha.py.',
        technique='Lean 4 proof (loop invariant over the assignment order) + model/implementation correspondence on dumped bindings + symtable-validated alpha-equivalence oracle',
        ref='§6 C03'),
    'C12': dict(
        text='Lean theorems: (a) the inventory of eval/exec/compile/__import__/open/literal_eval call sites regenerated from the source '
             'equals the modelled one; (b) for every string, quote character and safe-mode flag, quote + MiniString body + quote is '
             'exactly one string literal under the tokenizer specification (parametric in the escape tables, which are regenerated from '
             'ministring.py and checked by decide); (c) every closed literal expression prints to numeric texts, True/False/None, '
             'operators and parentheses only, and FoldConstants evaluates nothing else (with C07.fold_only_when). Tie: texts reaching '
             'eval are captured on the real code and compared with the model; the string-lexing spec is validated against tokenize; '
             'whole programs run under an audit hook: every executed code object must be a closed literal, no import/open/process/socket event.',
        note='Not modelled in Lean: f_string.Str / f_string.Bytes literal splitting and the f-string candidate search (audit-hook and '
             'tokenize oracle on the real code only). Assumed: evaluating a closed literal has no side effect; the audit hook sees every '
             'executed code object.',
        technique='Lean 4 proof (induction over strings with a lexer specification; generated inventory and escape tables by decide) + capture of eval arguments + audit-hook oracle',
        ref='§6 C12'),
    'C07': dict(
        text='Lean theorems on a model of FoldConstants: for every evaluation oracle (float/complex arithmetic is a parameter) and '
             'every expression, nested to any depth, folding preserves the value of every closed literal arithmetic expression under the '
             'specification evaluator evalLit (type tag bool/int/float/complex, value, and error-ness), a folding step is never longer '
             'and strictly shorter when it changes anything, and it fires only on literal operands, never for / and **, never on a '
             'raising or NaN result; integer arithmetic is PyInt.eval (Python semantics on unbounded ints) and the printed integer '
             'denotes its value. Tie: the model is compared with minify(constant_folding only) on every operator x operand-kind pair and '
             'random nested literal expressions in 24 contexts; PyInt.eval is validated against CPython; eval before/after on the real '
             'code is the failing-input search.',
        note='Oracle parameters (assumed of CPython): float/complex arithmetic, repr of floats/complex, negation of complex is an '
             'involution, decimal round trip of printed floats. f-strings containing arithmetic are outside the model (oracle only). '
             'The traversal shape of SuiteTransformer is a hand model tied by correspondence.',
        technique='Lean 4 proof (structural induction, for all oracles) + model/implementation correspondence + spec validation of integer semantics',
        ref='§6 C07'),
    'C02': dict(
        text='Lean theorems (mutual structural induction over the whole expression AST, unbounded depth): for any precedence table '
             'satisfying the decidable obligation TableOK the parentheses the printer inserts are sufficient for CPython\'s grammar levels '
             '(Gram) and erasing them returns the input; TableOK is re-proved by decide on the table regenerated from the running '
             'ExpressionPrinter on every run; tokens the tokenizer would glue are separated (generated spacing lists, decide); integer '
             'literals denote their value in decimal or hex; every statement class has a dispatch entry. Statement layout (T02.4/T02.5, mutual '
             'induction over the statement tree): the printer state machine (newline / indent / end_statement with rstrip, elif surgery) '
             'over the statement printer token stream yields exactly the specified layout emitModule - one line per clause, suites inline '
             '(single ; between simple statements) or as a block one level deeper, no empty line or trailing separator - and the printed '
             'characters are those layout tokens; hypotheses okL / textOK are decidable and evaluated on every module of the correspondence; '
             'the layout specification is validated against CPython tokenize (depth and ; count of every logical line); about the specification itself: no two adjacent layout tokens (layout_tidy), a deeper line only one level deeper and only after a colon (layout_indentation), every line break and ; at bracket depth 0 because all expression / header / statement token runs are bracket-balanced (layout_brackets) - the last two without side condition. Tie: the Lean printer model '
             '(tokens, expressions, statements, layout) is compared byte for byte with ModulePrinter on an exhaustive slot x child-class '
             'enumeration, a pinned corpus and random trees; the grammar spec Gram is validated against ast.parse under perturbed tables; '
             'strict round trip on the real unparse / minify(all off) is the failing-input search.',
        note='Proved: expression parenthesisation, token separation, integer spelling, statement layout (block structure). Modelled and tied by correspondence only: statement '
             'slots (which expression printer a header uses), float/complex post-processing. Assumed: repr of str/bytes/float, ast.parse. f-strings: text taken from '
             'the implementation inside the model; covered by the real-code oracle only. Python <= 3.7 node classes not modelled; other '
             'interpreters (3.8-3.11, 3.13) only through the oracle in the thorough tier.',
        technique='Lean 4 proof (mutual structural induction + decision table by decide on generated tables) + model/implementation correspondence + spec validation',
        ref='§6 C02'),
    'C13': dict(
        text='Lean theorems over a model of argparse boolean flags + do_minify forwarding: for every argv the forwarded keywords equal '
             'the documented function of the set of flags present (parametric in the table; the table is regenerated from the running '
             'argparse parser and observed forwarding on every run and the obligation TableOK re-proved by decide); preserve-list '
             'splitting round trip; invalid combinations rejected before any write; stdin path emits API bytes under the size rule. '
             'Tie: generated table + correspondence of the real main() (spy/fake minify) with the model on flag subsets, preserve '
             'spellings and main-loop scenarios; real CLI vs real API oracle for the search.',
        note='Trusted: extractor (introspection of ArgumentParser._actions, sentinel-observed forwarding), Spec/Docs.lean transcription of '
             'the docs, hand model of argv tokenisation (canonical spellings; argparse abbreviations/--opt=value not modelled), api(bytes) abstract.',
        technique='Lean 4 proof (parametric table theorem + decide on generated table) + model/implementation correspondence',
        ref='§6 C13'),
    'C14': dict(
        text='Lean theorems: without the override, the bytes handed to every sink (stdout, --output, in place, stdin→stdout, stdin→--output) '
             'are never longer than the source and equal the source when the minified bytes are longer; only the override disables it. '
             'Tie: hand model of do_minify/main handlers checked against the real main() with table-driven minify results at the length '
             'boundaries and non-ASCII results; real CLI runs on byte/char-divergent sources.',
        note='Trusted: hand model of the five handler sites (correspondence only), the minified text is an abstract input.',
        technique='Lean 4 proof (case analysis over output paths) + model/implementation correspondence',
        ref='§6 C14'),
    'C15': dict(
        text='Lean theorems by induction over the visit list on an abstract file system: post-state of every file is its pre-state or the '
             'complete result; non-visited files untouched; visit list = explicit arguments + walked files with a target suffix; first '
             'failure stops the run with non-zero exit and later files untouched; non in-place modes touch only the output file. '
             'Tie: correspondence with the real main() on generated trees with failures at every position; real-minify tree runs incl. symlinks.',
        note='Trusted: abstract FS (no aliasing, permissions, partial writes), os.walk order taken from the real FS as model input; crash '
             'atomicity and read-only files cannot be exhibited (root).',
        technique='Lean 4 proof (invariant by induction over operations) + model/implementation correspondence',
        ref='§6 C15'),
}

NOT_YET = {}


def main():
    checks = []
    for pid in sorted(CHECKS):
        c = CHECKS[pid]
        checks.append({
            'property_id': pid,
            'quick_cmd': './check %s --tier quick' % pid,
            'thorough_cmd': './check %s --tier thorough' % pid,
            'evidence_file': 'evidence/%s.json' % pid,
            'replay_cmd_template': './check %s --replay {path}' % pid,
            'engine': 'lean-pmv',
            'level_claimed': {'category': 'proof', 'text': c['text'], 'design_ref': c['ref']},
            'level_note': c['note'],
            'technique': c['technique'],
        })
    all_ids = ['C%02d' % i for i in range(1, 18)]
    na = [{'property_id': p, 'reason': NOT_YET.get(p, 'not claimed yet: model/theorems for this property are still being built (the technique applies; see DESIGN §9)')}
          for p in all_ids if p not in CHECKS]
    m = {
        'version': 1,
        'setup_cmd': './setup.sh',
        'hooks': {
            'guard': 'PYTHON_MINIFIER_VERIF',
            'enable': 'checks set PYTHON_MINIFIER_VERIF=1 and put /repo/src first on sys.path (pure Python, nothing to build)',
            'baseline_off_cmd': BASELINE,
            'source_commits': [],
            'add_only': True,
        },
        'engines': [
            {'name': 'lean-pmv', 'path': 'lean/', 'serves_properties': sorted(CHECKS),
             'kind_free_text': 'Lean 4 Lake project: models (PMV/Model), specs (PMV/Spec), generated tables (PMV/Generated), proofs, property theorems, native model driver'},
            {'name': 'extract', 'path': 'tools/extract.py', 'serves_properties': sorted(CHECKS),
             'kind_free_text': 'translator from the current /repo/src to PMV/Generated/*.lean (run on every check)'},
            {'name': 'corr', 'path': 'tools/runner.py', 'serves_properties': sorted(CHECKS),
             'kind_free_text': 'check runner: build, axiom audit, model/implementation correspondence, real-code oracles, evidence'},
        ],
        'checks': checks,
        'not_applicable': na,
        'notes': 'Every check rebuilds from /repo\'s working tree (tables re-extracted, theorems re-checked, correspondence re-run). '
                 'Exit 2 = harness failure/timeout. See DESIGN.md.',
    }
    with open(os.path.join(HERE, 'MANIFEST.json'), 'w') as f:
        json.dump(m, f, indent=1)
        f.write('\n')


if __name__ == '__main__':
    main()

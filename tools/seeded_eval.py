"""Apply each seeded change (seeded/<id>/patch.diff) to /repo, run the registered checks, undo it, and record which checks caught it.

usage: seeded_eval.py [--all-props] [--tier quick|thorough] [ids...]
Results go to seeded/RESULTS.json (one entry per seeded change: the exit status and first VIOLATION line of each check run)."""
import json
import os
import subprocess
import sys

VERIF = os.path.dirname(os.path.dirname(os.path.abspath(__file__)))
REPO = '/repo'
ALL = ['C%02d' % i for i in range(1, 18)]


SCRATCH = os.path.join(VERIF, '.cache', 'seeded-evidence')


def sh(cmd, **kw):
    os.makedirs(SCRATCH, exist_ok=True)
    kw.setdefault('env', dict(os.environ, PMV_EVIDENCE_DIR=SCRATCH))
    return subprocess.run(cmd, shell=True, stdout=subprocess.PIPE, stderr=subprocess.STDOUT, universal_newlines=True, **kw)


def clean():
    return sh('git -C %s status --porcelain' % REPO).stdout.strip() == ''


def main(argv):
    all_props = '--all-props' in argv
    tier = 'quick'
    if '--tier' in argv:
        tier = argv[argv.index('--tier') + 1]
    ids = [a for a in argv if not a.startswith('--') and a not in ('quick', 'thorough')]
    root = os.path.join(VERIF, 'seeded')
    if not ids:
        ids = sorted(d for d in os.listdir(root) if os.path.isfile(os.path.join(root, d, 'patch.diff')))
    res_path = os.path.join(root, 'RESULTS.json')
    try:
        results = json.load(open(res_path))
    except Exception:
        results = {}
    if not clean():
        print('refusing: /repo has uncommitted changes')
        return 2
    for sid in ids:
        d = os.path.join(root, sid)
        meta = json.load(open(os.path.join(d, 'meta.json')))
        props = meta.get('check_with') or [p.strip() for p in str(meta.get('property', '')).replace(',', ' ').split() if p.strip().startswith('C')]
        if all_props:
            props = props + [p for p in ALL if p not in props]
        r = sh('git -C %s apply %s' % (REPO, os.path.join(d, 'patch.diff')))
        if r.returncode != 0:
            # the repository has moved on since the change was written (later fixes): merge it three-way
            r = sh('git -C %s apply --3way %s' % (REPO, os.path.join(d, 'patch.diff')))
            sh('git -C %s reset -q' % REPO)
            conflict = sh('git -C %s diff --check' % REPO).stdout.strip() or ('<<<<<<<' in sh('git -C %s diff' % REPO).stdout)
            if r.returncode != 0 or conflict:
                sh('git -C %s checkout -- .' % REPO)
                results[sid] = {'error': 'patch does not apply (also not three-way): ' + r.stdout[-300:]}
                print(sid, 'PATCH FAILED')
                with open(res_path, 'w') as f:
                    json.dump(results, f, indent=1, sort_keys=True)
                continue
        entry = {'target': props[:1], 'checks': {}}
        try:
            for p in props:
                r = sh('%s %s --tier %s' % (os.path.join(VERIF, 'check'), p, tier), cwd=VERIF)
                lines = [l for l in r.stdout.split('\n') if l.startswith('VIOLATION')]
                entry['checks'][p] = {'exit': r.returncode, 'violation': lines[0] if lines else None,
                                      'summary': (r.stdout.strip().split('\n') or [''])[-1][:300]}
                print(sid, p, 'exit', r.returncode, (lines[0] if lines else ''))
        finally:
            sh('git -C %s checkout -- .' % REPO)
            sh('git -C %s clean -fdq -- src' % REPO)
        entry['caught_by'] = sorted(p for p, c in entry['checks'].items() if c['exit'] == 1)
        results[sid] = entry
        with open(res_path, 'w') as f:
            json.dump(results, f, indent=1, sort_keys=True)
    if not clean():
        print('WARNING: /repo not clean after run')
        return 2
    return 0


if __name__ == '__main__':
    sys.exit(main(sys.argv[1:]))

"""Random and exhaustive generators of Python ASTs (all randomness from the rng passed in).

gen_expr / gen_module build `ast` nodes directly (so that odd-but-valid nestings are reached), then
callers normalise through CPython's own `ast.unparse` + `ast.parse` (independent of the minifier) to
land in the image of the parser, and reject what does not compile."""
import ast

NAMES = ['a', 'b', 'c', 'x', 'y', 'self', 'args', 'print', 'len', 'A', 'B', '_A', 'ValueError', 'is_', 'f', 'lambda_']
ATTRS = ['real', 'b', 'x', 'append', 'e', 'j']
BINOPS = [ast.Add, ast.Sub, ast.Mult, ast.MatMult, ast.Div, ast.Mod, ast.Pow, ast.LShift, ast.RShift, ast.BitOr,
          ast.BitXor, ast.BitAnd, ast.FloorDiv]
UNARYOPS = [ast.Invert, ast.Not, ast.UAdd, ast.USub]
CMPOPS = [ast.Eq, ast.NotEq, ast.Lt, ast.LtE, ast.Gt, ast.GtE, ast.Is, ast.IsNot, ast.In, ast.NotIn]
INTS = [0, 1, 2, 7, 10, 255, 1000, 65535, 10 ** 12, 0xffffffffffff, 10 ** 13 + 15, 2 ** 64 - 1, 999999999999, 0xabcdef0123f, 10 ** 20]
FLOATS = [0.0, 1.0, 0.5, 1e16, 1e-7, 1e22, 100.0, 1200.0, 1e308, float('inf'), 3.14, 10.0, 1e100, 12345678.0, 0.1, 5e-324, 1.5e300]
COMPLEX = [1j, 0j, 2.5j, 1e16j, complex(0, float('inf'))]
STRS = ['', 'a', "it's", 'say "hi"', 'new\nline', 'tab\t', 'back\\slash', '\x00', 'é', ' ', '{brace}', "both ' and \"", '\U0001f600', 'u', 'b']
BYTES = [b'', b'a', b"'", b'\x00\xff', b'"q"']


def name(rng, ctx=None):
    return ast.Name(id=rng.choice(NAMES), ctx=ctx or ast.Load())


def const(rng):
    k = rng.randint(0, 9)
    if k <= 2:
        return ast.Constant(value=rng.choice(INTS))
    if k == 3:
        return ast.Constant(value=rng.choice(FLOATS))
    if k == 4:
        return ast.Constant(value=rng.choice(COMPLEX))
    if k == 5:
        return ast.Constant(value=rng.choice(STRS))
    if k == 6:
        return ast.Constant(value=rng.choice(BYTES))
    if k == 7:
        return ast.Constant(value=rng.choice([None, True, False]))
    if k == 8:
        return ast.Constant(value=Ellipsis)
    return ast.Constant(value=rng.randint(0, 10 ** rng.randint(1, 25)))


def arguments(rng, depth, lam=False):
    def arg(n):
        ann = None if lam or rng.random() < 0.7 else gen_expr(rng, depth - 1)
        return ast.arg(arg=n, annotation=ann)
    pool = ['p', 'q', 'r', 's', 't', 'u']
    rng.shuffle(pool)
    npos = rng.randint(0, 2)
    nargs = rng.randint(0, 2)
    posonly = [arg(pool.pop()) for _ in range(npos)] if rng.random() < 0.3 else []
    args = [arg(pool.pop()) for _ in range(nargs)]
    ndef = rng.randint(0, len(posonly) + len(args))
    defaults = [gen_expr(rng, depth - 1) for _ in range(ndef)]
    vararg = arg('va') if rng.random() < 0.25 else None
    kwonly = [arg(pool.pop()) for _ in range(rng.randint(0, 1))] if rng.random() < 0.3 and pool else []
    kw_defaults = [(gen_expr(rng, depth - 1) if rng.random() < 0.5 else None) for _ in kwonly]
    kwarg = arg('kw') if rng.random() < 0.2 else None
    return ast.arguments(posonlyargs=posonly, args=args, vararg=vararg, kwonlyargs=kwonly, kw_defaults=kw_defaults,
                         kwarg=kwarg, defaults=defaults)


def target(rng, depth):
    k = rng.randint(0, 6)
    if k <= 2 or depth <= 0:
        return name(rng, ast.Store())
    if k == 3:
        return ast.Tuple(elts=[target(rng, depth - 1) for _ in range(rng.randint(1, 3))], ctx=ast.Store())
    if k == 4:
        return ast.Attribute(value=gen_expr(rng, depth - 1), attr=rng.choice(ATTRS), ctx=ast.Store())
    if k == 5:
        return ast.Subscript(value=gen_expr(rng, depth - 1), slice=gen_expr(rng, depth - 1), ctx=ast.Store())
    return ast.List(elts=[target(rng, depth - 1) for _ in range(rng.randint(0, 2))], ctx=ast.Store())


def comprehension(rng, depth):
    return ast.comprehension(target=target(rng, min(depth, 1)), iter=gen_expr(rng, depth - 1),
                             ifs=[gen_expr(rng, depth - 1) for _ in range(rng.randint(0, 2))], is_async=0)


def gen_expr(rng, depth, allow_yield=False, allow_await=False):
    if depth <= 0:
        return name(rng) if rng.random() < 0.5 else const(rng)
    E = lambda: gen_expr(rng, depth - 1, allow_yield, allow_await)
    k = rng.randint(0, 27)
    if k == 0:
        return ast.BoolOp(op=rng.choice([ast.And, ast.Or])(), values=[E() for _ in range(rng.randint(2, 3))])
    if k == 1:
        return ast.NamedExpr(target=name(rng, ast.Store()), value=E())
    if k in (2, 3, 4):
        return ast.BinOp(left=E(), op=rng.choice(BINOPS)(), right=E())
    if k in (5, 6):
        return ast.UnaryOp(op=rng.choice(UNARYOPS)(), operand=E())
    if k == 7:
        return ast.Lambda(args=arguments(rng, depth, lam=True), body=gen_expr(rng, depth - 1))
    if k == 8:
        return ast.IfExp(test=E(), body=E(), orelse=E())
    if k == 9:
        n = rng.randint(0, 3)
        keys = [(None if rng.random() < 0.25 else E()) for _ in range(n)]
        return ast.Dict(keys=keys, values=[E() for _ in range(n)])
    if k == 10:
        return ast.Set(elts=[starred_or(rng, E) for _ in range(rng.randint(1, 3))])
    if k == 11:
        return ast.ListComp(elt=E(), generators=[comprehension(rng, depth) for _ in range(rng.randint(1, 2))])
    if k == 12:
        return ast.SetComp(elt=E(), generators=[comprehension(rng, depth)])
    if k == 13:
        return ast.DictComp(key=E(), value=E(), generators=[comprehension(rng, depth)])
    if k == 14:
        return ast.GeneratorExp(elt=E(), generators=[comprehension(rng, depth)])
    if k == 15 and allow_await:
        return ast.Await(value=E())
    if k == 16 and allow_yield:
        return ast.Yield(value=E() if rng.random() < 0.7 else None) if rng.random() < 0.7 else ast.YieldFrom(value=E())
    if k == 17:
        n = rng.randint(1, 2)
        return ast.Compare(left=E(), ops=[rng.choice(CMPOPS)() for _ in range(n)], comparators=[E() for _ in range(n)])
    if k in (18, 19):
        args = [starred_or(rng, E) for _ in range(rng.randint(0, 3))]
        kws = [ast.keyword(arg=(rng.choice(['k', 'end', 'key']) if rng.random() < 0.8 else None), value=E())
               for _ in range(rng.randint(0, 2))]
        return ast.Call(func=E(), args=args, keywords=kws)
    if k == 20:
        return const(rng)
    if k == 21:
        return ast.Attribute(value=E(), attr=rng.choice(ATTRS), ctx=ast.Load())
    if k == 22:
        sl = rng.randint(0, 3)
        if sl == 0:
            s = E()
        elif sl == 1:
            s = ast.Slice(lower=E() if rng.random() < 0.5 else None, upper=E() if rng.random() < 0.5 else None,
                          step=E() if rng.random() < 0.3 else None)
        elif sl == 2:
            s = ast.Tuple(elts=[(E() if rng.random() < 0.6 else ast.Slice(lower=None, upper=E(), step=None))
                                for _ in range(rng.randint(0, 3))], ctx=ast.Load())
        else:
            s = ast.Tuple(elts=[starred_or(rng, E) for _ in range(rng.randint(1, 2))], ctx=ast.Load())
        return ast.Subscript(value=E(), slice=s, ctx=ast.Load())
    if k == 23:
        return ast.List(elts=[starred_or(rng, E) for _ in range(rng.randint(0, 3))], ctx=ast.Load())
    if k == 24:
        return ast.Tuple(elts=[starred_or(rng, E) for _ in range(rng.randint(0, 3))], ctx=ast.Load())
    if k == 25:
        return fstring(rng, depth)
    return name(rng)


def starred_or(rng, E):
    if rng.random() < 0.12:
        return ast.Starred(value=E(), ctx=ast.Load())
    return E()


def fstring(rng, depth):
    vals = []
    for _ in range(rng.randint(1, 3)):
        if rng.random() < 0.5:
            vals.append(ast.Constant(value=rng.choice(['a', "'", '"', '{', '}', '\n', 'x y', '\\', 'é'])))
        else:
            spec = None
            if rng.random() < 0.3:
                spec = ast.JoinedStr(values=[ast.Constant(value=rng.choice(['>10', '.2f', 'x']))])
            vals.append(ast.FormattedValue(value=gen_expr(rng, min(depth - 1, 2)), conversion=rng.choice([-1, -1, 114, 115, 97]),
                                           format_spec=spec))
    return ast.JoinedStr(values=vals)


# ------------------------------------------------------------------------------------ statements

def gen_body(rng, depth, ctx, n=None):
    n = n or rng.randint(1, 3)
    return [gen_stmt(rng, depth, ctx) for _ in range(n)]


def gen_stmt(rng, depth, ctx):
    """ctx: dict(func=bool, loop=bool, async_=bool, cls=bool)"""
    E = lambda d=2: gen_expr(rng, min(d, depth + 1), allow_yield=ctx.get('func') and not ctx.get('async_'),
                             allow_await=ctx.get('async_'))
    simple = depth <= 0
    k = rng.randint(0, 30) if not simple else rng.randint(0, 16)
    if k == 0:
        return ast.Expr(value=E(3))
    if k in (1, 2):
        return ast.Assign(targets=[target(rng, 2) for _ in range(rng.randint(1, 2))], value=E(3), lineno=1)
    if k == 3:
        t = rng.choice([name(rng, ast.Store()), ast.Attribute(value=name(rng), attr='x', ctx=ast.Store()),
                        ast.Subscript(value=name(rng), slice=E(1), ctx=ast.Store())])
        return ast.AugAssign(target=t, op=rng.choice(BINOPS)(), value=E())
    if k == 4:
        t = rng.choice([name(rng, ast.Store()), ast.Attribute(value=name(rng), attr='x', ctx=ast.Store())])
        return ast.AnnAssign(target=t, annotation=E(1), value=E() if rng.random() < 0.6 else None,
                             simple=1 if isinstance(t, ast.Name) else 0)
    if k == 5:
        return ast.Pass()
    if k == 6:
        return ast.Delete(targets=[rng.choice([name(rng, ast.Del()), ast.Subscript(value=name(rng), slice=E(1), ctx=ast.Del())])
                                   for _ in range(rng.randint(1, 2))])
    if k == 7 and ctx.get('func'):
        return ast.Return(value=E(3) if rng.random() < 0.8 else None)
    if k == 8:
        return ast.Raise(exc=E() if rng.random() < 0.8 else None, cause=None)
    if k == 9:
        return ast.Raise(exc=E(), cause=E())
    if k == 10:
        return ast.Assert(test=E(), msg=E() if rng.random() < 0.4 else None)
    if k == 11:
        return ast.Import(names=[ast.alias(name=rng.choice(['os', 'os.path', 'sys', 'a.b.c']),
                                           asname=rng.choice([None, None, 'm'])) for _ in range(rng.randint(1, 2))])
    if k == 12:
        star = rng.random() < 0.1 and not ctx.get('func') and not ctx.get('cls')
        names = [ast.alias(name='*', asname=None)] if star else [
            ast.alias(name=rng.choice(['x', 'y', 'path']), asname=rng.choice([None, 'z'])) for _ in range(rng.randint(1, 2))]
        lvl = rng.choice([0, 0, 1, 2])
        return ast.ImportFrom(module=rng.choice(['os', 'a.b']) if (lvl == 0 or rng.random() < 0.5) else None, names=names, level=lvl)
    if k == 13 and ctx.get('loop'):
        return rng.choice([ast.Break, ast.Continue])()
    if k == 14 and ctx.get('func'):
        return ast.Expr(value=ast.Yield(value=E())) if not ctx.get('async_') else ast.Expr(value=ast.Await(value=E()))
    if k == 15:
        return ast.Expr(value=ast.Constant(value=rng.choice(STRS)))
    if k == 16:
        return ast.Assign(targets=[name(rng, ast.Store())], value=const(rng), lineno=1)
    # compound
    sub = dict(ctx)
    if k in (17, 18):
        orelse = []
        r = rng.random()
        if r < 0.3:
            orelse = gen_body(rng, depth - 1, ctx)
        elif r < 0.5:
            orelse = [ast.If(test=E(), body=gen_body(rng, depth - 1, ctx), orelse=gen_body(rng, depth - 1, ctx) if rng.random() < 0.5 else [])]
        return ast.If(test=E(), body=gen_body(rng, depth - 1, ctx), orelse=orelse)
    if k == 19:
        sub['loop'] = True
        cls = ast.AsyncFor if ctx.get('async_') and rng.random() < 0.5 else ast.For
        return cls(target=target(rng, 2), iter=E(), body=gen_body(rng, depth - 1, sub),
                   orelse=gen_body(rng, depth - 1, ctx) if rng.random() < 0.3 else [], lineno=1)
    if k == 20:
        sub['loop'] = True
        return ast.While(test=E(), body=gen_body(rng, depth - 1, sub), orelse=gen_body(rng, depth - 1, ctx) if rng.random() < 0.3 else [])
    if k == 21:
        handlers = [ast.ExceptHandler(type=(E(1) if rng.random() < 0.8 else None), name=None, body=gen_body(rng, depth - 1, ctx))
                    for _ in range(rng.randint(0, 2))]
        for h in handlers[:-1]:
            if h.type is None:
                h.type = name(rng)
        for h in handlers:
            if h.type is not None and rng.random() < 0.5:
                h.name = rng.choice(['e', 'err'])
        fin = gen_body(rng, depth - 1, ctx) if (not handlers or rng.random() < 0.3) else []
        orelse = gen_body(rng, depth - 1, ctx) if handlers and rng.random() < 0.3 else []
        star = bool(handlers) and all(h.type is not None for h in handlers) and rng.random() < 0.15
        return (ast.TryStar if star else ast.Try)(body=gen_body(rng, depth - 1, ctx), handlers=handlers, orelse=orelse, finalbody=fin)
    if k == 22:
        items = [ast.withitem(context_expr=E(), optional_vars=(target(rng, 1) if rng.random() < 0.5 else None))
                 for _ in range(rng.randint(1, 2))]
        cls = ast.AsyncWith if ctx.get('async_') and rng.random() < 0.5 else ast.With
        return cls(items=items, body=gen_body(rng, depth - 1, ctx), lineno=1)
    if k in (23, 24):
        is_async = rng.random() < 0.2
        sub = {'func': True, 'loop': False, 'async_': is_async, 'cls': False}
        decs = [E(1) for _ in range(rng.randint(0, 1))] if rng.random() < 0.3 else []
        cls = ast.AsyncFunctionDef if is_async else ast.FunctionDef
        return cls(name=rng.choice(['f', 'g', 'method', '__init__']), args=arguments(rng, 2), body=gen_body(rng, depth - 1, sub),
                   decorator_list=decs, returns=(E(1) if rng.random() < 0.2 else None), type_params=[], lineno=1)
    if k == 25:
        sub = {'func': False, 'loop': False, 'async_': False, 'cls': True}
        return ast.ClassDef(name=rng.choice(['C', 'D']), bases=[E(1) for _ in range(rng.randint(0, 2))],
                            keywords=[ast.keyword(arg='metaclass', value=name(rng))] if rng.random() < 0.1 else [],
                            body=gen_body(rng, depth - 1, sub), decorator_list=[], type_params=[])
    if k == 26:
        return ast.Match(subject=E(), cases=[ast.match_case(pattern=gen_pattern(rng, 2), guard=(E(1) if rng.random() < 0.3 else None),
                                                            body=gen_body(rng, depth - 1, ctx)) for _ in range(rng.randint(1, 2))])
    if k == 27 and ctx.get('func'):
        return ast.Nonlocal(names=['nl']) if rng.random() < 0.0 else ast.Global(names=[rng.choice(['G', 'H'])])
    if k == 28:
        return ast.With(items=[ast.withitem(context_expr=ast.Tuple(elts=[name(rng), name(rng)], ctx=ast.Load()), optional_vars=None)],
                        body=gen_body(rng, depth - 1, ctx), lineno=1) if rng.random() < 0.3 else ast.Pass()
    return ast.Expr(value=E(3))


def gen_pattern(rng, depth):
    k = rng.randint(0, 9) if depth > 0 else rng.randint(0, 3)
    if k == 0:
        return ast.MatchValue(value=ast.Constant(value=rng.choice([1, 'a', 2.5, b'x'])))
    if k == 1:
        return ast.MatchSingleton(value=rng.choice([None, True, False]))
    if k == 2:
        return ast.MatchAs(pattern=None, name=rng.choice([None, 'v', 'w']))
    if k == 3:
        return ast.MatchValue(value=ast.Attribute(value=name(rng), attr='X', ctx=ast.Load()))
    if k == 4:
        ps = [gen_pattern(rng, depth - 1) for _ in range(rng.randint(0, 3))]
        if rng.random() < 0.3:
            ps.insert(rng.randint(0, len(ps)), ast.MatchStar(name=rng.choice([None, 'rest'])))
        return ast.MatchSequence(patterns=ps)
    if k == 5:
        n = rng.randint(0, 2)
        return ast.MatchMapping(keys=[ast.Constant(value='k%d' % i) for i in range(n)],
                                patterns=[gen_pattern(rng, depth - 1) for _ in range(n)], rest=rng.choice([None, 'more']))
    if k == 6:
        n = rng.randint(0, 2)
        return ast.MatchClass(cls=name(rng), patterns=[gen_pattern(rng, depth - 1) for _ in range(rng.randint(0, 2))],
                              kwd_attrs=['k%d' % i for i in range(n)], kwd_patterns=[gen_pattern(rng, depth - 1) for _ in range(n)])
    if k == 7:
        return ast.MatchAs(pattern=gen_pattern(rng, depth - 1), name='n')
    alts = [gen_pattern(rng, depth - 1) for _ in range(2)]
    return ast.MatchOr(patterns=[a if not isinstance(a, (ast.MatchAs,)) or a.pattern is not None or a.name is None else ast.MatchValue(value=ast.Constant(value=0)) for a in alts])


def gen_module(rng, depth=2, n=None):
    ctx = {'func': False, 'loop': False, 'async_': False, 'cls': False}
    return ast.Module(body=gen_body(rng, depth, ctx, n or rng.randint(1, 5)), type_ignores=[])


def normalise(tree, mode='exec'):
    """Through CPython's own unparser and parser into the image of ast.parse; None if it does not compile."""
    try:
        ast.fix_missing_locations(tree)
        src = ast.unparse(tree)
        compile(src, '<gen>', mode, dont_inherit=True)
        return src, ast.parse(src, mode=mode)
    except (SyntaxError, ValueError, RecursionError, TypeError, AttributeError, OverflowError, MemoryError):
        return None

"""Witness extraction for T01.13 + T01.14: from a module and its minification with rename_locals and hoist_literals, read off
for every module-level function the renaming of its names and the statements inserted at the start of its body (parameter
copies, assignments of hoisted literals, in the order they appear), and for the module the hoisted literals."""
import ast

import pyast
import sexp
from renast import NoWitness, _is_doc


def _ckey(v):
    return (type(v).__name__, v)


def _walk(a, b, names, ghosts):
    """two trees of the same shape up to: Name for Name (a renaming), Name for Constant (a hoisted literal)"""
    if isinstance(a, ast.Constant) and isinstance(b, ast.Name):
        ghosts.append((a.value, b.id))
        return
    if type(a) is not type(b):
        raise NoWitness('shape differs: %s vs %s' % (type(a).__name__, type(b).__name__))
    if isinstance(a, ast.Name):
        names.append((a.id, b.id))
        return
    if isinstance(a, ast.alias):
        if (a.asname is None) != (b.asname is None) or a.name != b.name:
            raise NoWitness('import alias differs')
        if a.asname is not None:
            names.append((a.asname, b.asname))
        return
    if isinstance(a, (ast.Global, ast.Nonlocal)):
        if len(a.names) != len(b.names):
            raise NoWitness('global statement differs')
        names.extend(zip(a.names, b.names))
        return
    for (fa, va), (fb, vb) in zip(ast.iter_fields(a), ast.iter_fields(b)):
        if isinstance(va, list):
            if not isinstance(vb, list) or len(va) != len(vb):
                raise NoWitness('list length differs in %s.%s' % (type(a).__name__, fa))
            for x, y in zip(va, vb):
                if isinstance(x, ast.AST):
                    _walk(x, y, names, ghosts)
                elif x != y:
                    raise NoWitness('field differs in %s.%s' % (type(a).__name__, fa))
        elif isinstance(va, ast.AST):
            if not isinstance(vb, ast.AST):
                raise NoWitness('field differs in %s.%s' % (type(a).__name__, fa))
            _walk(va, vb, names, ghosts)
        elif va != vb and fa not in ('lineno', 'col_offset', 'end_lineno', 'end_col_offset', 'kind', 'type_comment'):
            raise NoWitness('field differs in %s.%s: %r vs %r' % (type(a).__name__, fa, va, vb))


def _split(body_a, body_b):
    """→ (inserted statements of b in order, the statements of b that correspond to body_a)"""
    extra = len(body_b) - len(body_a)
    if extra < 0:
        raise NoWitness('statements were removed')
    docs = 0
    while docs < len(body_b) and _is_doc(body_b[docs]):
        docs += 1
    docs = min(docs, len(body_b) - extra)
    return body_b[docs:docs + extra], body_b[:docs] + body_b[docs + extra:]


def _mapping(pairs, what):
    m = {}
    for old, new in pairs:
        k = _ckey(old) if what == 'literal' else old
        if m.setdefault(k, (old, new))[1] != new:
            raise NoWitness('%s %r is replaced by both %s and %s' % (what, old, m[k][1], new))
    return m


def module_witness(src, minified):
    """→ dict(rename=[(fn, pairs, copied params)], gmod=[(const, name)], pro_mod=[entry], fns=[(fn, [(const, name)], [entry])])
    entries: ('g', const, name) | ('k',)"""
    ta, tb = ast.parse(src), ast.parse(minified)
    inserted, rest = _split(ta.body, tb.body)
    gmod, pro_mod = [], []
    for st in inserted:
        if not (isinstance(st, ast.Assign) and len(st.targets) == 1 and isinstance(st.targets[0], ast.Name) and isinstance(st.value, ast.Constant)):
            raise NoWitness('a statement inserted at module level is not the assignment of a literal')
        gmod.append((st.value.value, st.targets[0].id))
        pro_mod.append(('g', st.value.value, st.targets[0].id))
    rename, fns = [], []
    mod_names, mod_ghosts = [], []
    for a, b in zip(ta.body, rest):
        if isinstance(a, ast.FunctionDef):
            if not isinstance(b, ast.FunctionDef) or a.name != b.name:
                raise NoWitness('function %s was renamed or replaced' % a.name)
            params = [x.arg for x in a.args.posonlyargs + a.args.args]
            if [x.arg for x in b.args.posonlyargs + b.args.args] != params:
                raise NoWitness('parameters renamed in place')
            ins, brest = _split(a.body, b.body)
            names, ghosts, copies, gloc, pro = [], [], [], [], []
            for st in ins:
                ok = isinstance(st, ast.Assign) and len(st.targets) == 1 and isinstance(st.targets[0], ast.Name)
                if ok and isinstance(st.value, ast.Constant):
                    gloc.append((st.value.value, st.targets[0].id))
                    pro.append(('g', st.value.value, st.targets[0].id))
                elif ok and isinstance(st.value, ast.Name) and st.value.id in params:
                    names.append((st.value.id, st.targets[0].id))
                    copies.append(st.value.id)
                    pro.append(('k',))
                else:
                    raise NoWitness('a statement inserted in %s is neither a parameter copy nor the assignment of a literal' % a.name)
            for x, y in zip(a.body, brest):
                _walk(x, y, names, ghosts)
            nm = _mapping(names, 'name')
            known = dict((_ckey(c), n) for c, n in gloc + gmod)
            for c, n in ghosts:
                if known.get(_ckey(c)) != n:
                    raise NoWitness('literal %r in %s is replaced by %s, which is not assigned that literal' % (c, a.name, n))
            rename.append((a.name, sorted((o, n) for (o, n) in nm.values() if o != n), copies))
            fns.append((a.name, gloc, pro))
        else:
            _walk(a, b, mod_names, mod_ghosts)
    if any(o != n for o, n in mod_names):
        raise NoWitness('a module-level name was renamed')
    known = dict((_ckey(c), n) for c, n in gmod)
    for c, n in mod_ghosts:
        if known.get(_ckey(c)) != n:
            raise NoWitness('literal %r at module level is replaced by %s, which is not assigned that literal' % (c, n))
    return {'rename': rename, 'gmod': gmod, 'pro_mod': pro_mod, 'fns': fns}


def _cpair(c, n):
    return '(%s %s)' % (pyast.enc_const(c), sexp.enc_str(n))


def _entry(e):
    return '(k)' if e[0] == 'k' else '(g %s %s)' % (pyast.enc_const(e[1]), sexp.enc_str(e[2]))


def witness_sexps(w):
    ren = '(' + ' '.join('(%s (%s) (%s))' % (sexp.enc_str(f), ' '.join('(%s %s)' % (sexp.enc_str(o), sexp.enc_str(n)) for o, n in pairs),
                                             ' '.join(sexp.enc_str(p) for p in pro)) for f, pairs, pro in w['rename']) + ')'
    hw = '((%s) (%s) (%s))' % (' '.join(_cpair(c, n) for c, n in w['gmod']), ' '.join(_entry(e) for e in w['pro_mod']),
                               ' '.join('(%s (%s) (%s))' % (sexp.enc_str(f), ' '.join(_cpair(c, n) for c, n in gl), ' '.join(_entry(e) for e in pro))
                                        for f, gl, pro in w['fns']))
    return ren, hw


def hoisted_consts(w):
    out = [c for c, _ in w['gmod']]
    for _, gl, _ in w['fns']:
        out += [c for c, _ in gl]
    return out


def request(src, w):
    """the driver request `min.applyast`"""
    ren = '(' + ' '.join('(%s (%s) (%s))' % (sexp.enc_str(f), ' '.join('(%s %s)' % (sexp.enc_str(o), sexp.enc_str(n)) for o, n in pairs),
                                             ' '.join(sexp.enc_str(p) for p in pro)) for f, pairs, pro in w['rename']) + ')'
    hw = '((%s) (%s) (%s))' % (' '.join(_cpair(c, n) for c, n in w['gmod']), ' '.join(_entry(e) for e in w['pro_mod']),
                               ' '.join('(%s (%s) (%s))' % (sexp.enc_str(f), ' '.join(_cpair(c, n) for c, n in gl), ' '.join(_entry(e) for e in pro))
                                        for f, gl, pro in w['fns']))
    with pyast.unlimited():
        return 'min.applyast %s %s %s' % (ren, hw, pyast.enc_module(ast.parse(src)))

"""the collecting traversal of HoistLiterals (which literal occurrences are handed to get_binding(...).add_reference(...)) against
its Lean model (PMV.HoistCollect.collect; theorems T06.4).  The real traversal is observed from outside by wrapping
HoistLiterals.get_binding; what is compared is the ordered sequence of collected values (type and value)."""
import ast

import pyast


def enc_value(v):
    if v is None:
        return 'N'
    if v is True:
        return 'T'
    if v is False:
        return 'F'
    if isinstance(v, str):
        return 'S' + '.'.join(str(ord(c)) for c in v)
    if isinstance(v, bytes):
        return 'B' + '.'.join(str(b) for b in v)
    return '?' + type(v).__name__


def observed(src):
    """→ (driver request, the values the real HoistLiterals collected, in order, encoded like the driver's answer, number of
    collected nodes that are also references of a binding)"""
    from python_minifier.ast_annotation import add_parent
    from python_minifier.rename import add_namespace, bind_names, resolve_names
    import importlib
    rl = importlib.import_module('python_minifier.rename.rename_literals')
    m = ast.parse(src)
    req = 'hoist.collect ' + pyast.enc_module(m)          # encoded before anything touches the tree
    add_parent(m)
    add_namespace(m)
    bind_names(m)
    resolve_names(m)
    seen = []
    real = rl.HoistLiterals.get_binding

    def recording(self, value, node, *args, **kwargs):
        seen.append(enc_value(value))
        return real(self, value, node, *args, **kwargs)
    rl.HoistLiterals.get_binding = recording
    try:
        h = rl.HoistLiterals()
        h(m)
    finally:
        rl.HoistLiterals.get_binding = real
    # what rename() will replace is the references of the bindings: they must be exactly the collected nodes
    refs = sum(len(b.references) for b in h._hoisted.values())
    # the dictionary of hoisted bindings, in creation order: value and number of references
    groups = ' '.join('%s:%d' % (enc_value(b.value), len(b.references)) for b in h._hoisted.values())
    return req, ' '.join(seen), refs, groups

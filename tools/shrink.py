"""Delta-debugging shrinker for failing programs: removes statements, replaces sub-expressions by simple names,
keeps the candidate only if it still compiles and the predicate (still fails) holds."""
import ast
import copy


def _compiles(src):
    try:
        compile(src, '<shrink>', 'exec', dont_inherit=True)
        return True
    except (SyntaxError, ValueError, RecursionError):
        return False


def _stmt_lists(tree):
    out = []
    for n in ast.walk(tree):
        for f in ('body', 'orelse', 'finalbody', 'handlers', 'cases'):
            v = getattr(n, f, None)
            if isinstance(v, list) and v and isinstance(v[0], (ast.stmt, ast.excepthandler, ast.match_case)):
                out.append((n, f))
    return out


def shrink(src, still_fails, max_rounds=6, budget=400):
    try:
        best = ast.parse(src)
    except SyntaxError:
        return src
    best_src = src
    tries = [0]

    def attempt(tree):
        if tries[0] >= budget:
            return None
        tries[0] += 1
        try:
            ast.fix_missing_locations(tree)
            s = ast.unparse(tree)
        except Exception:
            return None
        if len(s) >= len(best_src) or not _compiles(s):
            return None
        try:
            return s if still_fails(s) else None
        except Exception:
            return None

    for _ in range(max_rounds):
        changed = False
        # 1. drop statements
        lists = _stmt_lists(best)
        for li in range(len(lists)):
            node, f = _stmt_lists(best)[li] if li < len(_stmt_lists(best)) else (None, None)
            if node is None:
                break
            i = 0
            while i < len(getattr(node, f)):
                cand = copy.deepcopy(best)
                cn, cf = _stmt_lists(cand)[li]
                lst = getattr(cn, cf)
                if i >= len(lst):
                    break
                removed = lst.pop(i)
                if not lst and cf == 'body' and isinstance(removed, ast.stmt):
                    lst.append(ast.Pass())
                s = attempt(cand)
                if s is not None:
                    best, best_src, changed = ast.parse(s), s, True
                    node, f = _stmt_lists(best)[li] if li < len(_stmt_lists(best)) else (None, None)
                    if node is None:
                        break
                else:
                    i += 1
        # 2. replace expressions by a name
        exprs = [n for n in ast.walk(best) if isinstance(n, ast.expr) and not isinstance(n, (ast.Name, ast.Constant))]
        for k in range(len(exprs)):
            cand = copy.deepcopy(best)
            ce = [n for n in ast.walk(cand) if isinstance(n, ast.expr) and not isinstance(n, (ast.Name, ast.Constant))]
            if k >= len(ce):
                break
            target = ce[k]
            for parent in ast.walk(cand):
                for f, v in ast.iter_fields(parent):
                    if v is target:
                        setattr(parent, f, ast.Name(id='zz', ctx=getattr(target, 'ctx', ast.Load())))
                    elif isinstance(v, list):
                        for i, x in enumerate(v):
                            if x is target:
                                v[i] = ast.Name(id='zz', ctx=getattr(target, 'ctx', ast.Load()))
            s = attempt(cand)
            if s is not None:
                best, best_src, changed = ast.parse(s), s, True
        if not changed or tries[0] >= budget:
            break
    return best_src

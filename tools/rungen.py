"""Generator of *runnable*, deterministic, terminating Python programs.

Two families:
  core_program(rng)  — the PyCore fragment of lean/PMV/Spec/PyCore.lean (ints, bools, strings, None; assignment, if, while/else,
                       break/continue, print, assert, raise, global, calls of module-level functions).  Used to validate the Lean
                       semantics against CPython (spec validation) and as differential-execution inputs.
  program(rng)       — a much wider typed generator (closures, nonlocal, classes, properties, generators, comprehensions, lambdas,
                       try/except/finally, with, match, f-strings, imports, decorators, star args, keyword calls, annotations,
                       walrus, del, docstrings, repeated literals, constant arithmetic) for the differential-execution oracle.
Every program prints what it computes, so stdout carries the behaviour.  All loops are bounded by construction.
"""
import random

STRS = ['alpha', 'beta', 'gamma-delta', 'a longer string literal', 'x', '', 'key', 'value', 'hello world', 'spam', 'eggs and ham',
        'The quick brown fox', 'z' * 12, 'tab\there', 'quote\'s', 'dq"s', 'back\\slash', 'unié', 'nl\nline']
EXCS = ['ValueError', 'KeyError', 'TypeError', 'IndexError', 'RuntimeError', 'ZeroDivisionError', 'LookupError', 'ArithmeticError',
        'AttributeError', 'StopIteration', 'NotImplementedError', 'OSError', 'Exception']


# --------------------------------------------------------------------------------------------------------------------------
#  PyCore fragment
# --------------------------------------------------------------------------------------------------------------------------
class Core:
    def __init__(self, rng):
        self.rng = rng
        self.funcs = []          # (name, nparams)
        self.counter = 0
        self.short = rng.random() < 0.3
        self.taken = set()

    SHORT = [c for c in 'ABCDEFGHIJKLMNOPQRSTUVWXYZ'] + ['AA', 'AB', 'AC', 'AD', 'a', 'b', 'c', 'd']

    def fresh(self, p):
        """a new name; in short-name mode globals and locals are spelled like the names the renamer hands out, so that a
        renaming has to work around them (function names and parameters keep their prefix: call sites depend on them)"""
        self.counter += 1
        if self.short and p in ('g', 'l', 'm') and self.rng.random() < 0.7:
            pool = [n for n in self.SHORT if n not in self.taken]
            if pool:
                n = self.rng.choice(pool[:6])
                self.taken.add(n)
                return n
        return '%s%d' % (p, self.counter)

    def int_expr(self, env, d=0):
        r = self.rng
        ints = [v for v, t in env.items() if t == 'int']
        c = r.random()
        if d > 2 or c < 0.25:
            if ints and r.random() < 0.6:
                return r.choice(ints)
            return str(r.choice([0, 1, 2, 3, 5, 7, 10, 12, 100, 255, 1000, -1, -3, 65536, 2 ** 40]))
        if c < 0.65:
            op = r.choice(['+', '-', '*', '//', '%', '&', '|', '^', '+', '-', '*'])
            a, b = self.int_expr(env, d + 1), self.int_expr(env, d + 1)
            if op in ('//', '%') and r.random() < 0.85:
                b = str(r.choice([1, 2, 3, 7, -2, -5]))
            if op == '*':
                b = str(r.choice([0, 1, 2, 3, 7, -1]))
            return '(%s %s %s)' % (a, op, b)
        if c < 0.75:
            return '(-%s)' % self.int_expr(env, d + 1)
        if c < 0.9:
            return '(%s if %s else %s)' % (self.int_expr(env, d + 1), self.bool_expr(env, d + 1), self.int_expr(env, d + 1))
        return '(%s %s %s)' % (self.int_expr(env, d + 1), r.choice(['and', 'or']), self.int_expr(env, d + 1))

    def bool_expr(self, env, d=0):
        r = self.rng
        c = r.random()
        if d > 2 or c < 0.5:
            return '%s %s %s' % (self.int_expr(env, d + 1), r.choice(['<', '<=', '==', '!=', '>', '>=']), self.int_expr(env, d + 1))
        if c < 0.65:
            return '(not %s)' % self.bool_expr(env, d + 1)
        if c < 0.85:
            return '(%s %s %s)' % (self.bool_expr(env, d + 1), r.choice(['and', 'or']), self.bool_expr(env, d + 1))
        if c < 0.92:
            return r.choice(['True', 'False'])
        strs = [v for v, t in env.items() if t == 'str']
        if strs:
            return '%s == %s' % (r.choice(strs), self.str_expr(env, d + 1))
        return 'None == None'

    def str_expr(self, env, d=0):
        r = self.rng
        strs = [v for v, t in env.items() if t == 'str']
        c = r.random()
        if d > 1 or c < 0.5:
            if strs and r.random() < 0.5:
                return r.choice(strs)
            return repr(r.choice(STRS[:12]))
        return '(%s + %s)' % (self.str_expr(env, d + 1), self.str_expr(env, d + 1))

    def any_expr(self, env):
        c = self.rng.random()
        if c < 0.6:
            return self.int_expr(env), 'int'
        if c < 0.8:
            return self.str_expr(env), 'str'
        if c < 0.95:
            return self.bool_expr(env), 'int'
        return 'None', 'none'

    def block(self, env, genv, depth, in_func, in_loop, n=None):
        """returns list of lines; env is mutated with new variables (only unconditional ones are added by the caller)"""
        r = self.rng
        out = []
        for _ in range(n if n is not None else r.randint(1, 4)):
            out += self.stmt(env, genv, depth, in_func, in_loop)
        return out

    def stmt(self, env, genv, depth, in_func, in_loop):
        r = self.rng
        c = r.random()
        ind = '    '
        if c < 0.03 and in_func:
            # annotated locals: the annotation of a local is not evaluated; a value-less one only makes the name local
            if r.random() < 0.7:
                e, t = self.any_expr(env)
                v = self.fresh('l')
                env[v] = t
                return ['%s: %s = %s' % (v, r.choice(['int', 'str', 'object', "'forward'", 'undefined_name']), e)]
            return ['%s: %s' % (self.fresh('l'), r.choice(['int', 'str']))]
        if c < 0.22:
            e, t = self.any_expr(env)
            targets = [v for v, tt in env.items() if tt == t and not v.startswith('p_') and not v.startswith('k')] if r.random() < 0.5 else []
            if targets:
                v = r.choice(targets)
            else:
                v = self.fresh('l' if in_func else 'g')
            env[v] = t
            return ['%s = %s' % (v, e)]
        if c < 0.30:
            ints = [v for v, t in env.items() if t == 'int' and not v.startswith('k')]
            if ints:
                op = r.choice(['+', '-', '*', '//', '%', '|', '&', '^'])
                return ['%s %s= %s' % (r.choice(ints), op, self.int_expr(env) if r.random() < 0.7 and op != '*' else str(r.choice([1, 2, 3])))]
        if c < 0.48:
            args = [self.any_expr(env)[0] for _ in range(r.randint(0, 3))]
            return ['print(%s)' % ', '.join(args)]
        if c < 0.60 and depth < 3:
            body = [ind + l for l in self.block(cp(env), genv, depth + 1, in_func, in_loop)]
            lines = ['if %s:' % self.bool_expr(env)] + body
            if r.random() < 0.5:
                lines += ['else:'] + [ind + l for l in self.block(cp(env), genv, depth + 1, in_func, in_loop)]
            return lines
        if c < 0.70 and depth < 2:
            i = self.fresh('k')
            env[i] = 'int'
            body_env = cp(env)
            body = ['%s += 1' % i]
            body += self.block(body_env, genv, depth + 1, in_func, True)
            lines = ['%s = 0' % i, 'while %s < %d:' % (i, r.randint(0, 4))] + [ind + l for l in body]
            if r.random() < 0.3:
                lines += ['else:'] + [ind + l for l in self.block(cp(env), genv, depth + 1, in_func, in_loop, 1)]
            return lines
        if c < 0.71:
            return [r.choice(['pass', '0', "'doc'", 'None', '1.5', 'True'])]
        if c < 0.72 and depth < 3:
            test = r.choice(['__debug__', '__debug__ is True', '__debug__ is not False', '__debug__ == True', '__debug__ is False',
                             '__debug__ != True', '__debug__ is not True', '__debug__ == False'])
            bools = [v for v, t in env.items() if t == 'bool' and not v.startswith('k')]
            if bools and r.random() < 0.3:
                # compared with a name that holds a Boolean (what a hoisted True / False looks like)
                test = '__debug__ %s %s' % (r.choice(['is', 'is not', '==', '!=']), r.choice(bools))
            return ['if %s:' % test] + [ind + l for l in self.block(cp(env), genv, depth + 1, in_func, in_loop, r.randint(1, 2))]
        if c < 0.745 and depth < 2:
            v = self.fresh('l' if in_func else 'g')
            bound = r.choice(['0', '1', '2', '3', '(%s %% 4)' % self.int_expr(env, 2), '-1', 'True'])
            env[v] = 'int'
            body_env = cp(env)
            body = self.block(body_env, genv, depth + 1, in_func, True)
            lines = ['for %s in range(%s):' % (v, bound)] + [ind + l for l in body]
            if r.random() < 0.3:
                lines += ['else:'] + [ind + l for l in self.block(cp(env), genv, depth + 1, in_func, in_loop, 1)]
            return lines
        if c < 0.79 and depth < 2:
            caught = ['ZeroDivisionError', 'ValueError', 'KeyError', 'AssertionError', 'RuntimeError', 'Exception', 'IndexError', 'ArithmeticError', 'LookupError', 'NameError', 'OSError', 'UnicodeError', 'BaseException']
            body = self.block(cp(env), genv, depth + 1, in_func, in_loop, r.randint(1, 2))
            if r.random() < 0.6:
                body.append(r.choice(['raise %s' % r.choice(caught[:5] + ['OSError', 'StopIteration', 'NotImplementedError', 'KeyboardInterrupt', 'FileNotFoundError', 'UnicodeDecodeError', 'RecursionError']), 'print(1 // 0)', 'assert 1 == 2', 'raise %s()' % r.choice(caught[:5])]))
            lines = ['try:'] + [ind + l for l in body]
            nh = r.choice([0, 1, 1, 2])
            for _ in range(nh):
                ty = r.choice(caught)
                if r.random() < 0.25:
                    ty = '(%s, %s)' % (ty, r.choice(caught))
                if r.random() < 0.1:
                    ty = ''
                lines += [('except %s:' % ty) if ty else 'except:'] + [ind + l for l in self.block(cp(env), genv, depth + 1, in_func, in_loop, 1)]
                if not ty:
                    break
            if nh and r.random() < 0.4:
                lines += ['else:'] + [ind + l for l in self.block(cp(env), genv, depth + 1, in_func, in_loop, 1)]
            if nh == 0 or r.random() < 0.4:
                lines += ['finally:'] + [ind + l for l in self.block(cp(env), genv, depth + 1, in_func, in_loop, 1)]
            return lines
        if c < 0.80 and self.funcs:
            f, n = r.choice(self.funcs)
            if r.random() < 0.04:
                n = n + 1
            args = ', '.join(self.int_expr(env) for _ in range(n))
            if r.random() < 0.6:
                v = self.fresh('l' if in_func else 'g')
                env[v] = 'int'
                return ['%s = %s(%s)' % (v, f, args)]
            return ['%s(%s)' % (f, args)]
        if c < 0.84:
            return ['assert %s%s' % (self.bool_expr(env) if r.random() < 0.3 else '1 == 1', ", 'msg'" if r.random() < 0.3 else '')]
        if c < 0.86:
            e = r.choice(EXCS)
            return ['if %s:' % self.bool_expr(env), ind + 'raise %s%s' % (e, r.choice(['', '()']))]
        if c < 0.90 and in_loop:
            return ['if %s:' % self.bool_expr(env), ind + r.choice(['break', 'continue'])]
        if c < 0.96 and in_func:
            return ['if %s:' % self.bool_expr(env), ind + r.choice(['return', 'return None', 'return ' + self.int_expr(env)])]
        if c < 0.985:
            return self.imports()
        e, t = self.any_expr(env)
        return ['print(%s)' % e]

    MODULES = ['os', 'sys', 'math', 'json', 're', 'string', 'itertools', 'functools', 'collections', 'os.path', 'collections.abc',
               'json.decoder', 'json.encoder']
    FROM = {'os': ['path', 'sep', 'getcwd', 'environ'], 'math': ['pi', 'floor', 'sqrt'], 'collections': ['OrderedDict', 'deque', 'abc'],
            'json': ['dumps', 'loads', 'decoder'], 'itertools': ['chain', 'count'], 'functools': ['reduce', 'partial'],
            'os.path': ['join', 'basename'], 'string': ['digits', 'ascii_letters']}

    def imports(self):
        """a run of adjacent import statements (what combine_imports merges): the names they bind are not used afterwards"""
        r = self.rng
        out = []
        for _ in range(r.randint(1, 4)):
            if r.random() < 0.5:
                names = []
                for _ in range(r.randint(1, 3)):
                    m = r.choice(self.MODULES)
                    names.append(m + (' as %s' % self.fresh('m') if r.random() < 0.35 else ''))
                out.append('import ' + ', '.join(names))
            else:
                m = r.choice(sorted(self.FROM)) if r.random() < 0.7 or not out or not out[-1].startswith('from ') else out[-1].split()[1]
                names = []
                for _ in range(r.randint(1, 3)):
                    x = r.choice(self.FROM[m])
                    names.append(x + (' as %s' % self.fresh('m') if r.random() < 0.35 else ''))
                out.append('from %s import %s' % (m, ', '.join(names)))
        return out

    def function(self, genv):
        r = self.rng
        name = self.fresh('f')
        n = r.randint(0, 3)
        params = ['p_%s%d' % (name, i) for i in range(n)]
        if self.short:
            # parameters spelled like the names the renamer hands out (calls are positional): a parameter keeps its name in
            # the signature, so the names given to the other locals must work around it
            params = [self.fresh('l') if r.random() < 0.6 else p for p in params]
        env = dict((p, 'int') for p in params)
        lines = ['def %s(%s):' % (name, ', '.join(params))]
        gl = [g for g, t in genv.items() if t == 'int' and r.random() < 0.4]
        body = []
        if r.random() < 0.2:
            body.append(r.choice(['"""Docstring of %s."""' % name, "'first'", "'first'\n    'second'"]))
        if gl:
            body.append('global ' + ', '.join(gl))
            for g in gl:
                env[g] = 'int'
        for g, t in genv.items():           # read-only view of the other globals that exist before any call
            env.setdefault(g, t)
        assignable = cp(env)
        shadow = None
        if r.random() < 0.25:
            # a name that is local because it is assigned further down: reading it first raises UnboundLocalError,
            # whether or not a global of that name exists (the compiler decides statically)
            cands = [g for g, t in genv.items() if t == 'int' and g not in gl]
            shadow = r.choice(cands) if cands and r.random() < 0.6 else self.fresh('l')
            handler = r.choice(['NameError', 'UnboundLocalError', 'Exception', 'NameError', ''])
            if r.random() < 0.8:
                body += ['try:', '    print(%s)' % shadow, ('except %s:' % handler) if handler else 'except:', "    print('unbound')"]
            else:
                body += ['print(%s)' % shadow]
            body += ['%s = %d' % (shadow, r.randint(0, 9))]
            assignable[shadow] = 'int'
        body += self.block(assignable, genv, 1, True, False, r.randint(1, 5))
        # never assign a global that was not declared: rename such targets away is complicated; regenerate instead
        end = r.random()
        if end < 0.75:
            body.append('return ' + self.int_expr(assignable))
        elif end < 0.85:
            body.append('return None')
        elif end < 0.92:
            body.append('return')
        lines += ['    ' + l for l in body]
        self.funcs.append((name, n))
        return lines, set(gl) | ({shadow} if shadow else set())


def _assigns_undeclared_global(lines, genv, declared):
    import ast
    tree = ast.parse('\n'.join(lines))
    fn = tree.body[0]
    for node in ast.walk(fn):
        if isinstance(node, ast.Name) and isinstance(node.ctx, ast.Store) and node.id in genv and node.id not in declared:
            return True
    return False


def core_program(rng):
    g = Core(rng)
    genv = {}
    lines = []
    for i in range(rng.randint(1, 3)):
        v = g.fresh('g')
        e, t = g.any_expr(genv)
        genv[v] = t
        lines.append('%s = %s' % (v, e))
    defs = []
    for i in range(rng.randint(0, 3)):
        for attempt in range(20):
            saved = (list(g.funcs), g.counter)
            fl, declared = g.function(genv)
            if not _assigns_undeclared_global(fl, genv, declared):
                defs += fl
                break
            g.funcs, g.counter = saved
    body = g.block(genv, genv, 0, False, False, rng.randint(2, 7))
    return '\n'.join(defs + lines + body) + '\n'


# --------------------------------------------------------------------------------------------------------------------------
#  the wide generator
# --------------------------------------------------------------------------------------------------------------------------
def _fx(e):
    return '(%s)' % e if e.lstrip().startswith('{') or ':=' in e or '!' in e or ':' in e or 'lambda' in e else e


class Wide:
    """typed random programs; types: int, str, bool, list (of int), dict (str->int), none"""

    def __init__(self, rng, features=None):
        self.rng = rng
        self.n = 0
        self.int_funcs = []      # (name, min positional, max positional, keyword names)  callable returning int
        self.classes = []        # (name, has_value)
        self.used = set()
        self.imports = set()
        self.features = features
        # some programs are written with the names a minifier would choose (golfed / already minified code)
        self.short = rng.random() < 0.3
        self.short_pool = list('ABCDEFGHIJKLMNOPQRSTUVWXYZabcdefghijklmnopqrstuvwxyz') + ['_A', '_B', '_C', 'AA', 'AB']
        if self.short:
            head = self.short_pool[:8]
            rng.shuffle(head)
            self.short_pool[:8] = head

    def fresh(self, base):
        self.n += 1
        r = self.rng
        if self.short and base != 'c':
            if self.short_pool:
                return self.short_pool.pop(0)
            return 'Z%d' % self.n
        pool = {'v': ['value', 'result', 'total', 'count', 'index', 'item', 'data', 'acc', 'tmp', 'name', 'x', 'y', 'n', 'i', 'k', 'left', 'right'],
                'f': ['compute', 'helper', 'process', 'make', 'build', 'apply', 'fn', 'g', 'h'],
                'c': ['Thing', 'Node', 'Point', 'Box', 'Base', 'Item'],
                'a': ['arg', 'param', 'first', 'second', 'other', 'a', 'b', 'c', 'size', 'limit']}[base]
        return '%s_%d' % (r.choice(pool), self.n) if r.random() < 0.7 else '%s%d' % (r.choice(pool)[0], self.n)

    # ---- expressions ----
    def lit_int(self):
        r = self.rng
        c = r.random()
        if c < 0.5:
            return str(r.choice([0, 1, 2, 3, 4, 5, 7, 8, 10, 16, 42, 100, 255, 256, 1000, 1024, 65535, 99999, 123456789]))
        if c < 0.65:
            return r.choice(['0x10', '0xff', '0b101', '0o17', '1_000', '10**3', '2**10', '1<<4', '3*7', '100-1', '60*60*24', '2**31-1', '(1+2)*3', '-5', '~0', '7//2', '7%3', '-7//2'])
        if c < 0.8:
            return str(r.randint(-50, 50))
        return str(r.choice([2 ** 32, 2 ** 64 + 1, 10 ** 12, -2 ** 63]))

    def lit_str(self):
        r = self.rng
        s = r.choice(STRS)
        c = r.random()
        if c < 0.75:
            return repr(s)
        if c < 0.85:
            return repr(s[:3]) + ' ' + repr(s[3:])
        if c < 0.92:
            return '(%r * %d)' % (s[:4], r.randint(0, 3))
        return '%r.upper()' % s

    def names(self, env, t):
        return [v for v, tt in env.items() if tt == t]

    def expr(self, t, env, d=0):
        return getattr(self, 'e_' + t)(env, d)

    def e_int(self, env, d):
        r = self.rng
        ns = self.names(env, 'int')
        c = r.random()
        if d > 3 or c < 0.22:
            if ns and r.random() < 0.7:
                return r.choice(ns)
            return self.lit_int()
        if c < 0.45:
            op = r.choice(['+', '-', '*', '//', '%', '&', '|', '^', '+', '-', '*', '<<', '>>', '**'])
            a = self.e_int(env, d + 1)
            if op in ('//', '%'):
                b = str(r.choice([1, 2, 3, 7, 10, -3]))
            elif op in ('<<', '>>', '**'):
                b = str(r.choice([0, 1, 2, 3]))
                if op == '**':
                    a = '(%s %% 10)' % a
            else:
                b = self.e_int(env, d + 1)
            return '(%s %s %s)' % (a, op, b)
        if c < 0.50:
            return '(%s%s)' % (r.choice(['-', '~', '+']), self.e_int(env, d + 1))
        if c < 0.56:
            return 'len(%s)' % (self.e_list(env, d + 1) if r.random() < 0.5 else self.e_str(env, d + 1))
        if c < 0.62:
            return '(%s if %s else %s)' % (self.e_int(env, d + 1), self.e_bool(env, d + 1), self.e_int(env, d + 1))
        if c < 0.68:
            return '%s(%s or [0])' % (r.choice(['sum', 'max', 'min']), self.e_list(env, d + 1))
        if c < 0.76 and self.int_funcs:
            return self.call_int(env, d)
        if c < 0.80:
            ps = [self.fresh('a') for _ in range(r.randint(1, 2))]
            inner = cp(env)
            for p in ps:
                inner[p] = 'int'
            dflt = '=%s' % self.lit_int() if r.random() < 0.3 else ''
            return '(lambda %s: %s)(%s)' % (', '.join(ps[:-1] + [ps[-1] + dflt]), self.e_int(inner, d + 1), ', '.join(self.e_int(env, d + 2) for _ in ps))
        if c < 0.84:
            return 'int(%s)' % self.e_bool(env, d + 1)
        if c < 0.88:
            return '(%s or [%s])[%s]' % (self.e_list(env, d + 1), self.lit_int(), r.choice(['0', '-1']))
        if c < 0.92:
            return '%s.get(%s, %s)' % (self.e_dict(env, d + 1), self.e_str(env, d + 1), self.e_int(env, d + 1))
        if c < 0.95:
            return 'abs(%s)' % self.e_int(env, d + 1)
        if c < 0.97 and self.classes:
            cn, _ = r.choice(self.classes)
            return '%s(%s).%s' % (cn, self.e_int(env, d + 1), r.choice(['value', 'double()', 'prop']))
        return 'sum(%s for %s in range(%d))' % ('q_', 'q_', r.randint(0, 5)) if False else 'ord(%s[:1] or "a")' % self.e_str(env, d + 1)

    def call_int(self, env, d):
        r = self.rng
        name, lo, hi, kws, poskw = r.choice(self.int_funcs)
        npos = r.randint(lo, hi)
        use_poskw = poskw is not None and r.random() < 0.4
        if use_poskw:
            npos = r.randint(lo if lo < hi else hi - 1, hi - 1)
        args = [self.e_int(env, d + 1) for _ in range(npos)]
        if r.random() < 0.15 and npos >= 1:
            args = ['*[%s]' % ', '.join(args)]
        if use_poskw:
            args.append('%s=%s' % (poskw, self.e_int(env, d + 1)))
        for k in kws:
            if r.random() < 0.5:
                args.append('%s=%s' % (k, self.e_int(env, d + 1)))
        if kws and r.random() < 0.1:
            args = [a for a in args if '=' not in a or a.startswith(str(poskw) + '=')] + ['**{%r: %s}' % (kws[0], self.lit_int())]
        return '%s(%s)' % (name, ', '.join(args))

    def e_bool(self, env, d):
        r = self.rng
        ns = self.names(env, 'bool')
        c = r.random()
        if d > 3 or c < 0.1:
            if ns and r.random() < 0.5:
                return r.choice(ns)
            return r.choice(['True', 'False'])
        if c < 0.45:
            return '%s %s %s' % (self.e_int(env, d + 1), r.choice(['<', '<=', '==', '!=', '>', '>=']), self.e_int(env, d + 1))
        if c < 0.52:
            return '%s < %s <= %s' % (self.e_int(env, d + 1), self.e_int(env, d + 1), self.e_int(env, d + 1))
        if c < 0.6:
            return '(not %s)' % self.e_bool(env, d + 1)
        if c < 0.75:
            return '(%s %s %s)' % (self.e_bool(env, d + 1), r.choice(['and', 'or']), self.e_bool(env, d + 1))
        if c < 0.82:
            return '%s %s %s' % (self.e_int(env, d + 1), r.choice(['in', 'not in']), self.e_list(env, d + 1))
        if c < 0.88:
            return '%s %s %s' % (self.e_str(env, d + 1), r.choice(['==', '!=', 'in', '<']), self.e_str(env, d + 1))
        if c < 0.93:
            ns2 = self.names(env, 'int') + self.names(env, 'str')
            return '%s %s None' % (r.choice(ns2) if ns2 else 'None', r.choice(['is', 'is not']))
        if c < 0.97:
            e1 = self.e_int(env, d + 1)
            return '(%s := %s) > %s' % (self.walrus_target(env), e1, self.lit_int())
        return 'isinstance(%s, %s)' % (self.e_int(env, d + 1), r.choice(['int', 'str', '(int, str)', 'object']))

    def walrus_target(self, env):
        ns = assignable(env, 'int')
        if ns and self.rng.random() < 0.7 and not env.get('#nowalrus'):
            return self.rng.choice(ns)
        return self.fresh('v')

    def e_str(self, env, d):
        r = self.rng
        ns = self.names(env, 'str')
        c = r.random()
        if d > 3 or c < 0.3:
            if ns and r.random() < 0.5:
                return r.choice(ns)
            return self.lit_str()
        if c < 0.45:
            return '(%s + %s)' % (self.e_str(env, d + 1), self.e_str(env, d + 1))
        if c < 0.68:
            return self.fstring(env, d)
        if c < 0.74:
            return 'str(%s)' % self.e_int(env, d + 1)
        if c < 0.80:
            return "(%s %% (%s, %s))" % (repr(r.choice(['%s-%s', '%d/%r', '%5d|%-5s|', '%x %o'])), self.e_int(env, d + 1), self.e_int(env, d + 1))
        if c < 0.85:
            return "%s.join(str(%s) for %s in %s)" % (repr(r.choice([',', '', ' - '])), 'j_', 'j_', self.e_list(env, d + 1))
        if c < 0.9:
            return '%s[%s:%s]' % (self.e_str(env, d + 1), r.choice(['', '1', '-3']), r.choice(['', '2', '-1']))
        if c < 0.95:
            return '%s.%s' % (self.e_str(env, d + 1), r.choice(['upper()', 'strip()', 'title()', "replace('a', 'b')", 'format()', "center(10, '*')"]))
        return "'{} {x}'.format(%s, x=%s)" % (self.e_int(env, d + 1), self.e_str(env, d + 1))

    def fstring(self, env, d):
        r = self.rng
        parts = []
        q = r.choice(["'", '"'])
        for _ in range(r.randint(1, 3)):
            c = r.random()
            if c < 0.3:
                parts.append(r.choice(['a', ' b ', 'value=', '{{', '}}', ': ', '%', '#', 'x' * 5]))
            elif c < 0.6:
                parts.append('{%s%s}' % (_fx(self.e_int(env, d + 2)), r.choice(['', '', ':5', ':>8', ':03d', ':x', ':,', '!r', '!s:>4', ':{%s}' % r.choice(['4', '6'])])))
            elif c < 0.8:
                inner = self.e_str(env, d + 2)
                if q in inner or '\\' in inner or '\n' in inner:
                    inner = self.names(env, 'str')[0] if self.names(env, 'str') else 'str(1)'
                parts.append('{%s%s}' % (_fx(inner), r.choice(['', '!r', ':>10', ':^7', '!a'])))
            else:
                parts.append('{%s}' % ('len(%s)' % self.e_list(env, d + 2)))
        body = ''.join(parts)
        if q in body:
            q = '"' if q == "'" else "'"
            if q in body:
                return 'str(%s)' % self.e_int(env, d + 1)
        if '\\' in body or '\n' in body:
            return 'str(%s)' % self.e_int(env, d + 1)
        return 'f' + q + body + q

    def e_list(self, env, d):
        r = self.rng
        ns = self.names(env, 'list')
        c = r.random()
        if d > 3 or c < 0.3:
            if ns and r.random() < 0.6:
                return r.choice(ns)
            return '[%s]' % ', '.join(self.lit_int() for _ in range(r.randint(0, 4)))
        if c < 0.5:
            v = self.fresh('v')
            inner = cp(env)
            inner[v] = 'int'
            dict.__setitem__(inner, '#comp:' + v, True)
            cond = ' if %s' % self.e_bool(inner, d + 2) if r.random() < 0.5 else ''
            src = 'range(%d)' % r.randint(0, 5) if r.random() < 0.5 else self.e_list(env, d + 1)
            if r.random() < 0.2:
                w = self.fresh('v')
                inner[w] = 'int'
                dict.__setitem__(inner, '#comp:' + w, True)
                return '[%s for %s in %s for %s in range(%s %% 3)%s]' % (self.e_int(inner, d + 2), v, src, w, v, cond)
            return '[%s for %s in %s%s]' % (self.e_int(inner, d + 2), v, src, cond)
        if c < 0.6:
            return 'list(range(%s))' % r.choice(['3', '1, 5', '0, 10, 3', '0'])
        if c < 0.68:
            return 'sorted(%s%s)' % (self.e_list(env, d + 1), r.choice(['', ', reverse=True', ', key=lambda q: -q']))
        if c < 0.76:
            return '[*%s, %s]' % (self.e_list(env, d + 1), self.e_int(env, d + 1))
        if c < 0.82:
            return '%s[%s:%s]' % (self.e_list(env, d + 1), r.choice(['', '1']), r.choice(['', '-1', '2']))
        if c < 0.88:
            return 'list(map(lambda m: m %s %s, %s))' % (r.choice(['+', '*', '-']), self.lit_int(), self.e_list(env, d + 1))
        if c < 0.93:
            return '(%s + %s)' % (self.e_list(env, d + 1), self.e_list(env, d + 1))
        if c < 0.97:
            return 'list(%s.values())' % self.e_dict(env, d + 1)
        return 'list({%s for s_ in %s})' % ('s_ % 3', self.e_list(env, d + 1)) if False else 'sorted({s_ %% 3 for s_ in %s})' % self.e_list(env, d + 1)

    def e_dict(self, env, d):
        r = self.rng
        ns = self.names(env, 'dict')
        c = r.random()
        if d > 3 or c < 0.45:
            if ns and r.random() < 0.6:
                return r.choice(ns)
            return '{%s}' % ', '.join('%s: %s' % (repr(r.choice(STRS[:8])), self.lit_int()) for _ in range(r.randint(0, 3)))
        if c < 0.7:
            return '{str(d_): d_ * %s for d_ in range(%d)}' % (self.lit_int(), r.randint(0, 4))
        if c < 0.85:
            return '{**%s, %s: %s}' % (self.e_dict(env, d + 1), self.lit_str(), self.e_int(env, d + 1))
        return 'dict(%s=%s, %s=%s)' % (r.choice(['alpha', 'key']), self.e_int(env, d + 1), r.choice(['beta', 'value']), self.e_int(env, d + 1))

    def any(self, env, d=1):
        t = self.rng.choice(['int', 'int', 'int', 'str', 'str', 'bool', 'list', 'dict'])
        return self.expr(t, env, d), t

    # ---- statements ----
    def block(self, env, ctx, depth, n=None):
        out = []
        for _ in range(n if n is not None else self.rng.randint(1, 4)):
            out += self.stmt(env, ctx, depth)
        return out or ['pass']

    def ind(self, lines):
        return ['    ' + l for l in lines]

    def stmt(self, env, ctx, depth):
        """ctx: dict(func=bool, loop=bool, cls=bool, gen=bool)"""
        r = self.rng
        c = r.random()
        if c < 0.18:
            e, t = self.any(env)
            same = assignable(env, t)
            isnew = not (same and r.random() < 0.4)
            if not isnew:
                v = r.choice(same)
            else:
                v = self.fresh('v')
            ann = ''
            if isnew and r.random() < 0.12:
                ann = ': ' + {'int': 'int', 'str': 'str', 'bool': 'bool', 'list': r.choice(['list', 'list[int]', '"List[int]"']), 'dict': 'dict'}[t]
            env[v] = t
            return ['%s%s = %s' % (v, ann, e)]
        if c < 0.24:
            ns = assignable(env, 'int')
            if ns:
                return ['%s %s= %s' % (r.choice(ns), r.choice(['+', '-', '*', '//', '%', '|', '&', '^', '<<']), r.choice(['1', '2', '3']) if r.random() < 0.5 else '(%s %% 5 + 1)' % self.e_int(env, 2))]
        if c < 0.40:
            args = [self.any(env)[0] for _ in range(r.randint(1, 3))]
            kw = r.choice(['', '', '', ", sep='-'", ", end='!\\n'", ", sep=''"])
            return ['print(%s%s)' % (', '.join(args), kw)]
        if c < 0.48 and depth < 3:
            lines = ['if %s:' % self.e_bool(env, 1)] + self.ind(self.block(cp(env), ctx, depth + 1))
            for _ in range(r.choice([0, 0, 1, 2])):
                lines += ['elif %s:' % self.e_bool(env, 1)] + self.ind(self.block(cp(env), ctx, depth + 1))
            if r.random() < 0.5:
                lines += ['else:'] + self.ind(self.block(cp(env), ctx, depth + 1))
            return lines
        if c < 0.56 and depth < 3:
            return self.for_loop(env, ctx, depth)
        if c < 0.60 and depth < 2:
            i = self.fresh('v')
            env[i] = 'int'
            dict.__setitem__(env, '#comp:' + i, True)
            lctx = dict(ctx, loop=True)
            body = ['%s += 1' % i] + self.block(cp(env), lctx, depth + 1)
            lines = ['%s = 0' % i, 'while %s < %d:' % (i, r.randint(0, 4))] + self.ind(body)
            if r.random() < 0.3:
                lines += ['else:'] + self.ind(self.block(cp(env), ctx, depth + 1, 1))
            return lines
        if c < 0.66 and depth < 3:
            return self.try_stmt(env, ctx, depth)
        if c < 0.69:
            return [r.choice(['pass', '0', "'a literal statement'", 'None', '...', 'True', "b'bytes'", '1.5'])]
        if c < 0.72:
            return ['assert %s%s' % (r.choice(['True', '1', 'len("ab") == 2', 'not 0', self.e_int(env, 2) + ' is not None']), r.choice(['', ", 'message'", ', %s' % self.lit_str()]))]
        if c < 0.75 and ctx.get('loop'):
            return ['if %s:' % self.e_bool(env, 2), '    ' + r.choice(['break', 'continue'])]
        if c < 0.80 and ctx.get('func') and not ctx.get('nofn') and depth < 3:
            return self.nested_def(env, ctx, depth)
        if c < 0.83 and ctx.get('func'):
            v = 'return' if not ctx.get('gen') else 'return'
            if ctx.get('gen'):
                return ['yield %s' % self.e_int(env, 2)]
            return ['if %s:' % self.e_bool(env, 2), '    ' + r.choice(['return', 'return None'] + 6 * ['return ' + self.expr(ctx.get('ret', 'int'), env, 2)])]
        if c < 0.86 and depth < 3:
            return self.with_stmt(env, ctx, depth)
        if c < 0.89:
            a, b = self.fresh('v'), self.fresh('v')
            e1, e2 = self.e_int(env, 2), self.e_int(env, 2)
            env[a] = 'int'
            env[b] = 'int'
            form = r.choice(['%s, %s = %s, %s', '(%s, %s) = (%s, %s)', '[%s, %s] = %s, %s', '%s = %s = %s if True else %s'])
            return [form % (a, b, e1, e2)]
        if c < 0.91:
            a, b = self.fresh('v'), self.fresh('v')
            e1, e2 = self.e_int(env, 2), self.e_list(env, 2)
            env[a] = 'int'
            env[b] = 'list'
            return ['%s, *%s = [%s, *%s]' % (a, b, e1, e2)]
        if c < 0.93 and depth < 3:
            return self.match_stmt(env, ctx, depth)
        if c < 0.95:
            v = self.fresh('v')
            return ['%s = %s' % (v, self.lit_int()), 'del %s' % v]
        if c < 0.97:
            mod, what = r.choice([('math', 'floor'), ('math', 'gcd'), ('operator', 'add'), ('functools', 'reduce'), ('itertools', 'chain')])
            style = r.random()
            arg = self.e_int(env, 2)
            v = self.fresh('v')
            env[v] = 'int'
            if (mod, what) == ('math', 'floor'):
                use = '%s(%s / 2)'
            elif (mod, what) == ('math', 'gcd'):
                use = '%s(%s, 12)'
            elif (mod, what) == ('operator', 'add'):
                use = '%s(%s, 1)'
            elif (mod, what) == ('functools', 'reduce'):
                use = '%s(lambda r_, s_: r_ + s_, [%s, 1], 0)'
            else:
                use = 'len(list(%s([%s], [2])))'
            if style < 0.4:
                return ['import %s' % mod, '%s = %s' % (v, use % ('%s.%s' % (mod, what), arg))]
            if style < 0.7:
                al = self.fresh('f')
                return ['from %s import %s as %s' % (mod, what, al), '%s = %s' % (v, use % (al, arg))]
            return ['import %s as m_%d, sys' % (mod, self.n), '%s = %s' % (v, use % ('m_%d.%s' % (self.n, what), arg))]
        if ctx.get('func') and r.random() < 0.5:
            return ['if %s:' % self.e_bool(env, 2), '    raise %s' % self.raise_expr(env)]
        e, t = self.any(env)
        return ['print(%s)' % e]

    def raise_expr(self, env):
        r = self.rng
        e = r.choice(EXCS)
        c = r.random()
        if c < 0.3:
            return e
        if c < 0.6:
            return e + '()'
        if c < 0.75:
            return '%s(%s)' % (e, self.e_str(env, 2))
        if c < 0.9:
            return r.choice(['ImportError(name=%s)' % self.e_str(env, 2), "ImportError(name='mod', path=%s)" % self.e_str(env, 2), "NameError(name='missing')",
                             "AttributeError(name='attr', obj=None)", 'ValueError(*[%s])' % self.e_int(env, 2), 'KeyError(**{})', "ImportError(**{'name': 'kw'})"])
        return '%s() from None' % e

    def for_loop(self, env, ctx, depth):
        r = self.rng
        v = self.fresh('v')
        lctx = dict(ctx, loop=True)
        inner = cp(env)
        c = r.random()
        if c < 0.4:
            head = 'for %s in range(%s):' % (v, r.choice(['3', '1, 4', '0', '%s %% 4' % self.e_int(env, 2)]))
            inner[v] = 'int'
        elif c < 0.65:
            head = 'for %s in %s:' % (v, self.e_list(env, 2))
            inner[v] = 'int'
        elif c < 0.8:
            w = self.fresh('v')
            head = 'for %s, %s in enumerate(%s):' % (v, w, self.e_list(env, 2))
            inner[v] = 'int'
            inner[w] = 'int'
        elif c < 0.9:
            w = self.fresh('v')
            head = 'for %s, %s in sorted(%s.items()):' % (v, w, self.e_dict(env, 2))
            inner[v] = 'str'
            inner[w] = 'int'
        else:
            w = self.fresh('v')
            head = 'for (%s, %s) in zip(%s, %s):' % (v, w, self.e_list(env, 2), self.e_str(env, 2))
            inner[v] = 'int'
            inner[w] = 'str'
        lines = [head] + self.ind(self.block(inner, lctx, depth + 1))
        if r.random() < 0.25:
            lines += ['else:'] + self.ind(self.block(cp(env), ctx, depth + 1, 1))
        return lines

    def try_stmt(self, env, ctx, depth):
        r = self.rng
        body = self.block(cp(env), ctx, depth + 1)
        if r.random() < 0.7:
            body.append(r.choice(['raise %s' % self.raise_expr(env), 'raise %s' % self.raise_expr(env), 'print(1 // 0)', "print({}['missing'])", 'print([][1])', "int('x')", 'print(undefined_name_)']))
        lines = ['try:'] + self.ind(body)
        nh = r.choice([1, 1, 2, 0])
        names = r.sample(EXCS[:8], nh)
        for i, e in enumerate(names):
            alias = ''
            hb_env = cp(env)
            if r.random() < 0.5:
                a = self.fresh('v')
                alias = ' as ' + a
                hb = ['print(type(%s).__name__, str(%s)[:20], %s.args, getattr(%s, "name", None), getattr(%s, "path", None))' % (a, a, a, a, a)]
            else:
                hb = []
            kind = '(%s, %s)' % (e, r.choice(EXCS)) if r.random() < 0.2 else e
            hb += self.block(hb_env, ctx, depth + 1, 1)
            if r.random() < 0.1:
                hb.append('raise')
            lines += ['except %s%s:' % (kind, alias)] + self.ind(hb)
        if nh and r.random() < 0.6:
            lines += ['except Exception:' if r.random() < 0.7 else 'except:'] + self.ind(['print("caught")'] + self.block(cp(env), ctx, depth + 1, 1))
        if nh and r.random() < 0.3:
            lines += ['else:'] + self.ind(self.block(cp(env), ctx, depth + 1, 1))
        if nh == 0 or r.random() < 0.4:
            lines += ['finally:'] + self.ind(['print("finally")'] if r.random() < 0.5 else self.block(cp(env), dict(ctx, loop=False), depth + 1, 1))
        if nh == 0:
            # nothing catches: wrap so that the program goes on
            lines = ['try:'] + self.ind(lines) + ['except Exception as e_%d:' % self.n, '    print("outer", type(e_%d).__name__)' % self.n]
        return lines

    def with_stmt(self, env, ctx, depth):
        r = self.rng
        self.used.add('cm')
        a = self.fresh('v')
        inner = cp(env)
        inner[a] = 'int'
        c = r.random()
        if c < 0.5:
            head = 'with Managed(%s) as %s:' % (self.e_int(env, 2), a)
        elif c < 0.75:
            b = self.fresh('v')
            inner[b] = 'int'
            head = 'with Managed(%s) as %s, Managed(%s) as %s:' % (self.e_int(env, 2), a, self.e_int(env, 2), b)
        else:
            head = 'with Managed(%s):' % self.e_int(env, 2)
            del inner[a]
        return [head] + self.ind(self.block(inner, ctx, depth + 1))

    def match_stmt(self, env, ctx, depth):
        r = self.rng
        c = r.random()
        if c < 0.5:
            subj = '%s %% 4' % self.e_int(env, 2)
            v = self.fresh('v')
            i2 = cp(env)
            i2[v] = 'int'
            lines = ['match %s:' % subj,
                     '    case 0:'] + self.ind(self.ind(self.block(cp(env), ctx, depth + 1, 1))) + [
                     '    case 1 | 2:'] + self.ind(self.ind(self.block(cp(env), ctx, depth + 1, 1))) + [
                     '    case %s if %s > 0:' % (v, v)] + self.ind(self.ind(self.block(i2, ctx, depth + 1, 1))) + [
                     '    case _:'] + self.ind(self.ind(self.block(cp(env), ctx, depth + 1, 1)))
            return lines
        a, b = self.fresh('v'), self.fresh('v')
        i1 = cp(env)
        i1[a] = 'int'
        i2 = cp(i1)
        i2[b] = 'list'
        return ['match %s:' % self.e_list(env, 2),
                '    case []:'] + self.ind(self.ind(self.block(cp(env), ctx, depth + 1, 1))) + [
                '    case [%s]:' % a] + self.ind(self.ind(self.block(i1, ctx, depth + 1, 1))) + [
                '    case [%s, *%s]:' % (a, b)] + self.ind(self.ind(self.block(i2, ctx, depth + 1, 1)))

    def nested_def(self, env, ctx, depth):
        """a closure: reads enclosing variables, optionally rebinds one via nonlocal; called immediately"""
        r = self.rng
        name = self.fresh('f')
        ps = [self.fresh('a') for _ in range(r.randint(0, 2))]
        inner = dict((k, v) for k, v in env.items())
        for p in ps:
            inner[p] = 'int'
        body = []
        nl = [v for v in self.names(env, 'int') if env.get('#local:' + v)]
        if nl and r.random() < 0.5:
            t = r.choice(nl)
            body += ['nonlocal %s' % t, '%s += %s' % (t, self.lit_int())]
        fctx = dict(func=True, loop=False, ret='int', nofn=depth >= 2)
        for k in list(inner):
            if k.startswith('#local:'):
                del inner[k]
        benv = _LocalEnv(inner, set(k for k in env if not k.startswith('#')))
        body += self.block(benv, fctx, depth + 1, r.randint(1, 3))
        body.append('return %s' % self.e_int(benv, 2))
        if r.random() < 0.2:
            body.insert(0, '"""docstring of %s"""' % name)
        dec = []
        if r.random() < 0.15:
            self.used.add('deco')
            dec = ['@traced']
        lines = dec + ['def %s(%s):' % (name, ', '.join(ps))] + self.ind(body)
        call = '%s(%s)' % (name, ', '.join(self.e_int(env, 2) for _ in ps))
        v = self.fresh('v')
        env[v] = 'int'
        lines.append('%s = %s' % (v, call))
        return lines

    # ---- top-level definitions ----
    def function(self, genv):
        r = self.rng
        name = self.fresh('f')
        npos = r.randint(0, 3)
        pos = [self.fresh('a') for _ in range(npos)]
        ndef = r.randint(0, min(2, npos))
        posonly = r.randint(0, npos) if r.random() < 0.25 else 0
        kwonly = [self.fresh('a') for _ in range(r.choice([0, 0, 1, 2]))]
        star = r.random() < 0.2
        starkw = r.random() < 0.15
        env = dict(genv)
        sig = []
        for i, p in enumerate(pos):
            ann = ': int' if r.random() < 0.2 else ''
            d = '=%s' % self.lit_int() if i >= npos - ndef else ''
            if ann and d:
                d = ' = ' + d[1:]
            sig.append(p + ann + d)
            env[p] = 'int'
            env['#local:' + p] = True
            if posonly and i == posonly - 1:
                sig.append('/')
        if star:
            sig.append('*args')
            env['args'] = 'list'
        elif kwonly:
            sig.append('*')
        for k in kwonly:
            sig.append('%s=%s' % (k, self.lit_int()))
            env[k] = 'int'
            env['#local:' + k] = True
        if starkw:
            sig.append('**kwargs')
            env['kwargs'] = 'dict'
        ret = ' -> int' if r.random() < 0.2 else ''
        body = []
        if r.random() < 0.3:
            body.append(r.choice(['"""Compute something."""', "'single quoted doc'", '"""Multi\n    line doc."""']))
        gl = [g for g in self.names(genv, 'int') if r.random() < 0.25]
        if gl:
            body.append('global ' + ', '.join(gl))
            body.append('%s += 1' % gl[0])
        if star:
            body.append('args = list(args)')
        ctx = dict(func=True, loop=False, ret='int')
        benv = _LocalEnv(env, set(genv) - set(gl), gl)
        body += self.block(benv, ctx, 1, r.randint(2, 6))
        end = r.random()
        if end < 0.6:
            body.append('return %s' % self.e_int(benv, 1))
        elif end < 0.75:
            body.append('return None' if r.random() < 0.5 else 'return')
            body_ret_none = True
        lines = ['def %s(%s)%s:' % (name, ', '.join(sig), ret)] + self.ind(body)
        lo = npos - ndef
        poskw = pos[-1] if pos[posonly:] and not star and r.random() < 0.6 else None
        returns_int = end < 0.6
        if returns_int:
            self.int_funcs.append((name, lo, npos, kwonly, poskw))
        return lines, name, lo, npos

    def ending_function(self, genv):
        """a function whose last statement is a compound statement whose blocks end with (valueless or valued) returns"""
        r = self.rng
        name = self.fresh('f')
        p = self.fresh('a')
        env = dict(genv)
        env[p] = 'int'
        env['#local:' + p] = True
        benv = _LocalEnv(env, set(genv))
        ctx = dict(func=True, loop=False, ret='int', nofn=True)

        def blk(n=1):
            return self.block(cp(benv), ctx, 2, n)

        def ret():
            return r.choice(['return', 'return None', 'return', 'return %s' % self.e_int(benv, 2), 'print("end of block")'])
        body = self.block(benv, ctx, 1, r.randint(0, 2)) if r.random() < 0.6 else []
        kind = r.choice(['try-else', 'try-finally', 'if-else', 'with', 'nested', 'loop', 'try-else'])
        risky = r.choice(['print(10 // (%s %% 3))' % p, "print(int('12'))", 'print([1, 2][%s %% 3])' % p, 'print(%s)' % self.e_int(benv, 2)])
        if kind == 'try-else':
            tail = ['try:'] + self.ind([risky] + blk() + [ret()]) + ['except (ZeroDivisionError, IndexError):'] + self.ind(['print("handler")'] + ([ret()] if r.random() < 0.5 else [])) + \
                   ['else:'] + self.ind(['print("else block")'] + blk())
        elif kind == 'try-finally':
            tail = ['try:'] + self.ind([risky, ret()]) + ['except (ZeroDivisionError, IndexError):'] + self.ind(['print("handler")', ret()]) + ['finally:'] + self.ind(['print("finally block")'])
        elif kind == 'if-else':
            tail = ['if %s:' % self.e_bool(benv, 2)] + self.ind(blk() + [ret()]) + ['else:'] + self.ind(blk() + [ret()])
        elif kind == 'with':
            self.used.add('cm')
            tail = ['with Managed(%s):' % p] + self.ind(blk() + [ret()])
        elif kind == 'loop':
            tail = ['for %s_i in range(%s %% 3):' % (p, p)] + self.ind(['print("iteration")', ret()]) + ['else:'] + self.ind(['print("loop else")', ret()])
        else:
            tail = ['if %s %% 2:' % p] + self.ind(['try:'] + self.ind([risky, ret()]) + ['except (ZeroDivisionError, IndexError):'] + self.ind(['pass']) + ['else:'] + self.ind(['print("inner else")']))
        lines = ['def %s(%s):' % (name, p)] + self.ind(body + tail)
        calls = ['print(%s(%d))' % (name, k) for k in r.sample(range(0, 7), 3)]
        return lines, calls

    def generator_fn(self, genv):
        r = self.rng
        name = self.fresh('f')
        p = self.fresh('a')
        env = dict(genv)
        env[p] = 'int'
        env['#local:' + p] = True
        benv = _LocalEnv(env, set(genv))
        v = self.fresh('v')
        benv[v] = 'int'
        body = ['for %s in range(%s %% 5):' % (v, p)] + self.ind(self.block(benv, dict(func=True, loop=True, gen=True, nofn=True), 2, 2) + ['yield %s' % self.e_int(benv, 2)])
        if r.random() < 0.4:
            body.append('yield from [%s, %s]' % (self.lit_int(), self.lit_int()))
        if r.random() < 0.3:
            body.append('return %s' % self.lit_int())
        return ['def %s(%s):' % (name, p)] + self.ind(body), name

    def klass(self, genv):
        r = self.rng
        name = self.fresh('c')
        base = ''
        c = r.random()
        parent = None
        if c < 0.35:
            base = '(object)'
        elif c < 0.55 and self.classes:
            parent = r.choice(self.classes)[0]
            base = '(%s)' % parent
        elif c < 0.6:
            base = '()'
        lines = ['class %s%s:' % (name, base)]
        body = []
        if r.random() < 0.3:
            body.append('"""A %s."""' % name)
        cattr = self.fresh('v')
        body.append('%s%s = %s' % (cattr, ': int' if r.random() < 0.3 else '', self.lit_int()))
        if r.random() < 0.3:
            body.append('other_%d = %s + 1' % (self.n, cattr))
        if r.random() < 0.2:
            body.append('squares_%d = [q_ * 2 for q_ in range(3)]' % self.n)
        if r.random() < 0.2:
            body.append('__slots_like = ("a",)')
        env = dict(genv)
        env['self'] = 'obj'
        ienv = cp(env)
        ienv['value'] = 'int'
        ienv['#local:value'] = True
        init = ['def __init__(self, value=%s):' % self.lit_int()]
        ib = []
        if parent:
            ib.append(r.choice(['super().__init__(value)', 'super(%s, self).__init__(value)' % name, '%s.__init__(self, value)' % parent]))
        ib += ['self.value = value', 'self.__hidden = value + 1', 'self.label = %s' % self.e_str(_LocalEnv(ienv, set(genv)), 2)]
        init += self.ind(ib)
        body += init
        menv = _LocalEnv(cp(env), set(genv))
        mv = self.fresh('v')
        menv[mv] = 'int'
        body += ['def double(self):'] + self.ind(['%s = self.value * 2' % mv] + self.block(menv, dict(func=True, loop=False, ret='int', nofn=True), 2, 2) + ['return %s + self.__hidden - self.%s' % (mv, cattr)])
        body += ['@property', 'def prop(self):'] + self.ind(['return self.value + %s' % self.lit_int()])
        if r.random() < 0.5:
            body += ['@staticmethod', 'def make(%s):' % 'amount'] + self.ind(['return %s(amount + 1)' % name])
        if r.random() < 0.5:
            body += ['@classmethod', 'def build(cls, amount=2):'] + self.ind(['return cls(amount * %s)' % self.lit_int()])
        if r.random() < 0.5:
            body += ['def __repr__(self):'] + self.ind(["return f'%s({self.value!r}, {self.label!r})'" % name])
        if r.random() < 0.3:
            body += ['def __add__(self, other):'] + self.ind(['return %s(self.value + (other.value if isinstance(other, %s) else other))' % (name, name)])
        if r.random() < 0.3:
            body += ['def __len__(self):'] + self.ind(['return abs(self.value) % 7'])
        if r.random() < 0.3:
            body += ['def __eq__(self, other):'] + self.ind(['return isinstance(other, %s) and self.value == other.value' % name, ]) + ['__hash__ = None']
        if r.random() < 0.3:
            body += ['def describe(self, prefix=%s, *, suffix=%s):' % (self.lit_str(), self.lit_str())] + self.ind(['return prefix + str(self.value) + suffix'])
            self.describe = getattr(self, 'describe', []) + [name]
        lines += self.ind(body)
        self.classes.append((name, True))
        return lines, name

    def prelude(self):
        out = []
        if 'cm' in self.used:
            out += ['class Managed:',
                    '    def __init__(self, v):',
                    '        self.v = v',
                    '    def __enter__(self):',
                    "        print('enter', self.v)",
                    '        return self.v',
                    '    def __exit__(self, et, ev, tb):',
                    "        print('exit', self.v, et.__name__ if et else None)",
                    '        return et is not None and issubclass(et, KeyError)']
        if 'deco' in self.used:
            out += ['def traced(fn):',
                    '    def wrapper(*args, **kwargs):',
                    "        print('call', len(args), sorted(kwargs))",
                    '        return fn(*args, **kwargs)',
                    '    return wrapper']
        return out


def cp(env):
    if isinstance(env, _LocalEnv):
        return _LocalEnv(env, env.readonly, env.declared)
    return dict(env)


def assignable(env, t):
    ro = env.readonly if isinstance(env, _LocalEnv) else ()
    return [v for v, tt in env.items() if tt == t and v not in ro and not v.startswith('#') and ('#comp:' + v) not in env]


class _LocalEnv(dict):
    """environment of a function body: module globals are readable but must never be assigned (that would make them local and
    break earlier reads); `stmt` picks assignment targets from names(env, t), so hide the read-only globals from that choice by
    marking every *new* name local."""

    def __init__(self, base, readonly, declared=()):
        dict.__init__(self, base)
        self.readonly = set(readonly)
        self.declared = set(declared)

    def __setitem__(self, k, v):
        if k in self.readonly:
            raise ReadOnly(k)
        dict.__setitem__(self, k, v)
        if not k.startswith('#') and k not in self.declared:
            dict.__setitem__(self, '#local:' + k, True)


class ReadOnly(Exception):
    pass


def program(rng):
    """returns source text"""
    for attempt in range(50):
        try:
            return _program(rng)
        except ReadOnly:
            continue
    return 'print(1)\n'


def _program(rng):
    g = Wide(rng)
    genv = {}
    top = []
    if rng.random() < 0.3:
        top.append(rng.choice(['"""Module docstring."""', "'module doc'", '#!/usr/bin/env python3\n"""doc after shebang"""']))
    if rng.random() < 0.3:
        top.append(rng.choice(['import sys', 'import os, sys', 'import os\nimport sys\nimport math', 'from os import path\nfrom os import sep', 'import os.path as osp']))
    for _ in range(rng.randint(1, 4)):
        v = g.fresh('v')
        e, t = g.any(genv)
        genv[v] = t
        top.append('%s = %s' % (v, e))
    defs = []
    for _ in range(rng.randint(1, 4)):
        c = rng.random()
        if c < 0.55:
            lines, name, lo, hi = g.function(genv)
            defs += lines
        elif c < 0.75:
            lines, name = g.klass(genv)
            defs += lines
            v = g.fresh('v')
            defs.append('%s = %s(%s)' % (v, name, g.lit_int()))
            defs.append('print(%s.value, %s.double(), %s.prop, type(%s).__name__)' % (v, v, v, v))
        elif c < 0.88:
            lines, name = g.generator_fn(genv)
            defs += lines
            defs.append('print(list(%s(%s)))' % (name, g.lit_int()))
        else:
            lines, calls = g.ending_function(genv)
            defs += lines + calls
    body = g.block(genv, dict(func=False, loop=False), 0, rng.randint(3, 8))
    for _f in g.int_funcs:
        if rng.random() < 0.7:
            body.append('print(%s)' % g.call_int(genv, 1))
    src = '\n'.join(top + g.prelude() + defs + body) + '\n'
    return src

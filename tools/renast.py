"""Witness extraction for T01.13: from a module and its rename_locals-only minification, find for every module-level
function the renaming of its names and the parameters that got a copy (`new = parameter` at the start of the body)."""
import ast


class NoWitness(Exception):
    pass


def _is_doc(st):
    return isinstance(st, ast.Expr) and isinstance(st.value, ast.Constant) and isinstance(st.value.value, str)


def _pairs(a, b, out):
    """walk two trees of the same shape, collecting (old, new) name pairs"""
    if type(a) is not type(b):
        raise NoWitness('shape differs: %s vs %s' % (type(a).__name__, type(b).__name__))
    if isinstance(a, ast.Name):
        out.append((a.id, b.id))
        return
    if isinstance(a, ast.alias):
        if (a.asname is None) != (b.asname is None) or a.name != b.name:
            raise NoWitness('import alias differs')
        if a.asname is not None:
            out.append((a.asname, b.asname))
        return
    if isinstance(a, (ast.Global, ast.Nonlocal)):
        if len(a.names) != len(b.names):
            raise NoWitness('global statement differs')
        out.extend(zip(a.names, b.names))
        return
    for (fa, va), (fb, vb) in zip(ast.iter_fields(a), ast.iter_fields(b)):
        if isinstance(va, list):
            if not isinstance(vb, list) or len(va) != len(vb):
                raise NoWitness('list length differs in %s.%s' % (type(a).__name__, fa))
            for x, y in zip(va, vb):
                if isinstance(x, ast.AST):
                    _pairs(x, y, out)
                elif x != y:
                    raise NoWitness('field differs in %s.%s' % (type(a).__name__, fa))
        elif isinstance(va, ast.AST):
            if not isinstance(vb, ast.AST):
                raise NoWitness('field differs in %s.%s' % (type(a).__name__, fa))
            _pairs(va, vb, out)
        elif va != vb and fa not in ('lineno', 'col_offset', 'end_lineno', 'end_col_offset', 'kind', 'type_comment'):
            raise NoWitness('field differs in %s.%s: %r vs %r' % (type(a).__name__, fa, va, vb))


def function_witness(fa, fb):
    """→ (pairs, copied parameters in order)"""
    params = [x.arg for x in fa.args.posonlyargs + fa.args.args]
    if [x.arg for x in fb.args.posonlyargs + fb.args.args] != params:
        raise NoWitness('parameters renamed in place')
    extra = len(fb.body) - len(fa.body)
    if extra < 0:
        raise NoWitness('statements were removed')
    docs = 0
    while docs < len(fb.body) and _is_doc(fb.body[docs]):
        docs += 1
    docs = min(docs, len(fb.body) - extra)
    pro_stmts = fb.body[docs:docs + extra]
    rest = fb.body[:docs] + fb.body[docs + extra:]
    pairs, pro = [], []
    for st in pro_stmts:
        if not (isinstance(st, ast.Assign) and len(st.targets) == 1 and isinstance(st.targets[0], ast.Name) and isinstance(st.value, ast.Name)
                and st.value.id in params):
            raise NoWitness('an inserted statement is not a parameter copy')
        pairs.append((st.value.id, st.targets[0].id))
        pro.append(st.value.id)
    for x, y in zip(fa.body, rest):
        _pairs(x, y, pairs)
    mapping = {}
    for old, new in pairs:
        if mapping.setdefault(old, new) != new:
            raise NoWitness('%s is renamed to both %s and %s' % (old, mapping[old], new))
    return sorted((o, n) for o, n in mapping.items() if o != n), pro


def module_witness(src, minified):
    """→ list of (function name, pairs, copied parameters) for the module-level plain functions"""
    ta, tb = ast.parse(src), ast.parse(minified)
    if len(ta.body) != len(tb.body):
        raise NoWitness('module statement count differs')
    out = []
    for a, b in zip(ta.body, tb.body):
        if isinstance(a, ast.FunctionDef):
            if not isinstance(b, ast.FunctionDef) or a.name != b.name:
                raise NoWitness('function %s was renamed or replaced' % a.name)
            pairs, pro = function_witness(a, b)
            out.append((a.name, pairs, pro))
    return out

"""the name part of taint detection (resolve_names.get_binding reaching the module for exec / eval / locals / globals / vars) against
its Lean model (PMV.Taint.taintedByNames; theorems T09.4)."""
import ast
import resolver_corr
import sexp


def request_for(src):
    """→ (driver request, module.tainted after bind_names, module.tainted after resolve_names, number of lookups)"""
    from python_minifier.ast_annotation import add_parent
    from python_minifier.rename import add_namespace, bind_names
    import importlib
    rn = importlib.import_module('python_minifier.rename.resolve_names')
    m = ast.parse(src)
    add_parent(m)
    add_namespace(m)
    bind_names(m)
    before = bool(m.tainted)
    ordered, index, enc = resolver_corr.dump_namespaces(m)       # the tree as bind_names left it
    lookups = []
    real = rn.get_binding

    def recording(name, namespace, *args, **kwargs):
        # (whatever else a later version of get_binding takes is passed through)
        if id(namespace) in index:
            lookups.append((name, index[id(namespace)]))
        return real(name, namespace, *args, **kwargs)
    rn.get_binding = recording
    try:
        rn.resolve_names(m)
    finally:
        rn.get_binding = real
    after = bool(m.tainted)
    req = 'taint.names %s %s' % (enc, sexp.lst(['(%s %d)' % (sexp.enc_str(x), n) for x, n in lookups]))
    return req, before, after, len(lookups)

"""the name part of taint detection (resolve_names.get_binding reaching the module for exec / eval / locals / globals / vars) against
its Lean model (PMV.Taint.taintedByNames; theorems T09.4)."""
import ast
import resolver_corr
import sexp


def request_for(src):
    """→ (driver request, module.tainted after bind_names, module.tainted after resolve_names, number of lookups)"""
    from python_minifier.ast_annotation import add_parent
    from python_minifier.rename import add_namespace, bind_names
    import importlib
    rn = importlib.import_module('python_minifier.rename.resolve_names')
    m = ast.parse(src)
    add_parent(m)
    add_namespace(m)
    bind_names(m)
    before = bool(m.tainted)
    ordered, index, enc = resolver_corr.dump_namespaces(m)       # the tree as bind_names left it
    lookups = []
    real = rn.get_binding

    def recording(name, namespace, *args, **kwargs):
        # (whatever else a later version of get_binding takes is passed through)
        if id(namespace) in index:
            lookups.append((name, index[id(namespace)]))
        return real(name, namespace, *args, **kwargs)
    rn.get_binding = recording
    try:
        rn.resolve_names(m)
    finally:
        rn.get_binding = real
    after = bool(m.tainted)
    req = 'taint.names %s %s' % (enc, sexp.lst(['(%s %d)' % (sexp.enc_str(x), n) for x, n in lookups]))
    return req, before, after, len(lookups)


def syntactic_requests(src):
    """→ (taint.imports request, module.tainted after bind_names, taint.declared request, [is_only_declared(b) for the module's
    bindings after resolve_names], whether the loop of minify() would taint the module)"""
    from python_minifier.ast_annotation import add_parent
    from python_minifier.rename import add_namespace, bind_names, resolve_names
    from python_minifier.rename.util import is_only_declared
    import pyast
    m = ast.parse(src)
    imports_req = 'taint.imports ' + pyast.enc_module(m)
    add_parent(m)
    add_namespace(m)
    bind_names(m)
    before = bool(m.tainted)
    resolve_names(m)
    items, flags = [], []
    loop = False
    for b in m.bindings:
        name = b.name if isinstance(b.name, str) else ''
        kinds = []
        for node in b.references:
            if isinstance(node, ast.Global):
                kinds.append('g')
            elif isinstance(node, ast.Name) and isinstance(node.ctx, ast.Load):
                kinds.append('l')
            else:
                kinds.append('o')
        items.append('(%s (%s))' % (sexp.enc_str(name), ' '.join(kinds)))
        f = bool(is_only_declared(b))
        flags.append(f)
        if name in ('exec', 'eval', 'locals', 'globals', 'vars') and f:
            loop = True
    return imports_req, before, 'taint.declared (%s)' % ' '.join(items), flags, loop

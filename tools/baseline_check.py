"""Run the repository's baseline test command (guard off) and compare with BASELINE.json's stable_pass list."""
import json
import os
import subprocess
import sys
import xml.etree.ElementTree as ET

out = sys.argv[1] if len(sys.argv) > 1 else '/tmp/pmv_baseline.junit.xml'
env = dict(os.environ)
env.pop('PYTHON_MINIFIER_VERIF', None)
cmd = ['/venv/bin/python', '-m', 'pytest', '-ra', '-q', '-p', 'no:cacheprovider', '--timeout=900',
       '--continue-on-collection-errors', '--junitxml=' + out]
p = subprocess.run(cmd, cwd='/repo', env=env, stdout=subprocess.PIPE, stderr=subprocess.STDOUT, text=True)
print(p.stdout[-1500:])
base = json.load(open('/root/.vp/BASELINE.json'))
stable = set(base['stable_pass'])
passed = set()
for tc in ET.parse(out).getroot().iter('testcase'):
    ok = not any(c.tag in ('failure', 'error', 'skipped') for c in tc)
    name = '%s::%s' % (tc.get('classname'), tc.get('name'))
    if ok:
        passed.add(name)
missing = sorted(stable - passed)
print('stable_pass=%d passed_now=%d stable_not_passing=%d' % (len(stable), len(passed), len(missing)))
for m in missing[:40]:
    print('  NOT PASSING:', m)
sys.exit(1 if missing else 0)

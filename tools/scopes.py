"""Independent model of CPython's scoping rules (symbol resolution of every name occurrence), used as
the *specification* side of the renaming oracles.  Written from the language reference; validated
against the `symtable` module by `validate_against_symtable` (spec validation, DESIGN §2 D).

A scope is identified by its *path*: the sequence of child indices from the module scope, which is
stable under renaming, so scopes of input and output can be matched positionally."""
import ast
import symtable

FUNC_LIKE = ('function', 'lambda', 'comp', 'typeparams', 'typealias')


class Scope(object):
    def __init__(self, kind, name, parent, node):
        self.kind, self.name, self.parent, self.node = kind, name, parent, node
        self.children = []
        self.bound = set()
        self.global_decl = set()
        self.nonlocal_decl = set()
        self.used = set()
        self.params = []
        self.path = () if parent is None else parent.path + (len(parent.children),)
        if parent is not None:
            parent.children.append(self)

    def __repr__(self):
        return 'Scope(%s %s %r)' % (self.kind, self.name, self.path)


class Occ(object):
    """One occurrence of an identifier that is subject to scoping."""
    __slots__ = ('name', 'scope', 'ctx', 'node', 'field', 'index')

    def __init__(self, name, scope, ctx, node, field, index=None):
        self.name, self.scope, self.ctx, self.node, self.field, self.index = name, scope, ctx, node, field, index


class Builder(ast.NodeVisitor):
    def __init__(self):
        self.occs = []
        self.scope = None
        self.errors = []

    # -- helpers
    def mangle(self, name, scope=None):
        """private name mangling: inside a class (its body and every function nested in it, up to the next class) an
        identifier `__x` that does not end in two underscores is the name `_Class__x`"""
        if not (isinstance(name, str) and name.startswith('__') and not name.endswith('__') and '.' not in name):
            return name
        s = scope or self.scope
        while s is not None and s.kind != 'class':
            s = s.parent
        if s is None:
            return name
        cls = s.name.lstrip('_')
        return name if not cls else '_' + cls + name

    def bind(self, name, node, field, index=None, scope=None):
        s = scope or self.scope
        name = self.mangle(name, s)
        s.bound.add(name)
        self.occs.append(Occ(name, s, 'bind', node, field, index))

    def use(self, name, node, field):
        name = self.mangle(name)
        self.scope.used.add(name)
        self.occs.append(Occ(name, self.scope, 'use', node, field))

    def enter(self, kind, name, node):
        self.scope = Scope(kind, name, self.scope, node)
        return self.scope

    def leave(self):
        self.scope = self.scope.parent

    # -- module
    def build(self, tree):
        self.scope = Scope('module', '<module>', None, tree)
        root = self.scope
        for s in tree.body:
            self.visit(s)
        return root

    # -- names
    def visit_Name(self, node):
        if isinstance(node.ctx, ast.Load):
            self.use(node.id, node, 'id')
        else:
            self.bind(node.id, node, 'id')

    def visit_NamedExpr(self, node):
        self.visit(node.value)
        # the target binds in the nearest enclosing scope that is not a comprehension
        s = self.scope
        while s.kind == 'comp':
            s = s.parent
        if s.kind == 'class' and self.scope.kind == 'comp':
            self.errors.append('walrus in a class-body comprehension')
        self.bind(node.target.id, node.target, 'id', scope=s)
        if s is not self.scope:
            # every comprehension in between sees the name as free (or global)
            t = self.scope
            while t is not s:
                t.used.add(node.target.id)
                t = t.parent

    def visit_Global(self, node):
        for i, n in enumerate(node.names):
            n = self.mangle(n)
            self.scope.global_decl.add(n)
            self.occs.append(Occ(n, self.scope, 'decl', node, 'names', i))

    def visit_Nonlocal(self, node):
        for i, n in enumerate(node.names):
            n = self.mangle(n)
            self.scope.nonlocal_decl.add(n)
            self.occs.append(Occ(n, self.scope, 'decl', node, 'names', i))

    # -- definitions
    def _type_params(self, node):
        tps = getattr(node, 'type_params', None) or []
        if tps:
            self.enter('typeparams', getattr(node, 'name', '<tp>') if not isinstance(getattr(node, 'name', None), ast.AST) else node.name.id, node)
            for tp in tps:
                self.bind(tp.name, tp, 'name')
                for f in ('bound', 'default_value'):
                    v = getattr(tp, f, None)
                    if v is not None:
                        self.visit(v)
            return True
        return False

    def _arguments(self, args, inner):
        """defaults and annotations belong to the enclosing scope, parameters to `inner`."""
        for d in args.defaults + [d for d in args.kw_defaults if d is not None]:
            self.visit(d)
        allargs = list(getattr(args, 'posonlyargs', [])) + args.args + args.kwonlyargs
        if args.vararg:
            allargs.append(args.vararg)
        if args.kwarg:
            allargs.append(args.kwarg)
        for a in allargs:
            if a.annotation is not None:
                self.visit(a.annotation)
        return allargs

    def visit_FunctionDef(self, node):
        for d in node.decorator_list:
            self.visit(d)
        self.bind(node.name, node, 'name')
        tp = self._type_params(node)
        allargs = self._arguments(node.args, None)
        if node.returns is not None:
            self.visit(node.returns)
        s = self.enter('function', node.name, node)
        for a in allargs:
            s.params.append(a.arg)
            self.bind(a.arg, a, 'arg')
        for st in node.body:
            self.visit(st)
        self.leave()
        if tp:
            self.leave()

    visit_AsyncFunctionDef = visit_FunctionDef

    def visit_Lambda(self, node):
        allargs = self._arguments(node.args, None)
        s = self.enter('lambda', '<lambda>', node)
        for a in allargs:
            s.params.append(a.arg)
            self.bind(a.arg, a, 'arg')
        self.visit(node.body)
        self.leave()

    def visit_ClassDef(self, node):
        for d in node.decorator_list:
            self.visit(d)
        self.bind(node.name, node, 'name')
        tp = self._type_params(node)
        for b in node.bases:
            self.visit(b)
        for k in node.keywords:
            self.visit(k.value)
        self.enter('class', node.name, node)
        for st in node.body:
            self.visit(st)
        self.leave()
        if tp:
            self.leave()

    def visit_TypeAlias(self, node):
        self.bind(node.name.id, node.name, 'id')
        tp = self._type_params(node)
        self.enter('typealias', node.name.id, node)
        self.visit(node.value)
        self.leave()
        if tp:
            self.leave()

    def _comp(self, node, elts):
        gens = node.generators
        self.visit(gens[0].iter)
        self.enter('comp', '<comp>', node)
        for i, g in enumerate(gens):
            if i > 0:
                self.visit(g.iter)
            self.visit(g.target)
            for c in g.ifs:
                self.visit(c)
        for e in elts:
            self.visit(e)
        self.leave()

    def visit_ListComp(self, node):
        self._comp(node, [node.elt])

    visit_SetComp = visit_ListComp
    visit_GeneratorExp = visit_ListComp

    def visit_DictComp(self, node):
        self._comp(node, [node.key, node.value])

    # -- other binders
    def visit_alias(self, node):
        if node.name == '*':
            return
        if node.asname is not None:
            self.bind(node.asname, node, 'asname')
        else:
            self.bind(node.name.split('.')[0], node, 'name')

    def visit_ExceptHandler(self, node):
        if node.type is not None:
            self.visit(node.type)
        if node.name is not None:
            self.bind(node.name, node, 'name')
        for s in node.body:
            self.visit(s)

    def visit_MatchAs(self, node):
        if node.pattern is not None:
            self.visit(node.pattern)
        if node.name is not None:
            self.bind(node.name, node, 'name')

    def visit_MatchStar(self, node):
        if node.name is not None:
            self.bind(node.name, node, 'name')

    def visit_MatchMapping(self, node):
        for k in node.keys:
            self.visit(k)
        for p in node.patterns:
            self.visit(p)
        if node.rest is not None:
            self.bind(node.rest, node, 'rest')

    def visit_AnnAssign(self, node):
        # symtable.c: a simple Name target is local even without a value; a parenthesised Name target
        # binds only when there is a value, and is otherwise not even visited
        if node.value is not None:
            self.visit(node.value)
        self.visit(node.annotation)
        if isinstance(node.target, ast.Name):
            if node.simple or node.value is not None:
                self.visit(node.target)
        else:
            self.visit(node.target)


def build(tree):
    b = Builder()
    root = b.build(tree)
    return root, b.occs, b.errors


def is_bound_here(scope, name):
    return name in scope.bound and name not in scope.global_decl and name not in scope.nonlocal_decl


def resolve(scope, name):
    """Where does `name`, occurring in `scope`, live?  ('local', path) / ('cell', path) / ('class', path)
    / ('global', ()) for module-level names, builtins and undefined names alike."""
    if name in scope.global_decl:
        return ('global', ())
    if name in scope.nonlocal_decl:
        s = scope.parent
        while s is not None:
            if s.kind in FUNC_LIKE and is_bound_here(s, name):
                return ('cell', s.path)
            s = s.parent
        return ('error', scope.path)
    if is_bound_here(scope, name):
        if scope.kind == 'module':
            return ('global', ())
        if scope.kind == 'class':
            return ('class', scope.path)
        return ('local', scope.path)
    s = scope.parent
    while s is not None:
        if s.kind in FUNC_LIKE:
            if name in s.global_decl:
                return ('global', ())
            if is_bound_here(s, name):
                return ('cell', s.path)
            if name in s.nonlocal_decl:
                pass        # keep looking outwards
        elif s.kind == 'module':
            return ('global', ())
        s = s.parent
    return ('global', ())


def all_scopes(root):
    out = [root]
    for c in root.children:
        out.extend(all_scopes(c))
    return out


def module_bound_names(root):
    """Names bound at module level, including those bound in a nested scope that declares them `global`.  A name that is
    declared global but never bound anywhere is *not* bound by the module: it is set from outside, or it is a builtin."""
    names = set(n for n in root.bound)
    for s in all_scopes(root):
        for n in s.global_decl:
            if n in s.bound:
                names.add(n)
    return names


# ------------------------------------------------------------------ validation against symtable

def _sym_children(table):
    return [c for c in table.get_children()]


def validate_against_symtable(src):
    """Compare, scope by scope, this module's classification of every name with symtable's.
    Returns a list of disagreement descriptions (empty = agree); None if not applicable."""
    try:
        tree = ast.parse(src)
        top = symtable.symtable(src, '<scopes>', 'exec')
    except (SyntaxError, ValueError, RecursionError):
        return None
    root, occs, errors = build(tree)
    problems = []

    def kind_of(t):
        ty = t.get_type()
        ty = getattr(ty, 'value', ty)
        return str(ty)

    def walk(scope, table):
        names = set(scope.bound) | set(scope.used) | scope.global_decl | scope.nonlocal_decl
        for n in sorted(names):
            try:
                sym = table.lookup(n)
            except KeyError:
                if n in scope.used or n in scope.bound:
                    problems.append('%r: name %s unknown to symtable' % (scope, n))
                continue
            r = resolve(scope, n)
            if scope.kind == 'class' and n in ('__class__', '__classdict__'):
                continue
            if r[0] == 'global':
                ok = sym.is_global() or (scope.kind == 'module' and (sym.is_local() or not sym.is_assigned()))
            elif r[0] in ('local', 'class'):
                ok = sym.is_local() and not sym.is_free()
            elif r[0] == 'cell':
                ok = sym.is_free()
            else:
                ok = True
            if not ok:
                problems.append('%r: %s resolved as %r but symtable says local=%s global=%s free=%s' % (
                    scope, n, r, sym.is_local(), sym.is_global(), sym.is_free()))
        kids = _sym_children(table)

        def effective(sc):
            out = []
            for c in sc.children:
                if c.kind == 'comp' and not isinstance(c.node, ast.GeneratorExp):
                    out.extend(effective(c))       # PEP 709: list/set/dict comprehensions are inlined in 3.12
                else:
                    out.append(c)
            return out
        mine = effective(scope)
        if len(kids) != len(mine):
            problems.append('%r: %d child scopes vs symtable %d (%s)' % (scope, len(mine), len(kids), [k.get_name() for k in kids]))
            return
        # match the i-th child of each (name) with symtable's i-th child of that name (creation order can
        # differ across kinds for scopes nested in inlined comprehensions)
        def label(sc):
            if sc.kind == 'lambda':
                return 'lambda'
            if sc.kind == 'comp':
                return 'genexpr'
            return sc.name
        queues = {}
        for k in kids:
            queues.setdefault(k.get_name(), []).append(k)
        for m in mine:
            q = queues.get(label(m)) or []
            if not q:
                problems.append('%r: child %r has no symtable counterpart' % (scope, m))
                continue
            walk(m, q.pop(0))
    walk(root, top)
    return problems


# ------------------------------------------------------------------ PEP 709 (CPython 3.12) capture of inlined comprehension names

def pep709_captures(root):
    """CPython 3.12 compiles list, set and dict comprehensions inline in the function that contains them.  symtable.c copies the
    comprehension's symbols into the function's table when the function has no symbol of that name yet (first comprehension
    wins); a name that arrives as a comprehension *local* and is free in any child scope becomes a cell of the function, so the
    child scope is bound to the comprehension's variable instead of the binding further out (observed on 3.12.1: NameError
    'cannot access free variable').  Returns the set of (function path, name) where that happens; empty before 3.12."""
    import sys
    caps = set()
    if sys.version_info < (3, 12):
        return caps

    def inlined(c, parent):
        return c.kind == 'comp' and not isinstance(c.node, ast.GeneratorExp) and parent.kind != 'class'

    def analyze(sc):
        own = set(sc.bound) | set(sc.used) | sc.global_decl | sc.nonlocal_decl
        sym = {}
        for n in own:
            if n in sc.global_decl:
                sym[n] = 'global'
            elif n in sc.nonlocal_decl:
                sym[n] = 'free'
            elif n in sc.bound:
                sym[n] = 'local'
            else:
                sym[n] = 'free'
        from_comp = set()
        newfree = set()
        for c in sc.children:
            cf = analyze(c)
            if inlined(c, sc):
                for k, v in c._sym.items():
                    if k not in sym:
                        sym[k] = v
                        if v == 'local':
                            from_comp.add(k)
            newfree |= cf
        if sc.kind in FUNC_LIKE:
            for n in from_comp:
                if n in newfree:
                    caps.add((sc.path, n))
            free = set(n for n, v in sym.items() if v == 'free') | set(n for n in newfree if sym.get(n) not in ('local', 'global'))
            for n in free:
                sym.setdefault(n, 'free')       # update_symbols: unresolved free names of children are recorded as FREE
        elif sc.kind == 'class':
            free = set(n for n, v in sym.items() if v == 'free') | newfree
        else:
            free = set()
        sc._sym = sym
        return free

    analyze(root)
    return caps

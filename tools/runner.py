#!/venv/bin/python
"""./check Cxx --tier quick|thorough [--replay path]

Flow (DESIGN §4): extract tables from the current /repo → lake build the property's theorems and
the model driver → audit axioms / forbidden tokens → replay regressions and known findings →
correspondence (model vs implementation) and spec validation → oracles on the real code →
decide, write evidence, exit 0/1 (2 = harness failure / timeout)."""
import argparse
import fcntl
import hashlib
import importlib
import json
import os
import random
import re
import subprocess
import sys
import time
import traceback

sys.path.insert(0, os.path.dirname(os.path.abspath(__file__)))
import common  # noqa: E402
from common import VERIF, LEAN_DIR, EVIDENCE_DIR, REPLAY_DIR, DRIVER  # noqa: E402

ALLOWED_AXIOMS = {'propext', 'Classical.choice', 'Quot.sound'}
FORBIDDEN = re.compile(r'\b(sorry|admit|native_decide|bv_decide|implemented_by|unsafe)\b|^axiom |maxHeartbeats 0')

TRUSTED_BASE = [
    'Lean 4.33.0 kernel; axioms of every property theorem audited to be within {propext, Classical.choice, Quot.sound}; no sorry/admit/native_decide/bv_decide/implemented_by/unsafe (grep on every run)',
    'tools/extract.py: reads the tables it claims (argparse actions, observed forwarding, signatures, printer tables) from the current /repo/src; fails closed',
    'PMV/Sexp.lean + tools/sexp.py serialisation and the diffing harness',
    'hand-written Lean models (PMV/Model/*): faithful outside the compared inputs only as far as the correspondence samples show',
    'Lean specs standing for CPython (PMV/Spec/*) and for the documentation (PMV/Spec/Docs.lean); validated against the running interpreter, not derived from it',
    'CPython itself: ast.parse, compile, tokenize, symtable, repr/eval of literals, os.walk, file I/O',
]


class LeanDriver(object):
    def __init__(self, path=DRIVER):
        self.path = path

    def ask(self, lines, timeout=600):
        """Send request lines, return one response line per request."""
        if not lines:
            return []
        data = '\n'.join(lines) + '\n'
        p = subprocess.run([self.path], input=data.encode('utf-8'), stdout=subprocess.PIPE,
                           stderr=subprocess.PIPE, timeout=timeout)
        out = p.stdout.decode('utf-8', 'replace').split('\n')
        if out and out[-1] == '':
            out.pop()
        if len(out) != len(lines):
            raise RuntimeError('driver answered %d lines for %d requests (rc=%s, stderr=%s)' % (
                len(out), len(lines), p.returncode, p.stderr.decode('utf-8', 'replace')[-500:]))
        return out


class Ctx(object):
    def __init__(self, prop, tier, seed):
        self.prop = prop
        self.tier = tier
        self.seed = seed
        self.rng = random.Random(seed * 1000003 + int(prop[1:]))
        self.t0 = time.time()
        self.budget_s = {'quick': 150, 'thorough': 1500}[tier]
        self.driver = LeanDriver()
        self.broken = []          # list of dict(kind, name, detail)
        self.violations = []      # concrete failing inputs on the real code (not known findings)
        self.known_hits = []      # known findings that reproduced
        self.evaluations = 0
        self.nontrivial = set()
        self.samples = []
        self.cover = {}
        self.stages = {}
        self.notes = []
        self.known = load_known(prop)
        self.obligations = 0
        self.discharged = 0
        self.theorem_status = {}
        self.exhaustive = {}

    # -- budget
    def elapsed(self):
        return time.time() - self.t0

    def time_left(self):
        return self.budget_s - self.elapsed()

    def scale(self, quick, thorough):
        return quick if self.tier == 'quick' else thorough

    # -- accounting
    def count(self, n=1):
        self.evaluations += n

    def mark_nontrivial(self, key):
        if not isinstance(key, (str, bytes)):
            key = json.dumps(key, sort_keys=True, default=repr)
        if isinstance(key, str):
            key = key.encode('utf-8', 'surrogatepass')
        self.nontrivial.add(hashlib.sha1(key).digest()[:8])

    def sample(self, obj, limit=12):
        if len(self.samples) < limit:
            self.samples.append(obj)

    def bump(self, group, key, n=1):
        g = self.cover.setdefault(group, {})
        g[key] = g.get(key, 0) + n

    def stage(self, name, **info):
        self.stages.setdefault(name, {}).update(info)

    # -- findings
    def add_broken(self, kind, name, detail=''):
        self.broken.append({'kind': kind, 'name': name, 'detail': str(detail)[:2000]})

    def add_violation(self, v):
        """v: dict(input=..., expected=..., observed=..., found_by=..., what=...). Filters known findings."""
        for k in self.known:
            if k.get('status') == 'known' and known_matches(k, v):
                if k['id'] not in [h['id'] for h in self.known_hits]:
                    self.known_hits.append(k)
                return False
        key = json.dumps(v.get('input'), sort_keys=True, default=repr)
        if key not in [json.dumps(x.get('input'), sort_keys=True, default=repr) for x in self.violations]:
            self.violations.append(v)
        return True


def load_known(prop):
    p = os.path.join(VERIF, 'known_findings.json')
    try:
        with open(p) as f:
            data = json.load(f)
    except FileNotFoundError:
        return []
    # `also`: a finding recorded under one property that the check of another property meets too (same defect, same inputs)
    return [k for k in data.get('findings', []) if k.get('property') == prop or prop in (k.get('also') or [])]


def known_matches(k, v):
    m = k.get('match', {})
    kind = m.get('kind')
    if kind == 'input_equals':
        return v.get('input') == m.get('input')
    if kind == 'shape':
        # a named shape predicate evaluated by the property module and attached to the violation
        return m.get('shape') in (v.get('shapes') or [])
    return False


def with_lock(fn):
    os.makedirs(os.path.join(VERIF, '.cache'), exist_ok=True)
    lock = open(os.path.join(VERIF, '.cache', 'build.lock'), 'w')
    fcntl.flock(lock, fcntl.LOCK_EX)
    try:
        return fn()
    finally:
        fcntl.flock(lock, fcntl.LOCK_UN)
        lock.close()


def theorem_at(path, line):
    """Name of the declaration containing `line` of a Lean file."""
    try:
        with open(path, encoding='utf-8') as f:
            lines = f.read().split('\n')
    except OSError:
        return None
    ns = []
    name = None
    for i, l in enumerate(lines[:line], 1):
        m = re.match(r'\s*namespace\s+(\S+)', l)
        if m:
            ns.append(m.group(1))
        m = re.match(r'\s*(?:private\s+|protected\s+)?(?:theorem|lemma|def|example|instance|abbrev)\s+(\S+)?', l)
        if m:
            name = m.group(1) or 'example@%d' % i
    if name is None:
        return None
    return '.'.join(ns + [name]) if ns else name


def extract_and_build(ctx, index):
    import extract
    info = {}
    changed, errors = extract.run_all()
    info['generated_changed'] = changed
    for table, msg in errors:
        ctx.add_broken('extract', 'extract:' + table, msg)
    # every module that holds a theorem registered for this property (some are proved in another property's file)
    try:
        with open(os.path.join(LEAN_DIR, 'PMV', 'Properties', 'index.json')) as fh:
            extra = json.load(fh).get(ctx.prop, {}).get('modules', [])
    except Exception:
        extra = []
    targets = sorted(set(['PMV.Properties.' + ctx.prop] + list(extra))) + ['pmv-driver']
    t = time.time()
    r = common.run(['lake', 'build'] + targets, cwd=LEAN_DIR)
    info['build_s'] = round(time.time() - t, 1)
    info['build_rc'] = r.returncode
    if r.returncode != 0:
        seen = set()
        for m in re.finditer(r'error: (PMV/[\w/]+\.lean):(\d+):(\d+): (.*)', r.stdout):
            path, line, msg = m.group(1), int(m.group(2)), m.group(4)
            name = theorem_at(os.path.join(LEAN_DIR, path), line) or path
            if name not in seen:
                seen.add(name)
                ctx.add_broken('theorem', name, '%s:%d: %s' % (path, line, msg))
        if not seen:
            ctx.add_broken('build', 'lake build', r.stdout[-1500:])
        # the property module may have failed while the driver is fine: build the driver alone
        r2 = common.run(['lake', 'build', 'pmv-driver'], cwd=LEAN_DIR)
        info['driver_rc'] = r2.returncode
        if r2.returncode != 0:
            ctx.add_broken('build', 'pmv-driver', r2.stdout[-1500:])
    return info


def audit(ctx, index):
    """#print axioms for every theorem registered for this property; forbidden-token grep."""
    entry = index.get(ctx.prop, {})
    theorems = entry.get('theorems', []) + entry.get('partial', []) + entry.get('counterexamples', [])
    ctx.obligations = len(theorems)
    mods = sorted(set(entry.get('modules', ['PMV.Properties.' + ctx.prop])))
    cache = os.path.join(VERIF, '.cache')
    os.makedirs(cache, exist_ok=True)
    status = {}
    # which modules are importable (built)?
    ok_mods = []
    for m in mods:
        olean = os.path.join(LEAN_DIR, '.lake', 'build', 'lib', 'lean', *m.split('.')) + '.olean'
        src = os.path.join(LEAN_DIR, *m.split('.')) + '.lean'
        if os.path.exists(olean) and os.path.getmtime(olean) >= os.path.getmtime(src) - 1 and not any(
                b['kind'] in ('theorem', 'build') and b.get('detail', '').startswith('/'.join(m.split('.'))) for b in ctx.broken):
            ok_mods.append(m)
    by_mod = {}
    for th in theorems:
        owner = None
        for m in mods:
            short = m.replace('PMV.Properties.', 'PMV.')
            if th.startswith(short + '.'):
                owner = m
        by_mod.setdefault(owner or mods[0], []).append(th)
    for m, ths in by_mod.items():
        if m not in ok_mods:
            for th in ths:
                status[th] = 'module-not-built'
            continue
        path = os.path.join(cache, 'audit_%s_%s.lean' % (ctx.prop, m.replace('.', '_')))
        with open(path, 'w') as f:
            f.write('import %s\n' % m)
            for th in ths:
                f.write('#print axioms %s\n' % th)
        r = common.run(['lake', 'env', 'lean', path], cwd=LEAN_DIR)
        out = r.stdout
        for th in ths:
            m1 = re.search(r"'%s' depends on axioms: \[([^\]]*)\]" % re.escape(th), out)
            m2 = re.search(r"'%s' does not depend on any axioms" % re.escape(th), out)
            if m2:
                status[th] = 'ok'
            elif m1:
                axs = set(a.strip() for a in m1.group(1).split(','))
                status[th] = 'ok' if axs <= ALLOWED_AXIOMS else 'bad-axioms:' + ','.join(sorted(axs - ALLOWED_AXIOMS))
            else:
                status[th] = 'missing'
    for th, st in status.items():
        if st != 'ok':
            if not any(b['name'] == th for b in ctx.broken):
                ctx.add_broken('theorem', th, 'audit: ' + st)
    ctx.discharged = sum(1 for s in status.values() if s == 'ok')
    ctx.theorem_status = status
    # forbidden tokens (comments stripped)
    bad = []
    for root, dirs, files in os.walk(LEAN_DIR):
        if '.lake' in dirs:
            dirs.remove('.lake')
        for fn in files:
            if fn.endswith('.lean'):
                p = os.path.join(root, fn)
                with open(p, encoding='utf-8') as f:
                    text = f.read()
                text = re.sub(r'/-.*?-/', lambda mm: '\n' * mm.group(0).count('\n'), text, flags=re.S)
                for i, l in enumerate(text.split('\n'), 1):
                    l = re.sub(r'--.*', '', l)
                    if FORBIDDEN.search(l):
                        bad.append('%s:%d' % (os.path.relpath(p, LEAN_DIR), i))
    if bad:
        ctx.add_broken('audit', 'forbidden-token', ', '.join(bad[:10]))
    recheck = None
    if ctx.tier == 'thorough' and ok_mods:
        # independent re-check of the compiled modules (and everything they import) by leanchecker
        r = common.run(['lake', 'env', 'leanchecker'] + ok_mods, cwd=LEAN_DIR)
        recheck = {'modules': ok_mods, 'exit': r.returncode}
        if r.returncode != 0:
            ctx.add_broken('audit', 'leanchecker', (r.stdout or '')[-600:])
    return {'theorems': status, 'forbidden_hits': bad, 'leanchecker': recheck}


def write_replay(ctx, v, kind):
    os.makedirs(REPLAY_DIR, exist_ok=True)
    body = dict(v)
    body.update({'property': ctx.prop, 'kind': kind, 'seed': ctx.seed, 'tier': ctx.tier,
                 'repo_tree_sha': common.repo_tree_sha()})
    h = hashlib.sha1(json.dumps(body, sort_keys=True, default=repr).encode()).hexdigest()[:12]
    path = os.path.join(REPLAY_DIR, '%s-%s.json' % (ctx.prop, h))
    common.dump_json(path, body)
    return os.path.relpath(path, VERIF)


def main():
    ap = argparse.ArgumentParser()
    ap.add_argument('prop')
    ap.add_argument('--tier', default=os.environ.get('VERIF_TIER', 'quick'), choices=['quick', 'thorough'])
    ap.add_argument('--replay')
    a = ap.parse_args()
    seed = int(os.environ.get('VERIF_SEED', '0') or 0)
    prop = a.prop.upper()
    common.use_repo()
    mod = importlib.import_module('props.' + prop.lower())

    if a.replay:
        with open(a.replay if os.path.isabs(a.replay) else os.path.join(VERIF, a.replay)) as f:
            data = json.load(f)
        ctx = Ctx(prop, a.tier, seed)
        fails = mod.replay(ctx, data)
        print('REPLAY %s: %s' % (a.replay, 'FAILS (violation reproduces)' if fails else 'passes'))
        sys.exit(1 if fails else 0)

    ctx = Ctx(prop, a.tier, seed)
    with open(os.path.join(LEAN_DIR, 'PMV', 'Properties', 'index.json')) as f:
        index = json.load(f)
    try:
        build_info = with_lock(lambda: (extract_and_build(ctx, index), audit(ctx, index)))
        ctx.stage('build', **build_info[0])
        ctx.stage('audit', **build_info[1])
        if not any(b['name'] == 'pmv-driver' for b in ctx.broken):
            mod.run(ctx)
        else:
            ctx.notes.append('driver did not build: correspondence skipped, oracles only')
            if hasattr(mod, 'oracles_only'):
                mod.oracles_only(ctx)
        if ctx.broken and not ctx.violations and hasattr(mod, 'search'):
            # a proof obligation or a correspondence broke: look for a concrete failing input
            mod.search(ctx)
    except subprocess.TimeoutExpired as e:
        print('TIMEOUT: %s' % e)
        sys.exit(2)
    except Exception:
        traceback.print_exc()
        print('HARNESS-ERROR property=%s' % prop)
        sys.exit(2)

    rc = 0
    lines = []
    for k in ctx.known_hits:
        lines.append('KNOWN-FINDING: property=%s %s: %s' % (prop, k['id'], k['what']))
    replay_paths = []
    if ctx.violations:
        for v in ctx.violations[:5]:
            path = write_replay(ctx, dict(v, broken=ctx.broken[:5]), 'concrete')
            replay_paths.append(path)
            lines.append('VIOLATION property=%s replay=%s' % (prop, path))
        rc = 1
    elif ctx.broken:
        path = write_replay(ctx, {'broken': ctx.broken, 'input': None,
                                  'what': 'proof obligation / correspondence no longer checks; search found no failing input'},
                            'unproved')
        replay_paths.append(path)
        lines.append('VIOLATION property=%s replay=%s no-failing-input-found' % (prop, path))
        rc = 1

    meta = getattr(mod, 'META', {})
    cov = {
        'obligations': ctx.obligations,
        'discharged': ctx.discharged,
        'checker_cmd': 'cd lean && lake build PMV.Properties.%s && lake env lean <#print axioms audit> (tools/runner.py audit)' % prop,
        'trusted_base': TRUSTED_BASE + meta.get('trusted_extra', []),
        'theorems': ctx.theorem_status,
        'evaluations': ctx.evaluations,
        'distinct_nontrivial': len(ctx.nontrivial),
        'rule': meta.get('rule', ''),
        'samples': ctx.samples or [{'note': 'no samples recorded'}],
        'distribution': ctx.cover,
        'stages': ctx.stages,
        'exhaustive_parts': ctx.exhaustive,
        'broken': ctx.broken,
        'known_findings_reproduced': [k['id'] for k in ctx.known_hits],
        'replays': replay_paths,
        'interpreter': sys.version.split()[0],
        'repo_tree_sha': common.repo_tree_sha(),
        'notes': ctx.notes,
        'modelled_not_verified': meta.get('modelled_not_verified', []),
    }
    ev = {
        'property_id': prop, 'tier': a.tier, 'seed': seed, 'level': 'proof', 'coverage': cov,
        'assumptions': meta.get('assumptions', []), 'wall_s': round(ctx.elapsed(), 2),
        'violations': len(ctx.violations) + (1 if (ctx.broken and not ctx.violations) else 0),
    }
    common.dump_json(os.path.join(EVIDENCE_DIR, prop + '.json'), ev)
    for l in lines:
        print(l)
    print('%s tier=%s seed=%d obligations=%d discharged=%d evaluations=%d distinct_nontrivial=%d broken=%d violations=%d known=%d wall=%.1fs -> exit %d' % (
        prop, a.tier, seed, ctx.obligations, ctx.discharged, ctx.evaluations, len(ctx.nontrivial),
        len(ctx.broken), len(ctx.violations), len(ctx.known_hits), ctx.elapsed(), rc))
    sys.exit(rc)


if __name__ == '__main__':
    main()

"""Strict AST comparison: structure, identifiers, and constants by type, value and sign
(1, 1.0, True differ; 0.0 and -0.0 differ). Positions and the `kind` of string constants are not
part of the tree."""
import ast
import math


def _const_key(v):
    if isinstance(v, float):
        if math.isnan(v):
            return ('float', 'nan')
        return ('float', v.hex())
    if isinstance(v, complex):
        return ('complex', _const_key(v.real), _const_key(v.imag))
    if isinstance(v, (tuple, frozenset)):
        return (type(v).__name__,) + tuple(_const_key(x) for x in v)
    return (type(v).__name__, v)


def strict_equal(a, b):
    """Returns None when equal, else a short description of the first difference."""
    if type(a) is not type(b):
        return 'node type %s vs %s' % (type(a).__name__, type(b).__name__)
    if isinstance(a, ast.AST):
        if isinstance(a, ast.Constant):
            if _const_key(a.value) != _const_key(b.value):
                return 'constant %r vs %r' % (a.value if not isinstance(a.value, int) or abs(a.value) < 10 ** 50 else '<big>',
                                             b.value if not isinstance(b.value, int) or abs(b.value) < 10 ** 50 else '<big>')
            return None
        for f in a._fields:
            if f in ('kind', 'type_comment', 'type_ignores'):
                continue
            d = strict_equal(getattr(a, f, None), getattr(b, f, None))
            if d:
                return '%s.%s: %s' % (type(a).__name__, f, d)
        return None
    if isinstance(a, list):
        if len(a) != len(b):
            return 'list length %d vs %d' % (len(a), len(b))
        for x, y in zip(a, b):
            d = strict_equal(x, y)
            if d:
                return d
        return None
    if a != b:
        return 'value %r vs %r' % (a, b)
    return None

"""Run a program text in a fresh namespace and record what C01 calls its observable behaviour:
the printed output, how the run ends (normally / exception type / exit status) and the public module namespace."""
import builtins
import io
import signal
import sys
import types
import contextlib


class _Timeout(BaseException):
    pass


def _alarm(signum, frame):
    raise _Timeout()


def summary(v, depth=0):
    if v is None or isinstance(v, (bool, int, float, complex, str, bytes)):
        return repr(v)
    if depth > 3:
        return '<deep>'
    if isinstance(v, (list, tuple)):
        return '%s[%s]' % (type(v).__name__, ', '.join(summary(x, depth + 1) for x in v))
    if isinstance(v, (set, frozenset)):
        return '%s{%s}' % (type(v).__name__, ', '.join(sorted(summary(x, depth + 1) for x in v)))
    if isinstance(v, dict):
        return 'dict{%s}' % ', '.join('%s: %s' % (summary(k, depth + 1), summary(x, depth + 1)) for k, x in v.items())
    if isinstance(v, types.ModuleType):
        return 'module:' + v.__name__
    if isinstance(v, type):
        attrs = sorted(k for k in vars(v) if not (k.startswith('__') and k.endswith('__')))
        return 'class:%s(%s)[%s]' % (v.__name__, ','.join(b.__name__ for b in v.__bases__), ','.join(attrs))
    if isinstance(v, (types.FunctionType, types.BuiltinFunctionType, types.MethodType)) or callable(v) and not hasattr(v, '__dict__'):
        return 'function'
    if isinstance(v, types.GeneratorType):
        return 'generator'
    try:
        d = vars(v)
    except TypeError:
        return 'instance:' + type(v).__name__
    return 'instance:%s{%s}' % (type(v).__name__, ', '.join('%s=%s' % (k, summary(x, depth + 1)) for k, x in sorted(d.items())))


def observe(src, timeout=5, filename='<prog>', optimize=-1):
    """→ dict(out=str, ending=str, globals={name: summary}, imports=[event])
    `imports`: what the program's own import statements ask the import machinery for, in order, one event per
    imported name (`import a.b` / `from m import x`) — statements merged or split keep the sequence."""
    ns = {'__name__': '__main__'}
    imports = []
    real_import = builtins.__import__

    def recording_import(name, globals=None, locals=None, fromlist=(), level=0):
        if globals is ns:
            if fromlist:
                for x in fromlist:
                    imports.append('from %s%s import %s' % ('.' * level, name, x))
            else:
                imports.append('import ' + name)
        return real_import(name, globals, locals, fromlist, level)

    buf = io.StringIO()
    ending = 'normal'
    old = signal.signal(signal.SIGALRM, _alarm)
    signal.alarm(timeout)
    try:
        try:
            code = compile(src, filename, 'exec', optimize=optimize)
        except SyntaxError as e:
            return {'out': '', 'ending': 'compile:' + type(e).__name__, 'globals': {}, 'imports': []}
        with contextlib.redirect_stdout(buf), contextlib.redirect_stderr(io.StringIO()):
            builtins.__import__ = recording_import
            try:
                exec(code, ns)
            except SystemExit as e:
                ending = 'exit:%r' % (e.code,)
            except _Timeout:
                ending = 'timeout'
            except RecursionError:
                ending = 'raised:RecursionError'
            except BaseException as e:
                ending = 'raised:' + type(e).__name__
            finally:
                builtins.__import__ = real_import
    finally:
        builtins.__import__ = real_import
        signal.alarm(0)
        signal.signal(signal.SIGALRM, old)
    pub = {}
    for k, v in ns.items():
        if k.startswith('_'):
            continue        # public namespace = what `from module import *` would export
        try:
            pub[k] = summary(v)
        except Exception as e:       # a __repr__/property of the program raising
            pub[k] = 'unsummarisable:' + type(e).__name__
    return {'out': buf.getvalue(), 'ending': ending, 'globals': pub, 'imports': imports}


def diff(a, b):
    """the differences between two observations, as text"""
    out = []
    if a['out'] != b['out']:
        out.append('stdout differs: %r vs %r' % (a['out'][-200:], b['out'][-200:]))
    if a['ending'] != b['ending']:
        out.append('ending differs: %s vs %s' % (a['ending'], b['ending']))
    if a['globals'] != b['globals']:
        ks = sorted(set(a['globals']) | set(b['globals']))
        d = [(k, a['globals'].get(k), b['globals'].get(k)) for k in ks if a['globals'].get(k) != b['globals'].get(k)]
        out.append('public namespace differs: %r' % (d[:4],))
    if a.get('imports', []) != b.get('imports', []):
        out.append('import events differ: %r vs %r' % (a.get('imports', [])[:8], b.get('imports', [])[:8]))
    return out

"""C06, stage hoist.collect: the Lean model of the collecting traversal of HoistLiterals (PMV.HoistCollect.collect, T06.4)
against the occurrences the real traversal hands to get_binding, as ordered sequences of values; and: the references held by
the hoisted bindings (what rename() replaces) are exactly the collected nodes; and the
dictionary of hoisted bindings (one per value under the HoistedValue key, with its reference count) against PMV.HoistCollect.bindingsOf (T06.5)."""
import hoist_corr
import pyast

COLLECT_EXTRA = [
    # every position the traversal treats specially, side by side with the ordinary ones
    'class SomeClass:\n    "doc"\n    if flag_value:\n        __slots__ = ("a", "b")\n    def method_one(self, first_param: "ann" = None):\n        __slots__ = "a"\n'
    '        match "a":\n            case "a" | {"k": None} if True:\n                return f\'a{1!r:>{"w"}}b\', b"a", ..., 1.5\n        None\n        "x"\n',
    'first_alias = __slots__ = ("a", "b")\nclass SomeClass:\n    first_alias = __slots__ = ("a", "b")\n    (__slots__, other_value) = ("a", "b"), None\n    [__slots__] = ["a"],\n    self.__slots__ = "a"\n',
    'class SomeClass:\n    third_alias = second_alias = __slots__ = ["a", "b", "c"]\n    __slots__ = other_alias = "d"\n    other_alias = "e"\n',
    'class SomeClass:\n    __slots__: "ann" = ("a",)\n    other_value: "ann" = "a"\n    __slots__ += ("b",)\n    other_value += "b"\n    __slots__: "only annotated"\n    lambda_value = lambda: [__slots__ := "a"]\n',
    'class SomeClass:\n    for loop_item in "ab":\n        __slots__ = "a"\n    else:\n        while True:\n            __slots__ = "b"\n            break\n    with context_value as (first_item, second_item):\n        __slots__ = "c", None\n'
    '    try:\n        pass\n    except* ValueError:\n        __slots__ = "d"\n    match subject_value:\n        case "p" | b"p" | None | True | -1 | 1+2j:\n            __slots__ = "e", "f"\n'
    '        case SomeClass(attribute="q") | [*rest_items, "r"] | {"s": "t", **rest_map} as captured_value if "guard":\n            pass\n',
    'class OuterClass:\n    class InnerClass:\n        __slots__ = "a"\n        def method_one(self):\n            class LocalClass:\n                __slots__ = "b"\n            __slots__ = "c"\n            return "d"\n',
    '"doc"\n"second string statement"\nb"bytes statement"\nNone\nTrue\n...\n1\n("a")\n("a", "b")\n-1\nnot None\n"a" "b"\nf"{None}"\nf"a"\n',
    'def function_one(first_param="a", /, second_param=b"b", *rest_params: "ann", third_param=None, **more_params: True) -> "ret":\n    """doc"""\n    "another"\n'
    '    return first_param["key":"stop":None], {"k": "v", **other_map}, {*"set", "item"}\n',
    'type AliasName[TypeVar: "bound", *Rest, **Spec] = "value"\nclass GenericClass[TypeVar: ("a", "b")]("base", metaclass="meta"):\n    pass\n'
    'def generic_function[TypeVar: "bound"](first_param: TypeVar = "a"):\n    pass\n',
    'value_one = f"{"a"}{"b"!r}{"c":{"d"}>{"e"}}text{None}" f"text{"f"=}"\nvalue_two = f"{f"{"g"}"}"\ndef generator_function():\n    value_three = other_value if "h" else (yield "i"), (yield), (yield from "j")\n',
    'assert "a", "b"\nraise Error("a") from None\ndel first_name["a"], second_name.attribute\nglobal third_name\nimport module_one as alias_one\nfrom module_two import name_one as alias_two\n'
    'for loop_item in "a", "b":\n    continue\n',
    'async def coroutine_function():\n    async for loop_item in "a":\n        await "b"\n    async with "c" as context_value, "d":\n'
    '        return [comp_item async for comp_item in "e" if "f" if None], {key_item: "g" for key_item in "h"}, ("i" for gen_item in "j")\n',
    'decorated_value = "a"\n@"decorator"\n@other_decorator("b")\nclass DecoratedClass:\n    @"method decorator"\n    def method_one(self):\n'
    '        return "a" < "b" <= "c" is not None, "d" and "e" or not "f", -"g", "h" @ "i", (walrus_value := "j"), *"k"\n',
    # values that compare equal across types, or differ only in spelling, side by side
    'value_one = ("a", b"a", \'a\', "\\x61", b"\\x61", "", b"", None, True, False, 1, 0, 1.0, True, None, "", b"")\nvalue_two = [True, 1, "1", b"1", False, 0, "0", not None]\n',
]


def collect_programs():
    return [('collect%d' % i, s) for i, s in enumerate(COLLECT_EXTRA)]


def hoist_collect_correspondence(ctx, progs):
    reqs, expect = [], []
    skipped = 0
    for ident, src in progs:
        try:
            compile(src, '<c06>', 'exec', dont_inherit=True)
        except (SyntaxError, ValueError):
            continue
        try:
            req, seen, refs, groups = hoist_corr.observed(src)
        except RecursionError:
            continue
        except pyast.OutOfModel:
            skipped += 1
            continue
        except Exception as e:
            # the traversal could not be observed (its interface changed, or it raised): the tie is broken, the oracles decide
            ctx.add_broken('correspondence', 'hoist.collect:' + ident,
                           'cannot observe the traversal: %s: %s' % (e.__class__.__name__, str(e)[:200]))
            continue
        reqs.append(req)
        reqs.append('hoist.groups' + req[len('hoist.collect'):])
        expect.append((ident, src, seen, refs, groups))
    answers = ctx.driver.ask(reqs) if reqs else []
    diffs = 0
    total = 0
    bindings = 0
    for k, (ident, src, seen, refs, groups) in enumerate(expect):
        ans, gans = answers[2 * k], answers[2 * k + 1]
        ctx.count()
        bindings += len(groups.split())
        gmodel = gans[3:] if gans.startswith('ok ') else ('' if gans == 'ok' else None)
        if gmodel is None or gmodel.split() != groups.split():
            diffs += 1
            ctx.add_broken('correspondence', 'hoist.groups:' + ident, 'source=%r impl=%r model=%r' % (src[:300], groups[:300], gans[:300]))
        n = len(seen.split())
        total += n
        if n:
            ctx.mark_nontrivial('collect' + ident)
        model = ans[3:] if ans.startswith('ok ') else ('' if ans == 'ok' else None)
        if model is None or model.split() != seen.split():
            diffs += 1
            ctx.add_broken('correspondence', 'hoist.collect:' + ident, 'source=%r impl=%r model=%r' % (src[:300], seen[:300], ans[:300]))
        elif refs != n:
            diffs += 1
            ctx.add_broken('correspondence', 'hoist.collect.refs:' + ident,
                           'source=%r: %d occurrences collected, %d references held by the hoisted bindings' % (src[:300], n, refs))
    ctx.stage('hoist.collect', cases=len(expect), occurrences=total, bindings=bindings, out_of_model=skipped, diffs=diffs)

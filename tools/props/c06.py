"""C06 — Hoisted literals are bound once, before use, to an identical value."""
import ast

import alpha
import scopegen
from props import rename_common as rc

META = {
    'rule': 'programs with repeated literals (str, bytes, None/True/False, and the look-alikes 0, 1, 0.0, 1.0, "" / b"") placed at module '
            'level, in nested functions, lambdas, class bodies, defaults, decorators, comprehensions, match patterns, __slots__, '
            'f-string text and docstring position, plus the scope-heavy programs of C03; minified with hoist_literals alone and with all '
            'renaming options. Oracle (tools/alpha.py): every introduced alias is assigned exactly once, at the head of a body after '
            'docstrings / __future__ imports, to a constant strictly equal (type, value, sign) to each literal it replaces, visible from '
            'every use, never from a forbidden position. non-trivial = at least one literal was hoisted; distinct by (program, options)',
    'assumptions': [],
    'modelled_not_verified': ['HoistLiterals: the collecting traversal (T06.4) and the placement (common path, insert) are modelled in Lean and tied by correspondence; the replacement itself (rename() over the references) and should_rename are covered by the oracle'],
}

LIT = ["'a repeated literal string'", "b'repeated bytes literal'", 'None', 'True', 'False', '1', '0', '1.0', '0.0', "''", "'x'"]

TEMPLATES = [
    'first_value = {L}\nsecond_value = {L}\nthird_value = [{L}, {L}, {L}]\n',
    'def outer_function(param_one={L}):\n    def inner_function():\n        return {L}, {L}\n    return inner_function, {L}, {L}\n',
    'def function_one():\n    return {L}, {L}, {L}\ndef function_two():\n    return {L}, {L}, {L}\n',
    'class SomeClass:\n    __slots__ = ({L}, {L})\n    attribute_one = {L}\n    def method_one(self):\n        return {L}, {L}, {L}\n',
    '"""module docstring"""\nfrom __future__ import annotations\nvalue_one = {L}\nvalue_two = {L}\nvalue_three = {L}\nvalue_four = {L}\n',
    'def function_one():\n    """doc"""\n    {L}\n    return {L}, {L}, {L}, {L}\n',
    'match subject_value:\n    case {L}:\n        result_value = {L}\n    case [{L}, other_item]:\n        result_value = ({L}, {L}, {L})\n',
    "value_one = f'a repeated literal string{{first_name}}a repeated literal string'\nvalue_two = 'a repeated literal string', {L}, {L}, {L}\n",
    'value_one = lambda lambda_param={L}: ({L}, {L}, {L})\nvalue_two = [{L} for comp_item in ({L}, {L})]\n',
    '@decorator_function({L})\nclass DecoratedClass({L} or object):\n    class_attribute = {L}\nother_value = {L}, {L}\n',
    'async def coroutine_function():\n    async with context_manager({L}) as context_value:\n        return {L}, {L}, {L}\n',
    'def function_one(first_param):\n    if first_param == {L}:\n        return {L}\n    elif first_param is {L}:\n        return {L}\n    return 1 == 1.0, 1 is True, 0 == False, {L}\n',
    'def generator_function():\n    del_value = {L}\n    del del_value\n    yield {L}\n    yield {L}\n    yield {L}\n',
    'value_one = (1, 1.0, True, 1, 1.0, True, 1, 1.0, True)\nvalue_two = (0, 0.0, False, 0, 0.0, False, 0, 0.0, False, -0.0, -0.0)\n',
    'match subject_value:\n    case {{{L}: {L}, "other key": captured_value}}:\n        result_value = ({L}, {L})\n    case {{"key": {L}}}:\n        result_value = {L}\n',
    'match subject_value:\n    case SomeClass(attribute={L}) | [{L}, *rest_items]:\n        result_value = ({L}, {L}, {L})\n',
    'class SomeClass:\n    __slots__: tuple = ({L}, {L})\n    attribute_one = {L}\n    attribute_two = {L}\n',
    'class SomeClass:\n    __slots__ = ()\n    __slots__ += ({L}, {L})\n    attribute_one = {L}\n    attribute_two = {L}\n',
    # __slots__ assigned inside a block of the class body is still the class's __slots__
    'class SomeClass:\n    if some_condition:\n        __slots__ = ({L}, {L})\n    else:\n        __slots__ = ({L}, {L}, "extra")\n    def method_one(self):\n        return {L}, {L}\n',
    'class SomeClass:\n    try:\n        __slots__ = [{L}, {L}, {L}]\n    except NameError:\n        __slots__: tuple = ({L},)\n    finally:\n        other_value = {L}\n',
    'def outer_function():\n    class SomeClass:\n        with some_context:\n            for loop_item in ():\n                pass\n            else:\n                __slots__ = {L}, {L}, {L}, {L}\n    return SomeClass, {L}\n',
    # names spelled like the aliases the hoister hands out already exist where the literal is used
    'class SettingsClass:\n    _A = 8080\n    host_value = {L}\n    fallback_value = {L}\n    other_value = ({L}, {L}, _A)\n',
    'def function_one():\n    _A = 1\n    A = 2\n    return {L}, {L}, {L}, {L}, _A, A\n',
    '_A = 5\n_B = 6\nvalue_one = {L}, {L}, {L}, {L}, _A\ndef function_one(A, B=2):\n    return {L}, {L}, A, B, _B\n',
    'class OuterClass:\n    class InnerClass:\n        _A = {L}\n        _B = {L}\n    A = {L}\n    def method_one(self, _A={L}):\n        return _A, {L}, {L}\n',
    'def outer_function():\n    _A = {L}\n    def inner_function():\n        nonlocal _A\n        _A = {L}\n        return {L}, {L}\n    return inner_function\n',
    # every use lies inside a class nested in other classes / functions: the assignment must go to a function or the module, never to a class body
    'class OuterClass:\n    class InnerClass:\n        def method_one(self):\n            return {L}, {L}, {L}\n        def method_two(self):\n            return {L}, {L}\n',
    'def outer_function():\n    class OuterClass:\n        class InnerClass:\n            attribute_one = {L}\n            def method_one(self):\n                return {L}, {L}, {L}\n    return OuterClass\n',
    'class OuterClass:\n    class MiddleClass:\n        class InnerClass:\n            values_list = [{L} for comp_item in ({L}, {L})]\n            function_value = lambda self: ({L}, {L})\n',
    'class OuterClass:\n    def method_one(self):\n        class LocalClass:\n            attribute_one = {L}\n            def method_two(self):\n                return {L}, {L}, {L}\n        return LocalClass\n    def method_three(self):\n        return 0\n',
    'class OuterClass:\n    class InnerClass:\n        attribute_one = {L}\n        attribute_two = ({L}, {L})\n    class SiblingClass:\n        def method_one(self, first_param={L}):\n            return {L}, first_param\n',
    # __slots__ among several targets of one assignment; __slots__ in a function of the class (an ordinary local there)
    'class SomeClass:\n    _fields = __slots__ = ({L}, {L})\n    def method_one(self):\n        return {L}, {L}, {L}\n',
    'class SomeClass:\n    first_alias = second_alias = __slots__ = [{L}, {L}, {L}]\n    other_value = {L}\n    def method_one(self):\n        __slots__ = {L}\n        return {L}, __slots__\n',
    'class OuterClass:\n    class InnerClass:\n        async def method_one(self):\n            return [{L} async for comp_item in self.items()], {L}, {L}\n        def method_two(self):\n            return {L}\n',
]


def literal_programs():
    out = []
    for i, t in enumerate(TEMPLATES):
        for lit in LIT:
            src = t.replace('{L}', lit).replace('{{', '{').replace('}}', '}')
            try:
                compile(src, '<c06>', 'exec', dont_inherit=True)
            except (SyntaxError, ValueError):
                continue
            out.append(('lit%d/%s' % (i, lit), src))
    return out


FOLDABLE = [
    'def function_one(items):\n    flags = list((item, False | True) for item in items)\n    return [True, True, flags]\n',
    'def function_one(items):\n    return [lambda *rest: (rest, True & True), True, True, True]\n',
    'class SomeClass:\n    flag_value = True | False\n    other_value = [inner for inner in (True, True)]\nvalue_one = True, True\n',
    "def function_one(items):\n    return {item: 'ab' 'cd' for item in items}, 'abcd', 'abcd', [(inner, 10 * 10 * 10) for inner in items], 1000, 1000, 1000\n",
    'def function_one(items):\n    def inner_function(value=None):\n        return [None for value in items], 1 > 2 or None\n    return None, None, None, inner_function\n',
]


def run_programs(ctx, progs, osets, found_by):
    for ident, src in progs:
        if ctx.time_left() < 10:
            break
        for oname, extra in osets:
            out, exc = rc.minify_with(src, extra)
            ctx.count()
            if out is None:
                if found_by == 'literal-templates' and exc not in (None, 'RecursionError'):
                    # the templates are ordinary valid programs: an exception while hoisting is a failure of hoisting
                    ctx.add_violation({'input': {'source': src, 'options': extra}, 'what': 'minify raised %s while hoisting literals' % exc,
                                       'found_by': found_by, 'oracle': 'alpha', 'shapes': rc.shapes_of(src)})
                continue
            unh, _ = rc.minify_with(src, dict((k, v) for k, v in extra.items() if k != 'hoist_literals'))
            if unh is not None and unh != out:
                ctx.mark_nontrivial(ident + oname)
                ctx.bump('hoisted', 'yes')
            else:
                ctx.bump('hoisted', 'no')
            probs = alpha.check(src, out)
            if probs:
                ctx.add_violation({'input': {'source': src, 'options': extra}, 'what': '; '.join(probs[:3]), 'observed': out[:400],
                                   'found_by': found_by, 'oracle': 'alpha', 'shapes': rc.shapes_of(src)})
    if progs:
        ctx.sample({'stage': found_by, 'id': progs[-1][0], 'source': progs[-1][1][:300]})


OSETS = [('hoist', dict(hoist_literals=True)), ('all', dict(rename_locals=True, rename_globals=True, hoist_literals=True)),
         ('locals+hoist', dict(rename_locals=True, hoist_literals=True))]


def run(ctx):
    lits = literal_programs()
    ctx.exhaustive['literal_templates_x_literal_kinds'] = len(lits)
    run_programs(ctx, lits, OSETS, 'literal-templates')
    progs = rc.programs(ctx, ctx.scale(500, None), ctx.scale(200, 3000))
    run_programs(ctx, progs, OSETS[:2], 'generated')
    folding(ctx)
    hoist_placement_correspondence(ctx, lits + progs[:ctx.scale(200, 2000)])
    from props import c06_collect
    c06_collect.hoist_collect_correspondence(ctx, lits + c06_collect.collect_programs() + progs[:ctx.scale(300, 3000)])
    # T01.14 / T01.15 (behaviour is preserved by hoisting): the composed Lean model against minify(), with the side conditions
    # evaluated on the witness read off the real output
    from props import c01
    import rungen
    c01.minify_application(ctx, [('core%d' % i, rungen.core_program(ctx.rng)) for i in range(ctx.scale(60, 1500))], 'generated-core')
    for k in ctx.known:
        if k.get('replay_source'):
            run_programs(ctx, [(k['id'], k['replay_source'])], OSETS, 'known')


def folding(ctx):
    """hoisting after constant folding: literals created by folding sit in nested scopes too.  Reference = the same program
    with folding only; the output with folding + hoisting (+ renaming) must be alpha-equivalent to it."""
    for i, src in enumerate(FOLDABLE):
        ref, exc = rc.minify_with(src, dict(constant_folding=True))
        if ref is None:
            continue
        for oname, extra in OSETS:
            o = dict(extra, constant_folding=True)
            out, exc = rc.minify_with(src, o)
            ctx.count()
            if out is None:
                continue
            if out != ref:
                ctx.mark_nontrivial('fold%d%s' % (i, oname))
            probs = alpha.check(ref, out)
            if probs:
                ctx.add_violation({'input': {'source': src, 'options': o}, 'what': 'after constant folding: ' + '; '.join(probs[:3]), 'observed': out[:400],
                                   'found_by': 'folding', 'oracle': 'alpha', 'shapes': rc.shapes_of(src)})


def hoist_placement_correspondence(ctx, progs):
    """Lean model of place_bindings (common prefix of the function-namespace paths) vs the namespace the real code chose."""
    import rename_dump
    reqs, expect = [], []
    for ident, src in progs:
        try:
            items = rename_dump.hoist_paths(src)
        except RecursionError:
            continue
        except Exception as e:
            ctx.bump('hoist_dump', 'raises-' + e.__class__.__name__)
            continue
        for paths, chosen in items:
            reqs.append('hoist.place ' + '(' + ' '.join('(' + ' '.join(str(x) for x in p) + ')' for p in paths) + ')')
            expect.append((ident, paths, chosen))
    answers = ctx.driver.ask(reqs) if reqs else []
    diffs = 0
    for (ident, paths, chosen), ans in zip(expect, answers):
        ctx.count()
        if len(paths) > 1:
            ctx.mark_nontrivial('place' + repr(paths))
        if ans != 'ok %d' % chosen:
            diffs += 1
            ctx.add_broken('correspondence', 'hoist.place:' + ident, 'paths=%r impl=%r model=%s' % (paths, chosen, ans))
    ctx.stage('hoist.place', cases=len(expect), diffs=diffs)


def search(ctx):
    run_programs(ctx, literal_programs(), OSETS, 'search')
    if not ctx.violations:
        run_programs(ctx, rc.programs(ctx, 3000, 1500), OSETS, 'search')


def replay(ctx, data):
    inp = data.get('input') or {}
    if 'source' in inp:
        opts = inp.get('options') or {}
        out, exc = rc.minify_with(inp['source'], opts)
        ref = inp['source']
        if opts.get('constant_folding'):
            ref, _e = rc.minify_with(inp['source'], dict(constant_folding=True))
        if out is None:
            return exc not in (None, 'RecursionError')
        return bool(ref is not None and alpha.check(ref, out))
    return bool(data.get('broken'))

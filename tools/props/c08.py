"""C08 — Every compilable module is minified without error into a compilable module."""
import ast
import glob
import os
import warnings

import common
import gen
import scopegen
from props import c02, c05, c12

warnings.simplefilter('ignore')

META = {
    'rule': 'compilable sources from every generator of this framework (slot x class expressions, statement templates, token adjacency, '
            'scope nestings, transform templates, adversarial f-strings/strings, random modules, pinned corpus, numeric extremes, deep '
            'nesting) x option sets (defaults, everything on, everything off, each switch flipped, random subsets): minify must return '
            'and compile() must accept the result. A malformed stream (unparseable text, undecodable bytes, NUL, bad indentation, '
            'unterminated strings) must raise exactly what ast.parse raises. non-trivial = output differs from input; distinct by (source, options)',
    'assumptions': ['compile() of the running interpreter defines "compilable"'],
    'modelled_not_verified': ['interpreter recursion limit, memory: the models are total functions and cannot exhibit RecursionError / MemoryError'],
}

EXTREMES = [
    'x = 0x' + 'f' * 5000, 'x = 0x' + 'f' * 3580 + '\ny = x + 1', 'x = ' + '9' * 4300, 'x = 0b' + '1' * 20000, 'x = 1e400\ny = -1e400\nz = 1e400j',
    'x = ' + '9' * 4300 + ' * 10', 'x = 0x' + 'f' * 4000 + ' + 1', 'x = 1 << 20000', 'x = 10 ** 5000' if False else 'x = 10 ** 50',
    'x = 1_000_000 * 1_000_000', 'x = .0 + 0.', 'x = 0o777 | 0b11', "x = '\\N{BULLET}\\ud800\\U0010ffff'", "x = b'\\x00' * 3",
    "x = f'{\"\\x00\"!a}'", "x = f'{\"a\\\\b\"}'", "x = f'{\"\\n\"}{b\"\\x00\"}'", "x = f'{\"\\0\"}'", "x = f'{chr(0)}\\x00'", "x = f'''{'''a'''}'''",
    "x = f'{f\"{f'{1}'}\"}'", "x = f'{1:{2:{3}}}'" if False else "x = f'{1:{2}}'", "x = f'{x!r:^{w}.{p}}'", "x = f'{{{x}}}'", "x = f'{x:{{}}}'" if False else "x=1",
    'def f():\n    global x\n    x = 1\n    del x', 'class C:\n    x = 1\n    del x', 'x = [i async for i in y]' if False else 'x = 1',
    'async def f():\n    return [i async for i in y], [await z for z in w]', 'def f():\n    nonlocal_ = 1\n    def g():\n        nonlocal nonlocal_\n        nonlocal_ += 1',
    'try:\n    pass\nexcept* (A, B) as e:\n    pass', 'with (a as b, c as d,):\n    pass', 'match x:\n    case {"a": 1, **r} | [1, *_] | A(b=2) | (1 | 2 as c):\n        pass' if False else 'match x:\n    case [1, *_]:\n        pass',
    'from __future__ import annotations\nx: "int" = 1', 'print(*a, *b, **c, **d)', 'x = lambda: (yield)', 'def f(a, b=1, /, c=2, *, d, e=3, **f): pass',
    'type X[T: int, *Ts, **P] = dict[T, Ts]', 'def f[T](x: T) -> T: return x\nclass A[T]: pass', 'x = a if b else c if d else e',
    '@a.b.c\n@d(e)\nclass F(g, metaclass=h): pass', 'x = 1; y = 2; z = 3', 'if 1:\n    pass\nelif 2:\n    pass\nelif 3:\n    pass\nelse:\n    pass',
    'x = ' + '(' * 40 + '1' + ')' * 40, 'x = ' + '[' * 40 + ']' * 40, 'x = ' + '-' * 60 + '1', 'x = ' + 'not ' * 60 + 'a',
    'x = ' + ' + '.join(['a'] * 60), 'x = ' + ' and '.join(['a'] * 80), 'x = ' + 'a.' * 80 + 'b', 'x = a' + '[0]' * 80, 'x = a' + '()' * 80,
    'x = ' + 'lambda: ' * 40 + '1', 'def f():\n' + ''.join('    ' * (i + 1) + 'if x:\n' for i in range(30)) + '    ' * 31 + 'pass\n',
]

DEEP = ['x = ' + ' + '.join(['a'] * 400), 'x = ' + '(' * 150 + '1' + ')' * 150, 'x = ' + '[' * 150 + ']' * 150, 'x = a' + '.b' * 500,
        'x = ' + ' if a else '.join(['1'] * 200)]

MALFORMED = ['def (:', 'x = (', "x = '", 'x = """abc', '  x = 1', 'if x:\npass', 'x = 1 +', 'class', 'return 1', 'x = 1\n y = 2', 'print "hello"', 'x = 0777',
             'x = 1__0', 'f(**a, *b)', 'x = [1, 2', 'def f(a, a): pass', 'x = y = ', '\x00', 'x = 1\x00', 'lambda: (yield)\nyield' , 'a = 1 if', '`x`', 'x <> y',
             'nonlocal x', 'def f():\n    x = 1\n    global x', 'break', 'continue', "f'{'", "f'{x!z}'", 'x = $', 'é = ¬', '(a := 1) := 2', 'def f(*): pass',
             'import a.b as', 'from . import', 'x: int: str', 'async = 1\nawait x' if False else 'await = (',  'match x:\ncase 1: pass', 'case 1:', 'with: pass']
MALFORMED_BYTES = [b'\xff\xfe\x00', b'x = "\xff"', b'# coding: nonexistent-codec\nx = 1', b'\xef\xbb\xbf# coding: latin-1\nx = 1', b'x = 1\x00', b'\x00\x00']


def option_sets(ctx):
    import python_minifier
    from python_minifier import RemoveAnnotationsOptions
    sets = [('defaults', {}), ('all-off', dict(c02.ALL_OFF))]
    allon = dict((k, True) for k in c02.ALL_OFF)
    allon['remove_annotations'] = RemoveAnnotationsOptions(True, True, True, True)
    sets.append(('all-on', allon))
    for k in sorted(c02.ALL_OFF):
        if k == 'remove_annotations':
            continue
        o = dict(c02.ALL_OFF)
        o[k] = True
        sets.append(('only:' + k, o))
    for i in range(ctx.scale(3, 12)):
        o = dict((k, ctx.rng.random() < 0.5) for k in c02.ALL_OFF if k != 'remove_annotations')
        o['remove_annotations'] = RemoveAnnotationsOptions(*[ctx.rng.random() < 0.5 for _ in range(4)])
        sets.append(('random%d' % i, o))
    return sets


def shapes_of(src, exc):
    # (ast_depth is defined below)
    s = []
    if exc == 'RecursionError' and ast_depth(src) >= 200:
        s.append('recursion-limit')      # only very deep trees: a RecursionError on a shallow input is a different defect
    if exc == 'ValueError' and isinstance(src, str):
        try:
            for n in ast.walk(ast.parse(src)):
                if isinstance(n, ast.FormattedValue) and isinstance(n.format_spec, ast.JoinedStr) and any(
                        isinstance(v, ast.Constant) and v.value == '' for v in n.format_spec.values):
                    s.append('empty-constant-in-format-spec')
        except Exception:
            pass
    return s


def ast_depth(src):
    try:
        tree = ast.parse(src)
    except Exception:
        return 0

    def d(n):
        return 1 + max([d(c) for c in ast.iter_child_nodes(n)] or [0])
    try:
        return d(tree)
    except RecursionError:
        return 10 ** 6


def check_source(ctx, ident, src, osets, found_by):
    import python_minifier
    try:
        compile(src, '<c08>', 'exec', dont_inherit=True)
    except (SyntaxError, ValueError, RecursionError, MemoryError, OverflowError):
        ctx.bump('generator', 'not-compilable')
        return
    for oname, o in osets:
        ctx.count()
        ctx.bump('option_set', oname if not oname.startswith('random') else 'random')
        try:
            out = python_minifier.minify(src, **o)
            exc = None
        except RecursionError:
            exc, out = 'RecursionError', None
        except Exception as e:
            exc, out = e.__class__.__name__, None
        ctx.bump('outcome', exc or 'ok')
        if exc is not None:
            ctx.add_violation({'input': {'source': src[:20000], 'options': repr(sorted((k, repr(v)) for k, v in o.items())), 'option_set': oname},
                               'what': 'minify raised %s for a compilable module' % exc, 'found_by': found_by, 'oracle': 'returns',
                               'shapes': shapes_of(src, exc) + (['ast-depth>=%d' % (ast_depth(src) // 50 * 50)] if exc == 'RecursionError' else [])})
            return
        if out != src:
            ctx.mark_nontrivial(ident + oname)
        try:
            compile(out, '<minified>', 'exec', dont_inherit=True)
        except RecursionError:
            continue
        except Exception as e:
            ctx.add_violation({'input': {'source': src[:20000], 'options': repr(sorted((k, repr(v)) for k, v in o.items())), 'option_set': oname},
                               'what': 'output is not compilable: %s: %s' % (e.__class__.__name__, str(e)[:100]), 'observed': out[:400],
                               'found_by': found_by, 'oracle': 'compiles', 'shapes': []})
            return


def malformed(ctx):
    import python_minifier
    for src in MALFORMED + MALFORMED_BYTES:
        try:
            ast.parse(src)
            expected = None
        except Exception as e:
            expected = e.__class__.__name__
        if expected is None:
            try:
                compile(src, '<c08>', 'exec', dont_inherit=True)
                continue      # actually fine
            except Exception:
                pass
        try:
            python_minifier.minify(src)
            got = None
        except Exception as e:
            got = e.__class__.__name__
        ctx.count()
        ctx.bump('malformed', str(expected))
        ctx.mark_nontrivial(repr(src))
        if expected is not None and got != expected:
            ctx.add_violation({'input': {'source': src if isinstance(src, str) else src.decode('latin-1'), 'bytes': isinstance(src, bytes)},
                               'what': 'unparseable source: ast.parse raises %s but minify raised %s' % (expected, got),
                               'found_by': 'malformed', 'oracle': 'malformed', 'shapes': []})


def sources(ctx):
    out = []
    ex = c02.exhaustive_sources()
    ctx.rng.shuffle(ex)
    out += ex[:ctx.scale(250, len(ex))]
    rest_of_exhaustive = ex[ctx.scale(250, len(ex)):]
    sg = scopegen.exhaustive(False)
    ctx.rng.shuffle(sg)
    out += sg[:ctx.scale(150, 2500)]
    tp = c05.template_programs()
    ctx.rng.shuffle(tp)
    out += tp[:ctx.scale(150, len(tp))]
    out += [('adv%d' % i, s) for i, s in enumerate(c12.ADVERSARIAL_SOURCES)]
    out += [('fstr%d' % i, s) for i, s in enumerate(c12.fstring_sources(ctx, ctx.scale(300, 3000)))]
    out += [('curly%d' % i, s) for i, s in enumerate(c12.curly_field_sources())]
    out += [('extreme%d' % i, s) for i, s in enumerate(EXTREMES)]
    for i in range(ctx.scale(120, 4000)):
        r = gen.normalise(gen.gen_module(ctx.rng, ctx.rng.randint(1, 3)))
        if r is not None:
            out.append(('rnd%d' % i, r[0]))
    out += scopegen.random_programs(ctx.rng, ctx.scale(60, 1500))
    out += scopegen.parameter_programs() + scopegen.declaration_programs() + scopegen.import_programs()
    out += scopegen.capture_programs() + scopegen.class_import_programs()[::(1 if ctx.tier == 'thorough' else 3)]
    short = scopegen.short_named(sg[:ctx.scale(100, 2500)])
    out += short
    ctx._c08_rest = rest_of_exhaustive
    return out


def run(ctx):
    osets = option_sets(ctx)
    quick_sets = [osets[0], osets[2], osets[1]] + ctx.rng.sample(osets[3:], 3) if ctx.tier == 'quick' else osets
    for ident, src in sources(ctx):
        if ctx.time_left() < 30:
            ctx.notes.append('stopped by budget')
            break
        check_source(ctx, ident, src, quick_sets, 'generated')
    # a removable statement as the only statement of each kind of suite, with every removal switched on: what is left must
    # still be a suite (always run, in both tiers)
    for ident, src in c05.template_programs():
        parts = ident.split('/')
        if len(parts) == 3 and parts[2] == 'alone' and int(parts[1]) < 14:
            check_source(ctx, 'sole:' + ident, src, [osets[2]], 'sole-statement')
    # the rest of the exhaustive slot x class expression programs: defaults and everything-off only
    for ident, src in getattr(ctx, '_c08_rest', []):
        if ctx.time_left() < 30:
            break
        check_source(ctx, ident, src, osets[:2], 'exhaustive-rest')
    files = sorted(glob.glob(os.path.join(common.VERIF, 'corpus', 'stdlib', '*.py')))
    if ctx.tier == 'quick':
        files = ctx.rng.sample(files, 8)
    for f in files:
        if ctx.time_left() < 20:
            break
        with open(f, encoding='utf-8') as fh:
            check_source(ctx, os.path.basename(f), fh.read(), osets[:3], 'corpus')
    for i, s in enumerate(DEEP):
        check_source(ctx, 'deep%d' % i, s, osets[:2], 'deep')
    malformed(ctx)
    for k in ctx.known:
        if k.get('replay_source'):
            check_source(ctx, k['id'], k['replay_source'], osets[:3], 'known')
    ctx.sample({'stage': 'sources', 'example': EXTREMES[14]})


def search(ctx):
    osets = option_sets(ctx)
    for ident, src in sources(ctx):
        if ctx.violations or ctx.time_left() < 10:
            break
        check_source(ctx, ident, src, osets, 'search')


def replay(ctx, data):
    inp = data.get('input') or {}
    if data.get('oracle') in ('returns', 'compiles'):
        n0 = len(ctx.violations)
        osets = [o for o in option_sets(ctx) if o[0] == inp.get('option_set')] or option_sets(ctx)[:3]
        check_source(ctx, 'replay', inp['source'], osets, 'replay')
        return len(ctx.violations) > n0
    if data.get('oracle') == 'malformed':
        n0 = len(ctx.violations)
        global MALFORMED, MALFORMED_BYTES
        km, kb = MALFORMED, MALFORMED_BYTES
        MALFORMED, MALFORMED_BYTES = ([inp['source']], []) if not inp.get('bytes') else ([], [inp['source'].encode('latin-1')])
        try:
            malformed(ctx)
        finally:
            MALFORMED, MALFORMED_BYTES = km, kb
        return len(ctx.violations) > n0
    return bool(data.get('broken'))

"""C02 — Printed source re-parses to exactly the same syntax tree."""
import ast
import glob
import os
import subprocess
import sys
import warnings

import astcmp
import common
import gen
import pyast
import sexp

warnings.simplefilter('ignore')

META = {
    'rule': 'inputs: pinned corpus (repo sources + 68 stdlib modules), exhaustive (slot x child-class) minimal expressions, '
            'token-adjacency templates, random expression trees and modules from tools/gen.py (normalised through CPython\'s '
            'ast.unparse/ast.parse, rejected unless they compile). Each input is printed by the Lean model and by ModulePrinter '
            '(correspondence), round-tripped through the real unparse with strict comparison (oracle), and its parenthesised form under '
            'perturbed tables is checked against ast.parse (spec validation of Gram). non-trivial = the printed text contains at least '
            'one parenthesis or space decision (text differs from plain token concatenation is not measurable, so: input has >= 2 '
            'expression nodes); distinct by sha1 of the input S-expression',
    'assumptions': ['ast.parse/compile of the running interpreter (3.12) define the tree; repr(str/bytes/float/complex) round-trips (CPython)',
                    'f-string text inside the model is taken from the implementation (f_string.py is not modelled); f-strings are '
                    'covered by the real-code round-trip oracle only'],
    'modelled_not_verified': ['statement-level slots and suite layout: model + correspondence, no theorem yet',
                              'float/complex/str/bytes literal spelling: model of the post-processing + correspondence; repr itself assumed',
                              'Python <= 3.7 node classes (Num/Str/TryExcept/Print/Exec/Repr) not modelled'],
}

ALL_OFF = dict(remove_annotations=False, remove_pass=False, remove_literal_statements=False, combine_imports=False,
               hoist_literals=False, rename_locals=False, rename_globals=False, remove_object_base=False,
               convert_posargs_to_args=False, preserve_shebang=False, remove_asserts=False, remove_debug=False,
               remove_explicit_return_none=False, remove_builtin_exception_brackets=False, constant_folding=False)


def corpus_files(ctx):
    files = sorted(glob.glob(os.path.join(common.REPO_SRC, 'python_minifier', '**', '*.py'), recursive=True))
    std = sorted(glob.glob(os.path.join(common.VERIF, 'corpus', 'stdlib', '*.py')))
    if ctx.tier == 'quick':
        ctx.rng.shuffle(std)
        std = std[:14] + [p for p in std[14:] if os.path.basename(p) in ('test_test_grammar.py', 'test_test_patma.py')]
    return files + std


# ---------------------------------------------------------------------------- real-code oracle

def roundtrip_tree(tree):
    """Strict round trip of a tree in the image of ast.parse through the real printer.
    Returns None or a description of the failure."""
    from python_minifier.module_printer import ModulePrinter
    try:
        text = ModulePrinter()(tree)
    except RecursionError:
        return 'recursion'
    except Exception as e:
        return 'printer raised %s: %s' % (e.__class__.__name__, str(e)[:100])
    try:
        back = ast.parse(text)
    except RecursionError:
        return 'recursion'
    except Exception as e:
        return 'printed text does not parse (%s): %r' % (e.__class__.__name__, text[:200])
    d = astcmp.strict_equal(tree, back)
    if d:
        return 'tree differs after round trip: %s; text=%r' % (d, text[:200])
    return None


def roundtrip_source(src):
    """minify(all transforms off) must parse to the tree of the input."""
    import python_minifier
    try:
        tree = ast.parse(src)
    except Exception:
        return None
    try:
        out = python_minifier.minify(src, **ALL_OFF)
    except RecursionError:
        return 'recursion'
    except Exception as e:
        return 'minify(all off) raised %s' % e.__class__.__name__
    try:
        back = ast.parse(out)
    except Exception as e:
        return 'minify(all off) output does not parse: %r' % out[:200]
    d = astcmp.strict_equal(tree, back)
    return ('minify(all off) changed the tree: %s; out=%r' % (d, out[:200])) if d else None


def shapes_of(src, why=None):
    s = []
    try:
        tree = ast.parse(src)
    except Exception:
        return s
    if why and ('raised ValueError' in why):
        # the printer refuses (F37, a known finding of C08 that this check meets too): only this refusal, on this shape of input
        from props import c08
        s += c08.shapes_of(src, 'ValueError')
    for n in ast.walk(tree):
        if isinstance(n, (ast.With, ast.AsyncWith)) and len(n.items) == 1 and n.items[0].optional_vars is None \
                and isinstance(n.items[0].context_expr, ast.Tuple):
            s.append('with-sole-tuple-item')
    return s


# ---------------------------------------------------------------------------- input families

def sample_of(cls):
    """Minimal source text of an expression of the given child class."""
    kind, _, op = cls.partition(':')
    B = {'Add': '+', 'Sub': '-', 'Mult': '*', 'MatMult': '@', 'Div': '/', 'Mod': '%', 'Pow': '**', 'LShift': '<<',
         'RShift': '>>', 'BitOr': '|', 'BitXor': '^', 'BitAnd': '&', 'FloorDiv': '//'}
    U = {'Invert': '~', 'Not': 'not ', 'UAdd': '+', 'USub': '-'}
    table = {
        'boolOp': lambda: 'p %s q' % op.lower(), 'binOp': lambda: 'p %s q' % B[op], 'unaryOp': lambda: '%sp' % U[op],
        'compare': lambda: 'p<q', 'lambda': lambda: 'lambda:p', 'ifExp': lambda: 'p if q else r', 'await': lambda: 'await p',
        'attribute': lambda: 'p.q', 'subscript': lambda: 'p[q]', 'call': lambda: 'p(q)', 'tupleNE': lambda: 'p,q',
        'tupleE': lambda: '()', 'set': lambda: '{p}', 'list': lambda: '[p]', 'dict': lambda: '{p:q}',
        'listComp': lambda: '[p for p in q]', 'setComp': lambda: '{p for p in q}', 'dictComp': lambda: '{p:q for p in q}',
        'generatorExp': lambda: '(p for p in q)', 'atom0': lambda: 'p', 'yieldLike': lambda: 'yield',
    }
    return table[kind]()


CLASSES = (['boolOp:And', 'boolOp:Or'] + ['binOp:' + o for o in ['Add', 'Sub', 'Mult', 'MatMult', 'Div', 'Mod', 'Pow', 'LShift',
           'RShift', 'BitOr', 'BitXor', 'BitAnd', 'FloorDiv']] + ['unaryOp:' + o for o in ['Invert', 'Not', 'UAdd', 'USub']] +
           ['compare', 'lambda', 'ifExp', 'await', 'attribute', 'subscript', 'call', 'tupleNE', 'tupleE', 'set', 'list', 'dict',
            'listComp', 'setComp', 'dictComp', 'generatorExp', 'atom0', 'yieldLike', 'num', 'float', 'walrus', 'fstring', 'string'])
EXTRA = {'num': '1', 'float': '1.5', 'walrus': 'p:=q', 'fstring': "f'{p}'", 'string': "'s'"}


def slot_templates():
    B = {'Add': '+', 'Sub': '-', 'Mult': '*', 'MatMult': '@', 'Div': '/', 'Mod': '%', 'Pow': '**', 'LShift': '<<',
         'RShift': '>>', 'BitOr': '|', 'BitXor': '^', 'BitAnd': '&', 'FloorDiv': '//'}
    t = {}
    for n, o in B.items():
        t['binL:' + n] = '({}) %s z' % o
        t['binR:' + n] = 'z %s ({})' % o
    for n, o in {'Invert': '~', 'Not': 'not ', 'UAdd': '+', 'USub': '-'}.items():
        t['unary:' + n] = '%s({})' % o
    t['boolVal:And'] = '({}) and z and ({})'
    t['boolVal:Or'] = 'z or ({}) or ({})'
    for i, o in enumerate(['==', '!=', '<', '<=', '>', '>=', ' is ', ' is not ', ' in ', ' not in ']):
        t['cmpLeft:%d' % i] = '({})%sz' % o
        t['cmpRight:%d' % i] = 'z%s({})%sw' % (o, o)
    t.update({
        'ifBody': '({}) if z else w', 'ifTest': 'z if ({}) else w', 'ifOrelse': 'z if w else ({})', 'await': 'await ({})',
        'callFunc': '({})(z)', 'callArg': 'z(({}), w)', 'callSole': 'z(({}))', 'callKw': 'z(k=({}))', 'callStarArg': 'z(*({}))',
        # the same slot with different siblings: what a child needs can depend on the other fields of the node
        'callSoleKw': 'z(({}), k=w)', 'callSoleStarKw': 'z(({}), **w)', 'callSoleStar': 'z(({}), *w)', 'callArgKw': 'z(v, ({}), k=w)',
        'callKwKw': 'z(k=w, j=({}))', 'callStarArgKw': 'z(*({}), k=w)', 'subSliceSole': 'z[({}),]', 'sliceBoth': 'z[({}):({})]',
        'listSole': '[({})]', 'setSole': '{{({})}}', 'tupleSole': '(({}),)', 'dictTwo': '{{({}): z, w: ({})}}', 'compTwoIf': '[z for z in w if ({}) if ({})]',
        'lambdaDefaultKw': 'lambda a, *, b=({}): a', 'lambdaArgBody': 'lambda a, b=1: ({})', 'fstringSpec': "f'{{({}):>{{z}}}}'", 'fstringConv': "f'{{({})!r}}'",
        'callStarKw': 'z(**({}))', 'attrValue': '({}).a', 'subValue': '({})[z]', 'subSlice': 'z[({})]', 'subSliceTuple': 'z[({}), w]',
        'sliceLower': 'z[({}):w]', 'sliceStep': 'z[::({})]', 'starred': '[*({}), z]', 'dictStar': '{{**({}), z: w}}',
        'dictKey': '{{({}): z}}', 'dictValue': '{{z: ({})}}', 'listElt': '[({}), z]', 'setElt': '{{({}), z}}', 'tupleElt': '(({}), z)',
        'compIter': '[z for z in ({})]', 'compIf': '[z for z in w if ({})]', 'compElt': '[({}) for z in w]',
        'genElt': '(({}) for z in w)', 'dictCompKey': '{{({}): z for z in w}}', 'compIter2': '[z for z in w for v in ({})]',
        'lambdaBody': 'lambda: ({})', 'lambdaDefault': 'lambda a=({}): a', 'walrusValue': '(z := ({}))', 'yieldValue': '(yield ({}))',
        'yieldFrom': '(yield from ({}))', 'fstringValue': "f'{{({})}}'", 'powBoth': '({}) ** ({})',
    })
    return t


STMT_TEMPLATES = [
    'x = ({})', 'x = y = ({})', '({})', 'return ({})', 'x += ({})', 'x: int = ({})', 'x: ({}) = 1', 'assert ({}), ({})', 'del x[({})]',
    'raise ({})', 'raise x from ({})', 'if ({}): pass', 'while ({}): pass', 'for x in ({}): pass', 'for x in ({}), y: pass',
    'with ({}): pass', 'with ({}) as w: pass', 'with ({}), z: pass', 'with (({}), z): pass', '@({})\ndef g(): pass',
    'class K(({})): pass', 'class K(m=({})): pass', 'def g(a=({})): pass', 'def g(a: ({})) -> ({}): pass',
    'match ({}):\n  case 1: pass', 'match z:\n  case 1 if ({}): pass', 'try: pass\nexcept ({}): pass', 'print(({}), ({}))',
    'x[({})] = 1', 'x.y = ({})', '[a, b] = ({})', 'for (a, b) in ({}): pass', 'type T = ({})',
]

ADJACENCY = [
    'x = 1 if a else 2', 'x = 0x1f if a else 0xf', 'x = [0x1f for a in b]', 'x = 1 or 2', 'x = 1.5 and 2', 'x = 1 in y', 'x = 1 is not None',
    'x = 1j if 1 else 2j', 'x = 10**12 if a else 281474976710655', "return b'x'", "return 'x'", "return f'{a}'", 'return .5', 'return 0.5',
    'return 1', 'return -1', 'return not a', 'return (a, b)', 'return a, b', 'return *a, b', 'return', 'yield 1', 'yield b""', 'yield from a',
    'x = yield', 'x = yield a', 'x = await a', 'await a', 'print(a if b else c)', 'x = a if b"" else c', "x = a if b else u''",
    'x = lambda: 1', 'x = lambda a: a', 'x = lambda *a, **k: a', 'x = not a', 'x = not(a)', 'x = -a', 'x = a - -b', 'x = a + +b', 'x = a--b',
    'x = a**-b', 'x = (-a)**b', 'x = -a**b', 'x = a ** b ** c', 'x = (a ** b) ** c', 'x = a < b < c', 'x = (a < b) < c', 'x = a < (b < c)',
    'x = a.b.c', 'x = 1 .real', 'x = (1).real', 'x = 1.5.real', 'x = 1j.imag', 'x = a[1:2, ::3]', 'x = a[...]', 'x = a[..., 1]', 'x = ...',
    'x = a[()]', 'x = a[b,]', 'x = a[*b]', 'x = (a,)', 'x = a,', 'x = ()', 'x = [*a, *b]', 'x = {**a, **b}', 'x = {*a}', 'x = f(*a, **b)',
    'x = f(a for a in b)', 'x = f((a for a in b), c)', 'x = f(a, (b for b in c))', 'x = [a async for a in b]', 'x = {a: b for a, b in c}',
    'x = (yield)', 'x = [(yield)]', 'x = (a := 1)', 'x = [a := 1]', 'x = f(a := 1)', 'x = a[b := 1]', 'print((a := 1))',
    'import a.b.c as d, e', 'from . import a', 'from .a import b as c', 'from .. import *', 'from a import (b, c)', 'global a, b', 'nonlocal a',
    'del a, b', 'del (a), [b]', 'assert a, b', 'assert (a, b)', 'raise', 'pass', 'break', 'continue', 'x: int', '(x): int = 1', 'x.y: int = 1',
    'x[0]: int', 'if a:\n pass\nelif b:\n pass\nelse:\n pass', 'if a:\n if b:\n  pass\nelse:\n pass', 'if a:\n pass\nelse:\n if b:\n  pass\n else:\n  pass',
    'if a:\n pass\nelse:\n if b:\n  pass\n pass', 'for a in b:\n pass\nelse:\n pass', 'while a:\n pass\nelse:\n pass', 'while a:\n if b: break\nelse:\n pass',
    'try:\n pass\nexcept A as e:\n pass\nexcept:\n pass\nelse:\n pass\nfinally:\n pass', 'try:\n pass\nfinally:\n pass',
    'try:\n pass\nexcept* A:\n pass', 'try:\n try:\n  pass\n finally:\n  pass\nexcept A:\n pass',
    'with a as b, c as d:\n pass', 'with (a as b, c as d):\n pass', 'with (a, b):\n pass', 'with ((a, b)):\n pass', 'with (a, b) as c:\n pass',
    'with (a):\n pass', 'with (yield):\n pass', 'with a as (b, c):\n pass', 'async def f():\n async with a as b:\n  pass\n async for c in d:\n  pass\n await e',
    'def f(a, /, b, *, c):\n pass', 'def f(a=1, /, b=2, *c, d, e=3, **g):\n pass', 'def f(*, a):\n pass', 'def f(a, /):\n pass', 'def f(*a: int, **k: str) -> None:\n pass',
    'def f[T](a: T) -> T:\n pass', 'def f[T: int, *Ts, **P](a):\n pass', 'class A[T](B):\n pass', 'type X[T] = list[T]', 'class A(B, metaclass=M, *a, **k):\n pass',
    'class A:\n def f(self):\n  return 1\n x = 1', '@a\n@b.c(d)\nclass A:\n pass', '@a\nasync def f():\n pass', 'class A():\n pass',
    'match a:\n case 1 | 2:\n  pass\n case [a, b, *c]:\n  pass\n case {"k": v, **r}:\n  pass\n case A(x, y=1):\n  pass\n case (1 as n) as m:\n  pass\n case _:\n  pass',
    'match a, b:\n case a, b:\n  pass\n case [a]:\n  pass\n case []:\n  pass\n case (a | b) | c:\n  pass\n case None | True:\n  pass\n case -1 | 1+2j | a.b:\n  pass',
    'match (a):\n case str() | bytes():\n  pass\n case [*_]:\n  pass\n case {}:\n  pass\n case x if x > 1:\n  pass',
    'x = "a" "b"', "x = 'it''s'", 'x = """a\nb"""', "x = b'a' b'b'", "x = f'a{b!r:>{w}}c'", "x = f'{a}' 'b'", "x = f'{{}}'", "x = f'{a=}'", "x = f'{a:{b}.{c}}'",
    "x = f'{a!s}{b!a}'", "x = f'''{a}\n'''", "x = f'{\"q\"}'", "x = f\"{'q'}\"", "x = f'{lambda: 1}'" if False else "x = f'{(lambda: 1)}'", "x = f'{a if b else c}'",
    "x = f'{a:{{}}}'" if False else "x = f'{a}{{b}}'", 'x = 1_000', 'x = 0o17', 'x = 0b101', 'x = 1e3', 'x = 1e-3', 'x = 1E+10', 'x = 1.0', 'x = 100.0', 'x = 1e22', 'x = 1e23',
    'x = .0', 'x = 0.', 'x = 00', 'x = 0.1j', 'x = 1e400', 'x = -1e400', 'x = 1e400j', 'x = 123456789012345678901234567890', 'x = 0xdeadbeefdeadbeef',
    'x = 9999999999999999.0', 'x = 1e16', 'x = 12345678912345678.0', 'x = 5e-324', 'x = 1.7976931348623157e308', 'x = 100000000000000000000.0', 'x = 120000.0',
    'x = a if b else c if d else e', 'x = (a if b else c) if d else e', 'x = a if (b if c else d) else e', 'x = lambda: (yield)', 'x = [i for i in (a if b else c)]',
    'x = [i for i in a if b if c]', 'x = [i for i in a if (b if c else d)]', 'x = [i for i in (lambda: a)]', 'x = [i for i in a or b]', 'x = [i for i in a if b or c]',
    'x = [i for i, j in a]', 'x = [i for (i, j) in a]', 'x = [i for [i, j] in a]', 'x = [i for i.a in b]', 'x = [i for *i, j in a]', 'x = *a, b', 'x, *y = a', '*x, = a',
    '[x, *y] = a', 'x = y = z = 1', 'x = (yield a), b', 'x = yield a, b', 'x += yield', 'x = a or b and c', 'x = (a or b) and c', 'x = a or (b or c)', 'x = not a == b',
    'x = (not a) == b', 'x = a == (not b)', 'x = a | b ^ c & d << e + f * g', 'x = ((((a | b) ^ c) & d) << e) + f', 'x = a @ b @ c', 'x = a @ (b @ c)', 'x = a // b / c % d',
    'x = a - (b - c)', 'x = a - (b + c)', 'x = (a - b) - c', 'x = a * (b / c)', 'x = ~a ** b', 'x = (~a) ** b', 'x = a ** ~b', 'x = await a ** b' if False else 'x = a ** b',
    'x = (await a) ** b' if False else 'x = b ** a', 'x = a(b)(c)[d].e', 'x = (a + b)(c)', 'x = (a + b).c', 'x = (a + b)[c]', 'x = (lambda: a)()', 'x = (a if b else c)()',
    'x = [lambda: a, lambda: b]', 'x = {a: lambda: b}', 'x = f(lambda: a, b)', 'x = lambda a=lambda: 1: a', 'x = (a, b)[0]', 'x = [a, b][0]', 'x = {a}[0]' if False else 'x = {a}',
    'x = "a".b', 'x = b"a"[0]', 'x = f"{a}".b', 'x = ...[0]' if False else 'x = (...)', 'x = None.a' if False else 'x = None', 'x = True + 1', 'x = (1, 2) + (3,)',
    'x = a if b else (c, d)', 'x = (a, b) if c else d', 'x = a, b if c else d', 'for x in a, b:\n pass', 'for x in (a, b):\n pass', 'for x, y in a:\n pass', 'for (x, y) in a:\n pass',
    'for x in *a, b:\n pass', 'for x in (yield):\n pass' if False else 'for x in a:\n pass', 'x = [a for a in (b, c)]', 'x = [(a, b) for a in c]', 'x = {(a, b): c for a in d}',
    'print(*a, sep="")', 'print(**a)', 'print(a, *b, c=1, **d)', 'x = a.b(c=d)', 'exec = 1', 'print = 1', 'match = 1', 'case = 1', 'type = 1', '_ = 1', 'match.case = type',
    'x = match[case]', 'x = type(_)', 'match(x)', 'match[x]', 'match (x):\n case _:\n  pass' if False else 'match x:\n case _:\n  pass', 'async def f():\n x = [await a for b in c]\n return await a',
    'async def f():\n await (await a)\n (await a)()\n (await a).b\n -await a\n await a ** 2\n 2 ** await a\n await -a' if False else 'async def f():\n await (await a)\n (await a)()\n (await a).b\n -await a\n await a ** 2\n 2 ** await a',
    'async def f():\n await (a or b)\n await (a + b)\n await a[0]\n await a()\n await a.b\n await (lambda: a)\n await (yield)' if False else 'async def f():\n await (a or b)\n await (a + b)\n await a[0]\n await a()\n await a.b\n await (lambda: a)',
    'def f():\n x = yield\n y = yield x\n z = (yield), (yield)\n yield (yield)\n return (yield)\n yield from (yield)\n yield from a, b' if False else 'def f():\n x = yield\n y = yield x\n z = (yield), (yield)\n yield (yield)\n return (yield)\n yield from (yield)',
    'def f():\n yield a, b\n yield (a, b)\n yield\n yield a if b else c\n yield lambda: a\n x = [(yield)]\n print((yield))\n print((yield), 1)',
    '"""doc"""\nx = 1', 'def f():\n """doc"""', 'class A:\n """doc"""', 'def f():\n "doc"\n return 1', 'x = 1; y = 2', 'if a: x = 1; y = 2', 'if a:\n x = 1\n if b: y = 2\n z = 3',
    'def f():\n def g():\n  pass\n return g', 'def f():\n x = 1\n def g():\n  pass', 'def f():\n if a:\n  pass\n x = 1', 'class A:\n x = 1\n def f(self): pass\n y = 2',
    'if a:\n def f(): pass\n x = 1\nelse:\n y = 2', 'while a:\n x = 1\n for b in c:\n  y = 2\n z = 3', 'try:\n x = 1\nexcept A:\n if b:\n  y = 2\nfinally:\n z = 3',
]


def exhaustive_sources():
    """(id, source) for every slot template x child class, statement templates x a few classes, adjacency list."""
    out = []
    slots = slot_templates()
    for sn, tmpl in sorted(slots.items()):
        for c in CLASSES:
            child = EXTRA[c] if c in EXTRA else sample_of(c)
            expr = tmpl.format(child, child)
            asyn = 'await' in expr
            gen_ = 'yield' in expr
            if asyn and gen_:
                continue
            head = 'async def f():\n x = ' if asyn else ('def f():\n x = ' if gen_ else 'x = ')
            out.append(('slot:%s/%s' % (sn, c), head + expr + '\n'))
    for i, tmpl in enumerate(STMT_TEMPLATES):
        for c in ['tupleNE', 'yieldLike', 'walrus', 'lambda', 'ifExp', 'atom0', 'boolOp:Or', 'compare', 'tupleE', 'generatorExp', 'await', 'num']:
            child = EXTRA[c] if c in EXTRA else sample_of(c)
            body = tmpl.format(child, child, child)
            needs_f = 'yield' in body or body.startswith('return') or 'await' in body
            if 'yield' in body and 'await' in body:
                continue
            if needs_f:
                head = 'async def f():\n' if 'await' in body else 'def f():\n'
                body = head + ''.join(' ' + l + '\n' for l in body.split('\n'))
            out.append(('stmt:%d/%s' % (i, c), body + '\n'))
    for i, src in enumerate(ADJACENCY):
        if src.startswith(('return', 'yield', 'await', 'x = yield', 'x = await', 'x += yield', 'nonlocal', 'x = (yield', 'x = [(yield', 'x = lambda: (yield')) or \
                src.startswith(('with (yield', 'x = yield')):
            head = 'async def f():\n' if 'await' in src else 'def f():\n a = 1\n def g():\n'
            ind = ' ' if 'await' in src else '  '
            src = head + ''.join(ind + l + '\n' for l in src.split('\n'))
        out.append(('adj:%d' % i, src + '\n'))
    return out


def parse_or_none(src):
    try:
        compile(src, '<c02>', 'exec', dont_inherit=True)
        return ast.parse(src)
    except (SyntaxError, ValueError, RecursionError):
        return None


# ---------------------------------------------------------------------------- the stages

def logical_lines(text):
    """(depth, number of `;`) of every logical line of a source text, as CPython's tokenizer reads it"""
    import io
    import tokenize
    out, depth, cur = [], 0, None
    for tok in tokenize.generate_tokens(io.StringIO(text).readline):
        if tok.type == tokenize.INDENT:
            depth += 1
        elif tok.type == tokenize.DEDENT:
            depth -= 1
        elif tok.type == tokenize.NEWLINE:
            if cur is not None:
                out.append(tuple(cur))
            cur = None
        elif tok.type in (tokenize.NL, tokenize.COMMENT, tokenize.ENDMARKER):
            if tok.type == tokenize.NL and cur is None:
                out.append(('blank', 0))
        else:
            if cur is None:
                cur = [depth, 0]
            if tok.type == tokenize.OP and tok.string == ';':
                cur[1] += 1
    if cur is not None:
        out.append(tuple(cur))
    return out


def layout_check(ctx, keep, stage):
    """T02.4 / T02.5 on the same modules: their hypotheses hold (`okL`, `textOK`), and the layout specification `emitModule`
    (depth and number of `;` of every line) is how CPython's tokenizer reads the text the real printer wrote"""
    reqs, meta = [], []
    for ident, src, tree, impl in keep:
        if impl.startswith('EXC:'):
            continue
        try:
            reqs.append('layout.check ' + pyast.enc_module(tree))
        except (pyast.OutOfModel, RecursionError):
            continue
        meta.append((ident, src, impl))
    answers = ctx.driver.ask(reqs) if reqs else []
    unmet = diffs = lines = 0
    for (ident, src, impl), ans in zip(meta, answers):
        if not ans.startswith('ok '):
            ctx.add_broken('correspondence', 'layout:%s:%s' % (stage, ident), 'driver answered %r' % ans[:100])
            continue
        parts = ans[3:].split()
        if parts[0] != '1':
            unmet += 1
            ctx.add_broken('hypothesis', 'layout:%s:%s' % (stage, ident), 'okL / plainL / textOK does not hold for %r: T02.4 says nothing about it' % src[:300])
            continue
        model = [tuple(int(x) for x in p.split(':')) for p in parts[1:]]
        if not impl.strip() and model == [(0, 0)]:
            continue                    # an empty module: no logical line at all
        try:
            real = logical_lines(impl)
        except Exception as e:
            ctx.bump('layout', 'tokenize:' + e.__class__.__name__)
            continue
        lines += len(real)
        ctx.bump('layout_max_depth', min(max([d for d, _ in model] or [0]), 6))
        if real != model:
            diffs += 1
            ctx.add_broken('correspondence', 'layout:%s:%s' % (stage, ident),
                           'the layout specification gives lines (depth, semicolons) %r, the tokenizer reads %r from %r' % (model[:12], real[:12], impl[:300]))
    ctx.stage('layout:' + stage, modules=len(meta), hypotheses_unmet=unmet, logical_lines=lines, diffs=diffs)


def correspond_and_check(ctx, items, stage):
    """items: list of (id, source, tree). Model print vs ModulePrinter print; real round trip."""
    from python_minifier.module_printer import ModulePrinter
    reqs, keep = [], []
    for ident, src, tree in items:
        try:
            line = 'unparse ' + pyast.enc_module(tree)
        except pyast.OutOfModel as e:
            ctx.bump('out_of_model', str(e))
            # outside the model is not outside the property: the oracle on the real code still applies
            why = roundtrip_tree(tree)
            ctx.count()
            if why and why != 'recursion':
                ctx.add_violation({'input': {'source': src}, 'what': why, 'found_by': stage, 'oracle': 'roundtrip', 'shapes': shapes_of(src, why)})
            continue
        except RecursionError:
            ctx.bump('out_of_model', 'recursion')
            continue
        try:
            impl = ModulePrinter()(tree)
        except RecursionError:
            ctx.bump('impl_outcome', 'RecursionError')
            continue
        except Exception as e:
            impl = 'EXC:' + e.__class__.__name__
        reqs.append(line)
        keep.append((ident, src, tree, impl))
    answers = ctx.driver.ask(reqs) if reqs else []
    diffs = 0
    for (ident, src, tree, impl), ans in zip(keep, answers):
        ctx.count()
        nnodes = sum(1 for n in ast.walk(tree) if isinstance(n, ast.expr))
        if nnodes >= 2:
            ctx.mark_nontrivial(reqs[0][:0] + ident + src)
        for n in ast.walk(tree):
            if isinstance(n, (ast.expr, ast.stmt, ast.pattern)):
                ctx.bump('node_classes', type(n).__name__)
        model = sexp.dec_str(ans[3:]) if ans.startswith('ok ') else ans
        if model != impl:
            diffs += 1
            k = next((j for j in range(min(len(model), len(impl))) if model[j] != impl[j]), min(len(model), len(impl)))
            ctx.add_broken('correspondence', 'unparse:%s:%s' % (stage, ident),
                           'model=%r impl=%r source=%r' % (model[max(0, k - 40):k + 40], impl[max(0, k - 40):k + 40], src[:300]))
        # oracle on the real code
        why = roundtrip_tree(tree)
        if why == 'recursion':
            ctx.bump('impl_outcome', 'RecursionError')
        elif why:
            ctx.add_violation({'input': {'source': src}, 'what': why, 'found_by': stage, 'oracle': 'roundtrip',
                               'shapes': shapes_of(src, why)})
        else:
            why2 = roundtrip_source(src) if len(src) < 20000 else None
            if why2 and why2 != 'recursion':
                ctx.add_violation({'input': {'source': src}, 'what': why2, 'found_by': stage, 'oracle': 'roundtrip',
                                   'shapes': shapes_of(src, why2)})
    layout_check(ctx, keep, stage)
    if keep:
        ctx.sample({'stage': 'unparse:' + stage, 'id': keep[-1][0], 'source': keep[-1][1][:200], 'model_text': (sexp.dec_str(answers[-1][3:])[:200] if answers[-1].startswith('ok ') else answers[-1])})
    ctx.stage('unparse:' + stage, cases=len(keep), diffs=diffs)
    return diffs


PERTURB_KEYS = ['Lambda', 'IfExp', 'comprehension', 'Or', 'And', 'Not', 'Eq', 'Lt', 'In', 'Is', 'BitOr', 'BitXor', 'BitAnd', 'LShift', 'Add',
                'Sub', 'Mult', 'Div', 'UAdd', 'USub', 'Invert', 'Pow', 'Await', 'Subscript', 'Call', 'Attribute', 'Tuple', 'List', 'GeneratorExp',
                '#starMax', '#dictStarMax', '#powRhs', '#subscript']


def spec_validation(ctx, n):
    """(D) Gram vs ast.parse: parenthesise random expressions with *perturbed* precedence tables (so that
    trees with too few parentheses are produced too); whenever the Lean spec says `Gram`, CPython must
    parse the flat text back to the input expression."""
    exprs = []
    while len(exprs) < n:
        e = gen.gen_expr(ctx.rng, ctx.rng.randint(1, 4))
        r = gen.normalise(ast.Expression(body=e), mode='eval')
        if r is None:
            continue
        src, tree = r
        if any(isinstance(x, ast.JoinedStr) for x in ast.walk(tree)):
            continue
        exprs.append((src, tree.body))
    reqs, meta = [], []
    for src, e in exprs:
        for j in range(3):
            ovs = []
            if j > 0:
                for _ in range(ctx.rng.randint(1, 3)):
                    ovs.append((ctx.rng.choice(PERTURB_KEYS), ctx.rng.choice([0, 4, 6, 7, 8, 10, 12, 14, 16, 20, 24, 26, 28, 30, 32, 34, 36])))
            reqs.append('gram.check %s %s' % (sexp.lst(['(%s %d)' % kv for kv in ovs]), pyast.enc_expr(e)))
            meta.append((src, e, ovs))
    answers = ctx.driver.ask(reqs)
    stats = {'gram_true': 0, 'gram_false': 0, 'gram_false_but_parses_same': 0, 'not_wf': 0, 'perturbed_table_ok': 0}
    bad = 0
    for (src, e, ovs), ans in zip(meta, answers):
        ctx.count()
        if not ans.startswith('ok '):
            ctx.add_broken('correspondence', 'gram.check', ans + ' for ' + src[:100])
            continue
        wf, gram, tok, text = ans[3:].split(' ', 3)
        text = sexp.dec_str(text)
        if wf != '1':
            stats['not_wf'] += 1
            ctx.add_broken('spec', 'WF rejects a parser-image expression', src[:200])
            continue
        if tok == '1' and ovs:
            stats['perturbed_table_ok'] += 1
        try:
            back = ast.parse(text, mode='eval').body
            same = astcmp.strict_equal(e, back) is None
        except (SyntaxError, ValueError):
            same = False
        if gram == '1':
            stats['gram_true'] += 1
            ctx.mark_nontrivial('gram:' + text)
            if not same:
                bad += 1
                ctx.add_broken('spec', 'Gram unsound', 'Gram holds but CPython parses %r differently from %r (table overrides %r)' % (text, src, ovs))
        else:
            stats['gram_false'] += 1
            if same:
                stats['gram_false_but_parses_same'] += 1
    ctx.stage('spec_validation', **stats)
    ctx.sample({'stage': 'gram.check', 'source': meta[-1][0], 'overrides': meta[-1][2], 'answer': answers[-1][:200]})
    return bad


def other_interpreters(ctx):
    """Thorough tier: the real-code round trip under the other installed interpreters."""
    script = os.path.join(common.HERE, 'c02_roundtrip_other.py')
    res = {}
    for ver in ['3.8.18', '3.9.18', '3.10.13', '3.11.7', '3.13.0']:
        exe = '/root/.pyenv/versions/%s/bin/python' % ver
        if not os.path.exists(exe):
            continue
        env = dict(os.environ, PYTHONPATH=common.REPO_SRC, PMV_CORPUS=os.path.join(common.VERIF, 'corpus', 'stdlib'))
        try:
            p = subprocess.run([exe, script], env=env, stdout=subprocess.PIPE, stderr=subprocess.PIPE, timeout=900, text=True)
        except subprocess.TimeoutExpired:
            res[ver] = 'timeout'
            continue
        lines = [l for l in p.stdout.split('\n') if l.startswith(('FAIL', 'DONE'))]
        res[ver] = lines[-1] if lines else 'no output rc=%s %s' % (p.returncode, p.stderr[-200:])
        for l in lines:
            if l.startswith('FAIL'):
                _, src_repr, why = l.split('\t', 2)
                ctx.add_violation({'input': {'source': ast.literal_eval(src_repr), 'interpreter': ver}, 'what': why,
                                   'found_by': 'other-interpreter', 'oracle': 'roundtrip-other', 'shapes': shapes_of(ast.literal_eval(src_repr))})
        ctx.count()
    ctx.stage('other_interpreters', **res)


def run(ctx):
    # 1. exhaustive small scopes
    ex = []
    rejected = 0
    for ident, src in exhaustive_sources():
        t = parse_or_none(src)
        if t is None:
            rejected += 1
            continue
        ex.append((ident, src, t))
    ctx.exhaustive['slot_x_class_and_templates'] = len(ex)
    ctx.stage('exhaustive', generated=len(ex), rejected_not_compilable=rejected)
    correspond_and_check(ctx, ex, 'exhaustive')
    # 2. corpus
    items = []
    for f in corpus_files(ctx):
        try:
            with open(f, 'rb') as fh:
                src = fh.read().decode('utf-8')
            items.append((os.path.basename(f), src, ast.parse(src)))
        except (SyntaxError, UnicodeDecodeError):
            continue
    correspond_and_check(ctx, items, 'corpus')
    # 3. random modules and expressions
    rnd = []
    want = ctx.scale(400, 6000)
    tries = 0
    while len(rnd) < want and tries < want * 3:
        tries += 1
        if ctx.rng.random() < 0.5:
            tree = ast.Module(body=[ast.Assign(targets=[ast.Name(id='x', ctx=ast.Store())],
                                               value=gen.gen_expr(ctx.rng, ctx.rng.randint(2, ctx.scale(6, 9))), lineno=1)], type_ignores=[])
        else:
            tree = gen.gen_module(ctx.rng, ctx.rng.randint(1, 3))
        r = gen.normalise(tree)
        if r is None:
            ctx.bump('generator', 'rejected')
            continue
        ctx.bump('generator', 'accepted')
        rnd.append(('rnd%d' % len(rnd), r[0], r[1]))
        if ctx.time_left() < 60:
            break
    correspond_and_check(ctx, rnd, 'random')
    # 3b. f-strings: fields starting with a brace, adversarial nested strings, escapes in format specs and nested f-strings
    from props import c12
    fs = []
    for i, src in enumerate(c12.curly_field_sources() + c12.escape_merge_sources()[::ctx.scale(2, 1)] + c12.fstring_sources(ctx, ctx.scale(300, 4000)) + c12.nested_string_attacks()[::ctx.scale(6, 1)]):
        t = parse_or_none(src)
        if t is not None:
            fs.append(('fstring%d' % i, src, t))
    correspond_and_check(ctx, fs, 'f-strings')
    # 4. spec validation of Gram
    spec_validation(ctx, ctx.scale(300, 4000))
    # 5. known findings replay
    for k in ctx.known:
        # listed findings (still failing -> KNOWN-FINDING) and fixed ones (must stay fixed) are replayed alike
        if k.get('replay_source'):
            ctx.count()
            why = roundtrip_source(k['replay_source']) or roundtrip_tree(ast.parse(k['replay_source']))
            if why:
                ctx.add_violation({'input': {'source': k['replay_source']}, 'what': why, 'found_by': 'known', 'oracle': 'roundtrip',
                                   'shapes': shapes_of(k['replay_source'], why)})
    if ctx.tier == 'thorough':
        other_interpreters(ctx)


def search(ctx):
    """A table obligation or a correspondence broke: name the violating (slot, class) pairs, then rerun
    the exhaustive enumeration and a larger random sample through the real-code oracle."""
    try:
        ctx.notes.append('paren twin: ' + ctx.driver.ask(['paren.violations'])[0])
        ctx.notes.append('spacing twin: ' + ctx.driver.ask(['spacing.violations'])[0])
    except Exception as e:
        ctx.notes.append('twins unavailable: %r' % e)
    n = 0
    for depth in (3, 5, 7):
        for _ in range(1500):
            if ctx.violations or ctx.time_left() < 10:
                return
            e = gen.gen_expr(ctx.rng, depth)
            r = gen.normalise(ast.Module(body=[ast.Assign(targets=[ast.Name(id='x', ctx=ast.Store())], value=e, lineno=1)], type_ignores=[]))
            if r is None:
                continue
            n += 1
            ctx.count()
            why = roundtrip_tree(r[1])
            if why and why != 'recursion':
                ctx.add_violation({'input': {'source': r[0]}, 'what': why, 'found_by': 'search-random', 'oracle': 'roundtrip', 'shapes': shapes_of(r[0], why)})


def oracles_only(ctx):
    for ident, src in exhaustive_sources():
        t = parse_or_none(src)
        if t is None:
            continue
        ctx.count()
        why = roundtrip_tree(t)
        if why and why != 'recursion':
            ctx.add_violation({'input': {'source': src}, 'what': why, 'found_by': 'exhaustive', 'oracle': 'roundtrip', 'shapes': shapes_of(src, why)})


def replay(ctx, data):
    inp = data.get('input') or {}
    if 'source' in inp:
        src = inp['source']
        try:
            tree = ast.parse(src)
        except Exception:
            return False
        return bool((roundtrip_tree(tree) or roundtrip_source(src)) not in (None, 'recursion'))
    return bool(data.get('broken'))

"""C05 — Each option performs only its documented rewrite, only where it is valid."""
import ast
import builtins
import itertools
import warnings

import gen
import pyast
import rungen
import runobs
import scopes
import sexp
from props import c02, c07

warnings.simplefilter('ignore')

META = {
    'rule': 'programs: every removable statement kind (pass, assert, literal statements, the eight __debug__ test spellings with and without '
            'else, adjacent imports, return None, class(object), raise X(), annotated names/arguments/returns/class attributes incl. '
            'dataclass / NamedTuple / TypedDict) placed in every suite kind (module, def, async def, class, if/else, for/else, while/else, '
            'try/except/else/finally, try*, with, match case, nested), plus random modules; option sets: each switch alone from all-off, '
            'each switch alone off from the defaults, all pairs (thorough) and random subsets. (C) the Lean model of the transform '
            'pipeline must print the same text as minify(); (O) canon_O(minify(P,O)) == canon_O(P) where canon_O is the Lean '
            'specification of the documented rewrites. non-trivial = the output differs from the all-off output; distinct by (program, options)',
    'assumptions': ['which names are un-shadowed builtins is computed by the scoping specification tools/scopes.py',
                    'constant folding is judged by C07; C05 runs the canon oracle with folding off'],
    'modelled_not_verified': ['remove_no_arg_exception_call acts on names supplied by the scoping spec (its dependence on bind/resolve is not modelled)'],
}

BOOL_OPTS = ['remove_pass', 'remove_literal_statements', 'combine_imports', 'remove_object_base', 'convert_posargs_to_args',
             'remove_asserts', 'remove_debug', 'remove_explicit_return_none', 'remove_builtin_exception_brackets', 'constant_folding']
ANN_OPTS = ['remove_variable_annotations', 'remove_return_annotations', 'remove_argument_annotations', 'remove_class_attribute_annotations']
ALL_SWITCHES = ANN_OPTS + BOOL_OPTS
DEFAULTS = {'remove_pass': True, 'remove_literal_statements': False, 'combine_imports': True, 'remove_object_base': True,
            'convert_posargs_to_args': True, 'remove_asserts': False, 'remove_debug': False, 'remove_explicit_return_none': True,
            'remove_builtin_exception_brackets': True, 'constant_folding': True, 'remove_variable_annotations': True,
            'remove_return_annotations': True, 'remove_argument_annotations': True, 'remove_class_attribute_annotations': False}

STATEMENTS = [
    'pass', 'assert checked_value', 'assert checked_value, "message"', '"a literal statement"', '42', 'None', 'b"bytes"', '...', '0',
    'if __debug__: debug_call()', 'if __debug__ is True: debug_call()', 'if __debug__ is not False: debug_call()', 'if __debug__ == True: debug_call()',
    'if not __debug__: debug_call()', 'if __debug__ is False: debug_call()', 'if __debug__ is not True: debug_call()', 'if __debug__ == False: debug_call()',
    'if __debug__ is not None: debug_call()', 'if __debug__ is not other_flag: debug_call()', 'if __debug__ is None: debug_call()', 'if __debug__ is not 0: debug_call()',
    'if __debug__ is other_flag: debug_call()', 'if __debug__ == 1: debug_call()', 'if __debug__ != False: debug_call()', 'if True is __debug__: debug_call()',
    'if __debug__ is (not False): debug_call()', 'if not not __debug__: debug_call()', 'if __debug__ in (True,): debug_call()', 'if __debug__ is True is True: debug_call()',
    'if __debug__:\n    debug_call()\nelse:\n    release_call()', 'if other_flag is True: debug_call()', 'if other_flag == True: debug_call()',
    'if other_flag is not False:\n    debug_call()\nelse:\n    release_call()', 'if __debug__ and other_flag: debug_call()',
    'import os\nimport sys', 'import os\nimport sys as system\nimport os.path', 'from os import path\nfrom os import sep',
    'from os import path\nfrom sys import argv\nfrom sys import exit', 'from os import *\nfrom os import path', 'from . import sibling\nfrom . import other',
    'from .pkg import a\nfrom ..pkg import b', 'import os\nvalue = 1\nimport sys', 'from os import path\nimport sys\nfrom os import sep',
    'import os\nfrom sys import argv\nimport json\nimport re', 'from os import path\nimport sys\nimport json\nfrom os import sep\nfrom os import getcwd\nimport re',
    'from x import a\nfrom .x import b', 'from . import a\nfrom .. import b', 'from .x import a\nfrom ..x import b\nfrom x import c',
    'annotated_name: int = 1', 'annotated_name: int', '(annotated_name): int = 1', 'holder.attribute: int = 1', 'holder[0]: int = 2',
    'class Derived(object): pass', 'class Derived(Base, object, metaclass=Meta): pass', 'class Derived(module.object): pass', 'class Derived(object()): pass',
    'raise ValueError()', 'raise ValueError', 'raise ValueError("message")', 'raise CustomError()', 'raise ValueError() from KeyError()',
    'raise ValueError from KeyError()', 'raise module.ValueError()', 'raise (ValueError())', 'raise ValueError(*arguments)',
    'raise ImportError(name=value_name)', 'raise ValueError(**keyword_arguments)', 'raise ValueError() from KeyError(key=value_name)',
    'result = 1 + 2', 'result = 10 * 10 * 10',
    # `pass` in front of a string statement: without it the string would be the docstring of the block's owner (F39)
    'pass\n"a string after pass"', 'pass\npass\n"a string after two passes"\nvalue_after = 1', 'pass\nb"bytes after pass"', 'pass\n42\n"later string"',
    # the same for the other statement-removing options (F41)
    'assert checked_value\n"a string after assert"', 'assert first_check\nassert second_check, "message"\n"a string after two asserts"\nvalue_after = 1',
    'if __debug__: debug_call()\n"a string after a debug block"', 'if __debug__ is True:\n    debug_call()\nassert checked_value\npass\n"a string after all three"',
    'pass\nassert checked_value\n"string after pass and assert"', 'assert checked_value\npass\nb"bytes after assert and pass"\n"then a string"',
    # annotations without a value on targets that are not names: nothing is evaluated but the object (and the index)
    'holder.attribute: int', 'holder[0]: int', 'holder.attribute.deeper: "Text"', 'holder[first_index][second_index]: int',
]

FUNCTION_STATEMENTS = [
    'return None', 'return', 'return None\npass', 'value = 1\nreturn\nreturn', 'return None\nreturn None', 'value = 1\nreturn None\nreturn\nreturn None', 'value = 1\nreturn None', 'value = 1\nreturn', 'if value:\n    return None\nreturn 1',
    'def inner():\n    return None', 'return (None)', 'return None if value else 1', 'yield\nreturn None', 'return not None',
    # a valueless return that ends a *block* is not redundant unless the block also ends the function
    'try:\n    first_call()\n    return\nexcept SomeError:\n    second_call()\nelse:\n    third_call()',
    'try:\n    first_call()\n    return None\nexcept SomeError:\n    second_call()\n    return\nelse:\n    third_call()\nfinally:\n    fourth_call()',
    'try:\n    first_call()\nexcept SomeError:\n    second_call()\n    return\nfinally:\n    fourth_call()\n    return',
    'if value:\n    first_call()\n    return\nelse:\n    second_call()\n    return None',
    'if value:\n    first_call()\n    return\nsecond_call()', 'with value:\n    first_call()\n    return',
    'for loop_item in value:\n    first_call()\n    return', 'while value:\n    first_call()\n    return\nelse:\n    second_call()\n    return',
    'if value:\n    try:\n        first_call()\n        return\n    except SomeError:\n        pass\n    else:\n        second_call()',
    'match value:\n    case 1:\n        first_call()\n        return\n    case _:\n        return None',
    'raise ImportError(name=value)', 'raise ValueError(**value)', 'raise ValueError() from KeyError(key=value)', 'raise OSError(*value, **value)',
]

ANNOTATED = [
    'def annotated(first: int, /, second: str = "x", *rest: float, keyword: bytes = b"", **others: dict) -> list:\n    local_name: int = 1\n    bare_local: str\n    return local_name',
    'class Plain:\n    attribute_one: int = 1\n    attribute_two: str\n    def method(self, parameter: int) -> int:\n        return parameter',
    '@dataclass\nclass Data:\n    field_one: int = 1\n    field_two: str\n    untyped = 3',
    '@dataclasses.dataclass(frozen=True)\nclass Data:\n    field_one: int = 1',
    '@dataclass()\nclass Data:\n    field_one: int\n    def method(self, parameter: int = 2) -> None:\n        inner_local: int = parameter',
    'class Point(NamedTuple):\n    x_coordinate: int\n    y_coordinate: int = 0',
    'class Movie(typing.TypedDict, total=False):\n    movie_name: str\n    movie_year: int',
    'class Both(Base, NamedTuple): field_one: int = 1',
    '@decorator\nclass NotData:\n    field_one: int = 1\n    field_two: str',
    'class Outer:\n    if condition:\n        conditional_field: int = 1\n    class Inner:\n        inner_field: int = 2',
    # class-level annotated assignments inside every kind of block of the class body are still attributes of the class
    '@dataclass\nclass Data:\n    with context_value:\n        field_one: int = 1\n    for loop_item in ():\n        field_two: int = 2\n    else:\n        field_three: int\n    while False:\n        field_four: str = ""\n    try:\n        field_five: int = 5\n    except ImportError:\n        field_six: int = 6\n    else:\n        field_seven: int = 7\n    finally:\n        field_eight: int = 8\n    match subject_value:\n        case 1:\n            field_nine: int = 9\n    if condition:\n        with other_context:\n            field_ten: int = 10',
    'class Point(NamedTuple):\n    with context_value:\n        field_one: int = 1\n    for loop_item in ():\n        field_two: int = 2\n    else:\n        field_three: int\n    while False:\n        field_four: str = ""\n    try:\n        field_five: int = 5\n    except ImportError:\n        field_six: int = 6\n    else:\n        field_seven: int = 7\n    finally:\n        field_eight: int = 8\n    match subject_value:\n        case 1:\n            field_nine: int = 9\n    if condition:\n        with other_context:\n            field_ten: int = 10',
    'class Movie(TypedDict):\n    with context_value:\n        field_one: int = 1\n    for loop_item in ():\n        field_two: int = 2\n    else:\n        field_three: int\n    while False:\n        field_four: str = ""\n    try:\n        field_five: int = 5\n    except ImportError:\n        field_six: int = 6\n    else:\n        field_seven: int = 7\n    finally:\n        field_eight: int = 8\n    match subject_value:\n        case 1:\n            field_nine: int = 9\n    if condition:\n        with other_context:\n            field_ten: int = 10',
    'class Plain:\n    with context_value:\n        field_one: int = 1\n    for loop_item in ():\n        field_two: int = 2\n    else:\n        field_three: int\n    while False:\n        field_four: str = ""\n    try:\n        field_five: int = 5\n    except ImportError:\n        field_six: int = 6\n    else:\n        field_seven: int = 7\n    finally:\n        field_eight: int = 8\n    match subject_value:\n        case 1:\n            field_nine: int = 9\n    if condition:\n        with other_context:\n            field_ten: int = 10',
    'def function_one():\n    @dataclass\n    class Data:\n        with context_value:\n            field_one: int = 1\n        for loop_item in ():\n            field_two: int = 2\n        else:\n            field_three: int\n        while False:\n            field_four: str = ""\n        try:\n            field_five: int = 5\n        except ImportError:\n            field_six: int = 6\n        else:\n            field_seven: int = 7\n        finally:\n            field_eight: int = 8\n        match subject_value:\n            case 1:\n                field_nine: int = 9\n        if condition:\n            with other_context:\n                field_ten: int = 10\n    with context_value:\n        local_value: int = 1',
    'lambda_value = lambda first, /, second: first',
    'def positional(first, second, /, third, *, fourth): return first\nasync def coroutine(first, /): return None',
]

SUITES = {
    'module': '{S}\n',
    'def': 'def container_function(value):\n{I}\n',
    'async_def': 'async def container_function(value):\n{I}\n',
    'class': 'class ContainerClass:\n{I}\n',
    'if': 'if condition_value:\n{I}\n',
    'if_else': 'if condition_value:\n    first_call()\nelse:\n{I}\n',
    'elif': 'if condition_value:\n    first_call()\nelif other_condition:\n{I}\nelse:\n    last_call()\n',
    'for_else': 'for loop_item in iterable_value:\n{I}\nelse:\n{I}\n',
    'while_else': 'while condition_value:\n{I}\nelse:\n{I}\n',
    'try': 'try:\n{I}\nexcept SomeError:\n{I}\nelse:\n{I}\nfinally:\n{I}\n',
    'try_star': 'try:\n{I}\nexcept* SomeError:\n{I}\n',
    'with': 'with context_manager() as context_value:\n{I}\n',
    'match': 'match subject_value:\n    case 1:\n{II}\n    case _:\n{II}\n',
    'nested': 'def outer_function(value):\n    class InnerClass:\n        def method(self):\n            for loop_item in value:\n{IIII}\n',
    'method_only': 'class ContainerClass:\n    def method(self, value):\n{II}\n',
}


def _ind(text, n):
    return '\n'.join(' ' * n + l for l in text.split('\n'))


def template_programs():
    out = []
    for sk, tmpl in sorted(SUITES.items()):
        stmts = list(STATEMENTS)
        if sk in ('def', 'async_def', 'nested', 'method_only'):
            stmts = stmts + FUNCTION_STATEMENTS
        for i, st in enumerate(stmts):
            for variant in ('alone', 'with_other'):
                body = st if variant == 'alone' else 'first_statement()\n' + st + '\nlast_statement()'
                src = tmpl.format(S=body, I=_ind(body, 4), II=_ind(body, 8), IIII=_ind(body, 16))
                if sk == 'async_def' and 'yield' in src and 'return None' in src:
                    pass
                try:
                    compile(src, '<c05>', 'exec', dont_inherit=True)
                except (SyntaxError, ValueError):
                    continue
                guard = st.startswith(('pass\n', 'assert ', 'if __debug__')) and ('"' in st.split('\n', 1)[-1]) and '\n' in st
                if guard and variant != 'alone':
                    continue          # the string has to follow the removed statements at the very start of the block
                out.append((('doc-guard/%s/%d' % (sk, i)) if guard else '%s/%d/%s' % (sk, i, variant), src))
    for i, src in enumerate(ANNOTATED):
        out.append(('annotated/%d' % i, src + '\n'))
        out.append(('annotated_doc/%d' % i, '"""module docstring"""\n' + src + '\nprint(__doc__)\n'))
    # modules in which the minifier cannot know what a name means (the dynamic-name triggers of C09): no raise site is known to
    # refer to the builtin, the brackets stay
    raising = ('def raising_function(value):\n    if value:\n        raise ValueError()\n    try:\n        raise KeyError()\n'
               '    except KeyError:\n        raise RuntimeError() from TypeError()\n')
    for i, trig in enumerate(['exec("pass")', 'eval("1")', 'print(locals())', 'print(globals())', 'print(vars())', 'from os.path import *',
                              'import timeit', 'def uses_eval(text):\n    return eval(text)', 'class Holder:\n    namespace = vars()']):
        out.append(('doc-dynamic/%d' % i, trig + '\n' + raising))
        out.append(('doc-dynamic-after/%d' % i, raising + trig + '\n'))
    out.append(('docattr', '"""module docstring"""\ndef documented():\n    """function docstring"""\n    return documented.__doc__\n'))
    out.append(('docname', '"""module docstring"""\nprint(__doc__)\n"another literal"\n'))
    # __doc__ mentioned only as a target: an augmented assignment still reads it, the documentation speaks of *use*
    out.append(('doc-augassign', '"""module docstring"""\n__doc__ += " and more"\n"another literal"\n'))
    out.append(('doc-attr-augassign', 'def documented():\n    """function docstring"""\ndocumented.__doc__ += " and more"\nclass Documented:\n    """class docstring"""\nDocumented.__doc__ %= ()\n'))
    out.append(('doc-store', '"""module docstring"""\n"another literal"\n__doc__ = "replaced"\n'))
    out.append(('doc-del', '"""module docstring"""\n"another literal"\ndel __doc__\n'))
    out.append(('docplain', '"""module docstring"""\ndef documented():\n    """function docstring"""\nclass Documented:\n    """class docstring"""\n'))
    return out


def option_sets(ctx):
    sets = []
    off = dict((k, False) for k in ALL_SWITCHES)
    for k in ALL_SWITCHES:
        o = dict(off)
        o[k] = True
        sets.append(('only:' + k, o))
    for k in ALL_SWITCHES:
        o = dict(DEFAULTS)
        o[k] = not o[k]
        sets.append(('default-flip:' + k, o))
    sets.append(('defaults', dict(DEFAULTS)))
    sets.append(('all-on', dict((k, True) for k in ALL_SWITCHES)))
    if ctx.tier == 'thorough':
        for a, b in itertools.combinations(ALL_SWITCHES, 2):
            o = dict(off)
            o[a] = o[b] = True
            sets.append(('pair:%s+%s' % (a, b), o))
    for i in range(ctx.scale(6, 40)):
        sets.append(('random%d' % i, dict((k, ctx.rng.random() < 0.5) for k in ALL_SWITCHES)))
    return sets


def kwargs_of(o):
    from python_minifier import RemoveAnnotationsOptions
    kw = dict((k, o[k]) for k in BOOL_OPTS)
    kw['remove_annotations'] = RemoveAnnotationsOptions(**dict((k, o[k]) for k in ANN_OPTS))
    kw.update(hoist_literals=False, rename_locals=False, rename_globals=False, preserve_shebang=False)
    return kw


def run_minify(src, o):
    import python_minifier
    try:
        return python_minifier.minify(src, **kwargs_of(o)), None
    except RecursionError:
        return None, 'RecursionError'
    except Exception as e:
        return None, e.__class__.__name__


LIVE_EXC = set(n for n in dir(builtins) if isinstance(getattr(builtins, n), type) and issubclass(getattr(builtins, n), BaseException))
TAINT = {'exec', 'eval', 'locals', 'globals', 'vars'}


def unbound_names(tree):
    """(names never bound in any scope and never declared global/nonlocal, is the module tainted) per the scoping spec."""
    root, occs, _ = scopes.build(tree)
    bound = set()
    for s in scopes.all_scopes(root):
        bound |= s.bound | s.global_decl | s.nonlocal_decl
    used = set(o.name for o in occs if o.ctx == 'use')
    tainted = bool((used - bound) & TAINT) or any(isinstance(n, ast.ImportFrom) and any(a.name == '*' for a in n.names) for n in ast.walk(tree)) \
        or any(isinstance(n, (ast.Import, ast.ImportFrom)) and any(a.name.split('.')[0] == 'timeit' for a in n.names) for n in ast.walk(tree))
    return (used - bound), tainted


def raise_call_names(tree):
    out = set()
    for n in ast.walk(tree):
        if isinstance(n, ast.Raise):
            for e in (n.exc, n.cause):
                if isinstance(e, ast.Call) and isinstance(e.func, ast.Name) and not e.args and not e.keywords:
                    out.add(e.func.id)
    return out


def bracket_names(tree):
    """→ (names whose no-argument raise-calls all refer to the builtin, names with raise-calls of both kinds).
    A raise site refers to the builtin when the name resolves to the module level there and nothing binds it at module level
    (a binding of the same spelling in an unrelated scope — a comprehension, another function — does not matter)."""
    root, occs, _ = scopes.build(tree)
    by_node = dict((id(o.node), o) for o in occs if o.ctx == 'use')
    module_bound = scopes.module_bound_names(root)
    builtin_sites, other_sites = set(), set()
    for n in ast.walk(tree):
        if isinstance(n, ast.Raise):
            for e in (n.exc, n.cause):
                if isinstance(e, ast.Call) and isinstance(e.func, ast.Name) and not e.args and not e.keywords:
                    o = by_node.get(id(e.func))
                    if o is not None and scopes.resolve(o.scope, o.name) == ('global', ()) and o.name not in module_bound:
                        builtin_sites.add(e.func.id)
                    else:
                        other_sites.add(e.func.id)
    return builtin_sites - other_sites, builtin_sites & other_sites


def uses_doc(tree):
    return any((isinstance(n, ast.Attribute) and n.attr == '__doc__') or (isinstance(n, ast.Name) and n.id == '__doc__') for n in ast.walk(tree))


def transform_request(tree, o, eligible_unbound):
    bits = [o[k] for k in ANN_OPTS] + [o['remove_pass'], o['remove_literal_statements'], o['combine_imports'], o['remove_object_base'],
                                       o['convert_posargs_to_args'], o['remove_asserts'], o['remove_debug'], o['remove_explicit_return_none'],
                                       o['remove_builtin_exception_brackets'], o['constant_folding']]
    binop, neg = c07.build_oracle(tree) if o['constant_folding'] else ({}, {})
    return 'transform %s %s %s %s' % (sexp.lst(['1' if b else '0' for b in bits]), c07.enc_oracle(binop, neg),
                                      sexp.lst([sexp.enc_str(n) for n in sorted(eligible_unbound)]), pyast.enc_module(tree))


def canon_request(tree, o, brackets, keep_doc):
    bits = [o['remove_pass'], o['remove_asserts'], o['remove_debug'], o['remove_literal_statements'], keep_doc, o['combine_imports'],
            o['remove_object_base'], o['remove_explicit_return_none'], o['convert_posargs_to_args']] + [o[k] for k in ANN_OPTS]
    return 'canon %s %s %s' % (sexp.lst(['1' if b else '0' for b in bits]), sexp.lst([sexp.enc_str(n) for n in sorted(brackets)]),
                               pyast.enc_module(tree))


def docstrings(tree):
    """{path of def / class names (with an occurrence count per owner): docstring or None}, the module at ()"""
    res = {}

    def owner(node, path):
        res[path] = ast.get_docstring(node, clean=False)
        counts = {}

        def inside(n):
            for ch in ast.iter_child_nodes(n):
                if isinstance(ch, (ast.FunctionDef, ast.AsyncFunctionDef, ast.ClassDef)):
                    counts[ch.name] = counts.get(ch.name, 0) + 1
                    owner(ch, path + ((ch.name, counts[ch.name]),))
                elif not isinstance(ch, ast.Lambda):
                    inside(ch)
        inside(node)
    owner(tree, ())
    return res


def docstring_problems(tree, qtree, o):
    """no option documents giving a module, class or function a docstring, or changing one; remove_literal_statements alone may
    take one away"""
    before, after = docstrings(tree), docstrings(qtree)
    out = []
    for path in sorted(set(before) & set(after)):
        b, a = before[path], after[path]
        if a != b and not (a is None and o.get('remove_literal_statements')):
            out.append('%s: docstring %r became %r' % ('.'.join(n for n, _k in path) or '<module>', b, a))
    return out


def run_programs(ctx, progs, osets, found_by):
    from python_minifier.transforms.remove_exception_brackets import builtin_exceptions as impl_list
    t_reqs, t_meta, c_reqs, c_meta = [], [], [], []
    for ident, src in progs:
        try:
            tree = ast.parse(src)
        except (SyntaxError, ValueError):
            continue
        _, tainted = unbound_names(tree)
        unbound, mixed = bracket_names(tree)        # the names whose no-argument raise-calls refer to the builtin
        base_out, _ = run_minify(src, dict((k, False) for k in ALL_SWITCHES))
        for oname, o in osets:
            if ctx.time_left() < 25:
                break
            out, exc = run_minify(src, o)
            ctx.count()
            ctx.bump('outcome', exc or 'ok')
            if out is None:
                continue
            if out != base_out:
                ctx.mark_nontrivial(ident + '|' + oname)
            # (C) model correspondence
            ambiguous = o['remove_builtin_exception_brackets'] and any(n in impl_list for n in mixed)     # per-site in the code, per-name in the model
            has_fstring_arith = any(isinstance(n, ast.JoinedStr) and any(isinstance(m, ast.BinOp) for m in ast.walk(n)) for n in ast.walk(tree))
            # f-strings are opaque text in the model (and in the canon): a rewrite that reaches into an embedded expression is outside it
            has_fstring_posonly = any(isinstance(n, ast.JoinedStr) and any(isinstance(m, ast.Lambda) and m.args.posonlyargs for m in ast.walk(n)) for n in ast.walk(tree))
            opaque_fstring = o['convert_posargs_to_args'] and has_fstring_posonly
            if ambiguous or (o['constant_folding'] and has_fstring_arith) or opaque_fstring:
                ctx.bump('out_of_model', 'shadowed-exception-name' if ambiguous else ('fstring-posonly-lambda' if opaque_fstring else 'fstring-arithmetic'))
            else:
                try:
                    t_reqs.append(transform_request(tree, o, set() if tainted else (unbound & set(impl_list))))
                    t_meta.append((ident, oname, src, out))
                except pyast.OutOfModel as e:
                    ctx.bump('out_of_model', str(e))
            # (O) docstrings: what `__doc__` says is not any option's to change (but remove_literal_statements may remove it)
            try:
                dp = docstring_problems(tree, ast.parse(out), o)
            except SyntaxError:
                dp = []
            if dp:
                ctx.add_violation({'input': {'source': src, 'options': o}, 'what': 'docstrings differ: ' + '; '.join(dp[:3]), 'observed': out[:300],
                                   'found_by': found_by, 'oracle': 'docstrings', 'shapes': shapes_of(src, o)})
            # (O) documented-rewrite canon on the real output, folding judged elsewhere
            if not o['constant_folding'] and not opaque_fstring:
                try:
                    qtree = ast.parse(out)
                    brackets = set() if (tainted or not o['remove_builtin_exception_brackets']) else (unbound & LIVE_EXC)
                    keep = uses_doc(tree)
                    c_reqs.append(canon_request(tree, o, brackets, keep))
                    c_reqs.append(canon_request(qtree, o, brackets, keep))
                    c_meta.append((ident, oname, src, out, o))
                except pyast.OutOfModel as e:
                    ctx.bump('out_of_model', str(e))
                except SyntaxError:
                    ctx.add_violation({'input': {'source': src, 'options': o}, 'what': 'output does not parse', 'observed': out[:300],
                                       'found_by': found_by, 'oracle': 'canon', 'shapes': []})
    answers = ctx.driver.ask(t_reqs) if t_reqs else []
    diffs = 0
    for (ident, oname, src, out), ans in zip(t_meta, answers):
        model = sexp.dec_str(ans[3:]) if ans.startswith('ok ') else ans
        if model != out:
            diffs += 1
            ctx.add_broken('correspondence', 'transform:%s:%s' % (ident, oname), 'source=%r model=%r impl=%r' % (src[:300], model[:300], out[:300]))
    ctx.stage('transform:' + found_by, cases=len(t_meta), diffs=diffs)
    answers = ctx.driver.ask(c_reqs) if c_reqs else []
    for i, (ident, oname, src, out, o) in enumerate(c_meta):
        a, b = answers[2 * i], answers[2 * i + 1]
        if a != b:
            ca = sexp.dec_str(a[3:]) if a.startswith('ok ') else a
            cb = sexp.dec_str(b[3:]) if b.startswith('ok ') else b
            ctx.add_violation({'input': {'source': src, 'options': o}, 'what': 'output is not the input modulo the documented rewrites of the enabled options: canon(input)=%r canon(output)=%r' % (ca[:200], cb[:200]),
                               'observed': out[:300], 'found_by': found_by, 'oracle': 'canon', 'shapes': shapes_of(src, o)})
    ctx.stage('canon:' + found_by, cases=len(c_meta))
    if t_meta:
        ctx.sample({'stage': found_by, 'id': t_meta[-1][0], 'options': t_meta[-1][1], 'source': t_meta[-1][2][:200], 'output': t_meta[-1][3][:200]})


def _is_debug_test(t):
    def const(n, v):
        return isinstance(n, ast.Constant) and n.value is v
    if isinstance(t, ast.Name) and t.id == '__debug__':
        return True
    if isinstance(t, ast.Compare) and len(t.ops) == 1 and isinstance(t.left, ast.Name) and t.left.id == '__debug__':
        op, c = t.ops[0], t.comparators[0]
        return (isinstance(op, ast.Is) and const(c, True)) or (isinstance(op, ast.IsNot) and const(c, False)) or (isinstance(op, ast.Eq) and const(c, True))
    return False


def _scope_bound(fn, o):
    """names bound in the scope of function `fn` (not in nested scopes), with and without the statements remove_asserts /
    remove_debug take out.  The transformers filter the statement lists they are handed as *suites* (bodies of def / class / if /
    for / while / with / try and their else / finally parts); the bodies of `except` handlers and `case` blocks and every part
    of a `try … except*` statement are only visited statement by statement, so nothing is removed directly in them."""
    def walk(nodes, skipping, acc, filtered=True):
        for n in nodes:
            removed = skipping or (filtered and ((o.get('remove_asserts') and isinstance(n, ast.Assert)) or
                                                 (o.get('remove_debug') and isinstance(n, ast.If) and not n.orelse and _is_debug_test(n.test))))
            visit(n, removed, acc)

    def visit(n, removed, acc):
        def bind(name):
            acc[0].add(name)
            if not removed:
                acc[1].add(name)
        if isinstance(n, (ast.FunctionDef, ast.AsyncFunctionDef, ast.ClassDef)):
            bind(n.name)
            return                      # a nested scope
        if isinstance(n, ast.Lambda):
            return
        if isinstance(n, (ast.ListComp, ast.SetComp, ast.DictComp, ast.GeneratorExp)):
            for m in ast.walk(n):       # only assignment expressions leak out of a comprehension
                if isinstance(m, ast.NamedExpr):
                    bind(m.target.id)
            return
        if isinstance(n, ast.Name) and isinstance(n.ctx, (ast.Store, ast.Del)):
            bind(n.id)
        if isinstance(n, (ast.Import, ast.ImportFrom)):
            for a in n.names:
                bind((a.asname or a.name).split('.')[0])
        if isinstance(n, ast.ExceptHandler) and n.name:
            bind(n.name)
        if isinstance(n, (ast.MatchAs, ast.MatchStar)) and n.name:
            bind(n.name)
        if isinstance(n, ast.MatchMapping) and n.rest:
            bind(n.rest)
        if isinstance(n, (ast.Global, ast.Nonlocal)):
            return
        unfiltered = isinstance(n, (ast.ExceptHandler, ast.match_case)) or type(n).__name__ == 'TryStar'
        for field, value in ast.iter_fields(n):
            if isinstance(value, list) and value and all(isinstance(c, ast.stmt) for c in value):
                walk(value, removed, acc, filtered=not unfiltered)
            elif isinstance(value, list):
                for c in value:
                    if isinstance(c, ast.AST):
                        visit(c, removed, acc)
            elif isinstance(value, ast.AST):
                visit(value, removed, acc)
    acc = (set(), set())
    walk(fn.body, False, acc)
    return acc


def shapes_of(src, o):
    s = []
    try:
        tree = ast.parse(src)
    except Exception:
        return s
    if o.get('remove_asserts') or o.get('remove_debug'):
        for fn in ast.walk(tree):
            if isinstance(fn, (ast.FunctionDef, ast.AsyncFunctionDef)):
                before, after = _scope_bound(fn, o)
                if before != after:
                    s.append('removed-statement-binds-function-local')
    for n in ast.walk(tree):
        if isinstance(n, ast.If) and o.get('remove_debug'):
            t = n.test
            if isinstance(t, ast.Compare) and not (isinstance(t.left, ast.Name) and t.left.id == '__debug__'):
                s.append('debug-test-on-other-name')
            if n.orelse:
                s.append('debug-if-with-else')
    if o.get('remove_literal_statements') and any(isinstance(n, ast.Name) and n.id == '__doc__' for n in ast.walk(tree)):
        s.append('doc-used-as-name')
    return sorted(set(s))


DASH_O_PROGRAMS = [
    ('debug-block-holds-only-binding', "x = 5\ndef f():\n    if __debug__:\n        x = 1\n    print(x)\ntry:\n    f()\nexcept NameError as e:\n    print(type(e).__name__)\n"),
    ('assert-holds-only-binding', "y = 'global'\ndef f():\n    assert (y := 1)\n    return y\ntry:\n    print(f())\nexcept NameError as e:\n    print(type(e).__name__)\n"),
    ('debug-import-holds-only-binding', "import os\ndef f():\n    if __debug__ is True:\n        import os\n    return os.sep\ntry:\n    print(f())\nexcept NameError as e:\n    print(type(e).__name__)\n"),
    ('debug-block-binds-also-bound-elsewhere', "x = 5\ndef f(n):\n    x = n\n    if __debug__:\n        x = x + 1\n        print('debugging', x)\n    return x\nprint(f(1))\n"),
    ('debug-block-no-binding', "def f(n):\n    if __debug__:\n        print('checking', n)\n    if __debug__ is not False:\n        print('again')\n    if __debug__ == True:\n        print('third')\n    return n\nprint(f(2))\n"),
    ('assert-effects', "def note(v):\n    print('evaluated', v)\n    return v\ndef f(n):\n    assert note(n), note('message')\n    assert note(0) or True\n    return n\nprint(f(3))\n"),
    ('debug-other-comparands', "flag = None\ndef f():\n    if __debug__ is not None:\n        print('not none')\n    if __debug__ is not flag:\n        print('not flag')\n    if __debug__ == 0:\n        print('zero')\n    if __debug__ is not 1:\n        print('not one')\n    return 1\nprint(f())\n"),
    ('debug-else-kept', "def f():\n    if __debug__:\n        print('debug')\n    else:\n        print('optimized')\n    if not __debug__:\n        print('not debug')\n    return 1\nprint(f())\n"),
    ('debug-at-module-level', "if __debug__:\n    flag = 'debug'\n    print(flag)\ntry:\n    print(flag)\nexcept NameError:\n    print('unset')\n"),
    ('debug-in-class-and-loops', "class K:\n    if __debug__:\n        attr = 1\n    def m(self):\n        for i in range(2):\n            if __debug__:\n                print(i)\n            assert i < 5\n        else:\n            if __debug__:\n                print('done')\n        return getattr(self, 'attr', None)\nprint(K().m())\n"),
    ('only-statement-in-block', "def f(n):\n    if n:\n        assert n\n    else:\n        if __debug__:\n            print(n)\n    while n:\n        if __debug__: print('loop')\n        n -= 1\n    try:\n        assert False, 'boom'\n    except AssertionError:\n        print('caught')\n    finally:\n        if __debug__:\n            print('fin')\nf(2)\nf(0)\n"),
]


def dash_O_differential(ctx, progs, found_by):
    """remove_asserts / remove_debug are documented as safe when the output runs under `python -O`: original and minified are both
    executed with optimize=1 and must behave alike (stdout, ending, public namespace, import events)"""
    off = dict((k, False) for k in ALL_SWITCHES)
    osets = []
    for name, ks in (('asserts', ['remove_asserts']), ('debug', ['remove_debug']), ('asserts+debug', ['remove_asserts', 'remove_debug'])):
        o = dict(off)
        for k in ks:
            o[k] = True
        osets.append((name, o))
        d = dict(DEFAULTS)
        for k in ks:
            d[k] = True
        osets.append(('defaults+' + name, d))
    n = differ = 0
    sreqs, smeta = [], []
    for ident, src in progs:
        a = runobs.observe(src, optimize=1)
        if a['ending'] == 'timeout' or a['ending'].startswith('compile:'):
            continue
        for oname, o in osets:
            if ctx.time_left() < 25:
                break
            out, exc = run_minify(src, o)
            ctx.count()
            if out is None:
                continue
            n += 1
            b = runobs.observe(out, optimize=1)
            d = runobs.diff(a, b)
            if out != src:
                ctx.mark_nontrivial('dashO|' + ident + '|' + oname)
            if d:
                differ += 1
                ctx.add_violation({'input': {'source': src, 'options': o, 'run_with': '-O'},
                                   'what': 'under python -O the minified program behaves differently: ' + '; '.join(d),
                                   'observed': out[:400], 'found_by': found_by, 'oracle': 'differential-execution-under-O', 'shapes': shapes_of(src, o)})
        # the side condition of T01.10, evaluated by the Lean model on the programs it can read
        for kind in ('asserts', 'debug'):
            try:
                with pyast.unlimited():
                    sreqs.append('pycore.scopestable %s %s' % (sexp.enc_str(kind), pyast.enc_module(ast.parse(src))))
                smeta.append((ident, src, kind))
            except pyast.OutOfModel:
                pass
    answers = ctx.driver.ask(sreqs) if sreqs else []
    stable = 0
    for (ident, src, kind), ans in zip(smeta, answers):
        if not ans.startswith('ok '):
            ctx.add_broken('correspondence', 'pycore.scopestable:' + ident, 'driver answered %r' % ans[:100])
            continue
        answer = ans[3:].strip()
        ctx.bump('scopestable', answer)
        if answer == 'outside':
            continue                    # some function body is outside the core: calling it is stuck, the theorem says nothing
        model_says = answer == 'true'
        o = {'remove_asserts': kind == 'asserts', 'remove_debug': kind == 'debug'}
        spec_says = 'removed-statement-binds-function-local' not in shapes_of(src, o)
        stable += model_says
        if model_says != spec_says:
            ctx.add_broken('correspondence', 'pycore.scopestable:' + ident, 'the model says %s removal %s the local names of %r, the AST-level rule says the opposite' % (kind, 'keeps' if model_says else 'changes', src[:300]))
    ctx.stage('dash-O-differential:' + found_by, runs=n, differ=differ, scopestable_true=stable, scopestable_asked=len(smeta))


def run(ctx):
    progs = template_programs()
    ctx.exhaustive['statement_kinds_x_suite_kinds'] = len(progs)
    osets = option_sets(ctx)
    if ctx.tier == 'quick':
        ctx.rng.shuffle(progs)
        core = [p for p in progs if p[0].startswith(('annotated', 'doc'))]
        progs = core + [p for p in progs if p not in core][:260]
    run_programs(ctx, progs, osets, 'templates')
    rnd = []
    while len(rnd) < ctx.scale(60, 1500):
        r = gen.normalise(gen.gen_module(ctx.rng, 3))
        if r is not None:
            rnd.append(('rnd%d' % len(rnd), r[0]))
    run_programs(ctx, rnd, osets[:30] if ctx.tier == 'quick' else osets, 'random')
    for k in ctx.known:
        if k.get('replay_source'):
            run_programs(ctx, [(k['id'], k['replay_source'])], osets, 'known')
    dash_O_differential(ctx, DASH_O_PROGRAMS, 'directed')
    dash_O_differential(ctx, [('core%d' % i, rungen.core_program(ctx.rng)) for i in range(ctx.scale(40, 600))], 'generated-core')
    dash_O_differential(ctx, [('wide%d' % i, rungen.program(ctx.rng)) for i in range(ctx.scale(25, 400))], 'generated-wide')


def search(ctx):
    run_programs(ctx, template_programs(), option_sets(ctx), 'search')


def replay(ctx, data):
    inp = data.get('input') or {}
    if 'source' in inp and 'options' in inp:
        n0 = len(ctx.violations)
        if inp.get('run_with') == '-O':
            dash_O_differential(ctx, [('replay', inp['source'])], 'replay')
        else:
            run_programs(ctx, [('replay', inp['source'])], [('replay', inp['options'])], 'replay')
        return len(ctx.violations) > n0
    return bool(data.get('broken'))

"""C12 — Minifying never runs code taken from the input."""
import ast
import builtins
import io
import itertools
import sys
import tokenize
import warnings

import sexp

warnings.simplefilter('ignore')

META = {
    'rule': 'MiniString: all strings of length <= 3 over a 10-character adversarial alphabet x 4 quote styles (exhaustive) + random '
            'longer strings: the text reaching eval (captured by wrapping builtins.eval) equals the Lean model\'s, and tokenizes as one '
            'STRING; spec lexer validated against tokenize on random texts; whole-program runs under sys.addaudithook: every executed '
            'code object must be a closed literal (no names, no nested code), no import/open/subprocess/socket event. non-trivial = '
            'at least one eval happened / string needs an escape; distinct by input hash',
    'assumptions': ['CPython tokenizer and eval of a closed literal have no side effects',
                    'the audit hook sees every code object executed through eval/exec (CPython >= 3.8)'],
    'modelled_not_verified': ['f_string.Str / f_string.Bytes literal splitting: not modelled in Lean; tied only by the audit/tokenize oracle on the real code',
                              'MiniBytes is unused by the pipeline (inventory only)'],
}

ALPHABET = ["'", '"', '\\', '\n', '\r', '\0', 'a', '{', 'é', '\ud800']
EXTRA_CHARS = ['}', '\t', '\x0b', '\x0c', '\x07', '\x08', '\x1b', '\x7f', '\x85', '\u2028', '\U0001f600', 'n', 'x', 'u', 'N', '0', ' ', '#', ';', '(', ')']
QUOTES = ["'", '"', "'''", '"""']


class EvalSpy(object):
    """Wrap builtins.eval to record the source strings (the implementation calls eval as a builtin)."""

    def __enter__(self):
        self.calls = []
        self.orig = builtins.eval
        spy = self

        def wrapped(src, *a, **k):
            spy.calls.append(src)
            return spy.orig(src, *a, **k)
        builtins.eval = wrapped
        return self

    def __exit__(self, *a):
        builtins.eval = self.orig


def tokens_of(text):
    try:
        return [(t.type, t.string) for t in tokenize.generate_tokens(io.StringIO(text).readline)]
    except (tokenize.TokenError, SyntaxError, IndentationError, UnicodeEncodeError, ValueError):
        return None


def is_one_string_token(text):
    toks = tokens_of(text)
    if toks is None:
        return False
    core = [t for t in toks if t[0] not in (tokenize.NEWLINE, tokenize.NL, tokenize.ENDMARKER)]
    return len(core) == 1 and core[0][0] == tokenize.STRING and core[0][1] == text


def closed_tokens_only(text, allow_strings):
    """True iff the text tokenizes to numbers / True False None / operators (and string literals if allowed)."""
    try:
        text.encode('utf-8')
    except UnicodeEncodeError:
        return True          # cannot even be compiled: eval raises before running anything
    toks = tokens_of(text)
    if toks is None:
        return True          # does not tokenize: eval raises SyntaxError, nothing runs
    for ty, s in toks:
        if ty in (tokenize.NEWLINE, tokenize.NL, tokenize.ENDMARKER, tokenize.NUMBER, tokenize.OP, tokenize.INDENT, tokenize.DEDENT, tokenize.COMMENT):
            if ty == tokenize.OP and s not in '+-*/%@&|^~<>()' and s not in ('**', '//', '<<', '>>'):
                return False
            continue
        if ty == tokenize.NAME and s in ('True', 'False', 'None'):
            continue
        if ty == tokenize.STRING and allow_strings and not s.lower().startswith(('f', 'rf', 'fr')):
            continue
        return False
    return True


def ministring_stage(ctx, strings):
    from python_minifier.ministring import MiniString
    reqs, meta = [], []
    for s in strings:
        for quote in QUOTES:
            if s == '':
                continue
            with EvalSpy() as spy:
                try:
                    out = str(MiniString(s, quote))
                    exc = None
                except Exception as e:
                    out, exc = None, e.__class__.__name__
            ctx.count()
            for c in s:
                ctx.bump('ministring_chars', 'U+%04X' % ord(c) if not c.isalnum() else 'alnum')
            for txt in spy.calls:
                if not closed_tokens_only(txt, allow_strings=True) or (tokens_of(txt) is not None and not is_one_string_token(txt)):
                    ctx.add_violation({'input': {'string': [ord(c) for c in s], 'quote': quote},
                                       'what': 'MiniString evaluates %r which is not a single string literal' % txt[:120],
                                       'found_by': 'ministring', 'oracle': 'ministring'})
            if exc is not None:
                ctx.bump('ministring_outcome', exc)
            final = spy.calls[-1] if spy.calls else None
            reqs.append('ministring %d %d %s' % (ord(quote[0]), len(quote), sexp.enc_cps([ord(c) for c in s])))
            meta.append((s, quote, final))
            ctx.mark_nontrivial(repr((s, quote)))
    answers = ctx.driver.ask(reqs) if reqs else []
    diffs = 0
    for (s, quote, final), ans in zip(meta, answers):
        if not ans.startswith('ok '):
            ctx.add_broken('correspondence', 'ministring', ans)
            continue
        txt_atom, one = ans[3:].split(' ')
        model = ''.join(chr(c) for c in sexp.dec_cps(txt_atom))
        if final is not None and model != final:
            diffs += 1
            ctx.add_broken('correspondence', 'ministring:%r:%s' % (s[:20], quote), 'model=%r impl=%r' % (model, final))
        if one != '1':
            ctx.add_broken('theorem', 'model evalText is not one literal (contradicts T12.1)', repr((s, quote)))
    if meta:
        ctx.sample({'stage': 'ministring', 'string': [ord(c) for c in meta[-1][0]], 'quote': meta[-1][1], 'eval_text': meta[-1][2]})
    ctx.stage('ministring', cases=len(meta), diffs=diffs)


def strlex_validation(ctx, n):
    """(D) the spec lexer vs tokenize on random texts that start with a quote."""
    rng = ctx.rng
    reqs, expect = [], []
    pool = ["'", '"', '\\', '\n', 'a', ' ', 'b', "'", '"', '\\', '#', '\r', 'é']
    for _ in range(n):
        q = rng.choice(["'", '"'])
        ql = rng.choice([1, 1, 3])
        body = ''.join(rng.choice(pool) for _ in range(rng.randint(0, 8)))
        text = q * ql + body + (q * ql if rng.random() < 0.7 else '')
        if '\r' in text:
            continue       # tokenize normalises CR handling by readline; covered by the model theorem instead
        reqs.append('strlex %d %d %s' % (ord(q), ql, sexp.enc_cps([ord(c) for c in text])))
        expect.append((text, is_one_string_token(text)))
    answers = ctx.driver.ask(reqs)
    bad = 0
    for (text, e), a in zip(expect, answers):
        ctx.count()
        if a != ('ok 1' if e else 'ok 0'):
            # the spec may be *stricter* than the tokenizer only in one direction that matters: spec says one literal => tokenizer agrees
            if a == 'ok 1' and not e:
                bad += 1
                ctx.add_broken('spec', 'StrLex accepts a text that tokenize does not read as one literal', repr(text))
            else:
                ctx.bump('strlex', 'spec-stricter')
    ctx.stage('strlex_validation', cases=len(reqs), unsound=bad)


# ---------------------------------------------------------------------------------- audit hook oracle

_AUDIT = {'on': False, 'events': []}
_HOOKED = [False]


def _hook(event, args):
    if not _AUDIT['on']:
        return
    if event == 'exec':
        _AUDIT['events'].append(('exec', args[0]))
    elif event in ('import', 'open', 'os.system', 'subprocess.Popen', 'socket.connect', 'socket.bind', 'os.exec', 'os.spawn',
                   'os.posix_spawn', 'ctypes.dlopen', 'urllib.Request', 'os.remove', 'os.rename', 'shutil.rmtree', 'os.mkdir'):
        _AUDIT['events'].append((event, repr(args)[:200]))


def audited_minify(src, **opts):
    import python_minifier
    if not _HOOKED[0]:
        sys.addaudithook(_hook)
        _HOOKED[0] = True
    _AUDIT['events'] = []
    _AUDIT['on'] = True
    try:
        try:
            python_minifier.minify(src, **opts)
            outcome = 'ok'
        except RecursionError:
            outcome = 'RecursionError'
        except Exception as e:
            outcome = e.__class__.__name__
    finally:
        _AUDIT['on'] = False
    return outcome, list(_AUDIT['events'])


def code_is_closed_literal(code):
    if code.co_names or code.co_varnames or code.co_freevars or code.co_cellvars:
        return False
    for c in code.co_consts:
        if not (c is None or isinstance(c, (bool, int, float, complex, str, bytes))):
            return False
    return True


ADVERSARIAL_SOURCES = [
    "x = f'{a}__import__(\"os\").system(\"echo pwned\")'",
    "x = f'\\'+__import__(\"os\").system(\"id\")+\\'{a}'",
    "x = f\"{a}'''+__import__('os').system('id')+'''\"",
    "x = f'{a}\\\\'",
    "x = f'{a}\\n\\r\\0\\\\n'",
    "x = f'{a}\\'\\'\\'' + 'b'",
    "x = f\"{a}\\\"\\\"\\\"__import__('os')\\\"\\\"\\\"\"",
    "x = f'{\"__import__(\\'os\\')\"}'",
    "x = f'{\"\\\"+__import__(chr(111)+chr(115))+\\\"\"!r}'",
    "x = f'{b\"\\\\x27+__import__\"}'" if False else "x = f'{b\"abc\"}'",
    "x = f'{\"a\\'b\\\"c\"}'",
    "x = f'{\"\\n\"}{a}'",
    "x = f'{a:{\"__import__\"}}'",
    "x = f'{a!r:>{w}}' 'tail\\''",
    "x = f'{{}}{a}}}{{'",
    "x = f'{a}\\N{BULLET}'",
    "x = f'{a}\\ud800'",
    "x = 1 + 2 * 3 - 4",
    "x = (1).__class__.__base__ + 1",
    "x = 10 ** 10 + __import__('os').getpid()",
    "x = 1 + True + None",
    "x = 1e308 * 10 + 1j",
    "import os\nx = f'{os.getcwd()}' + f'{1 + 1}'",
    "def f():\n return f'{f\"{1 + 2}\"}'",
    "x = f'{lambda: __import__(\"os\")}'" if False else "x = f'{(lambda: a)()}'",
    "x = b'\\'+__import__' + b\"x\"",
    "'''doc'''\nx = 'it''s'\ny = '\\'; import os; \\''",
]


def arithmetic_sources(ctx, n_random):
    """arithmetic whose leaves are NOT all literals: every unary operator over every binary operator (and the other nestings)
    with leaves drawn from literals, names, attribute access, subscripts and calls that would import a module or open a file
    if they were ever evaluated; in several syntactic contexts.  Nothing here may reach eval()."""
    unary = ['-', '+', '~', 'not ']
    binary = ['+', '-', '*', '/', '//', '%', '**', '<<', '>>', '&', '|', '^', '@']
    danger = ["__import__('colorsys').ONE_THIRD", "open('/nonexistent_pmv_dir/marker', 'w').write('x')", 'some_name', 'obj.attr', 'seq[0]', 'func(1)', "len('ab')", 'int']
    lits = ['1', '2.5', '3j', 'True', '10']
    out = []
    for u in unary:
        for b in binary:
            for (x, y) in [(danger[0], '1'), ('2', danger[1]), ('some_name', 'other_name'), ('1', '2'), ('obj.attr', '2.5'), ('func(1)', 'seq[0]')]:
                out.append('r = %s(%s %s %s)' % (u, x, b, y))
                out.append('r = (%s%s) %s %s' % (u, x, b, y))
                out.append('r = %s %s (%s%s)' % (x, b, u, y))
            out.append('r = %s%s(%s %s 2)' % (u, u, danger[0], b))
            out.append('r = %s(1 %s 2) %s %s' % (u, b, b, danger[1]))
    ctxs = ['r = {E}', 'def f(a={E}):\n    return a', '@deco({E})\ndef f():\n    pass', "r = f'{{{E}}}'", 'r = seq[{E}]', 'r = [{E} for i in range(3)]', 'lambda: {E}',
            'class K({E}):\n    pass', 'assert {E}', 'with {E} as w:\n    pass', 'r = {E} if {E} else 0']
    for _ in range(n_random):
        def gen(d):
            c = ctx.rng.random()
            if d <= 0 or c < 0.25:
                return ctx.rng.choice(danger + lits + lits)
            if c < 0.5:
                return '%s(%s)' % (ctx.rng.choice(unary), gen(d - 1))
            return '(%s %s %s)' % (gen(d - 1), ctx.rng.choice(binary), gen(d - 1))
        e = gen(ctx.rng.randint(1, 4))
        out.append(ctx.rng.choice(ctxs).replace('{E}', e))
    return out


def curly_field_sources():
    """replacement fields whose expression text starts with a brace (a set / dict display or comprehension at the leftmost
    position of every kind of expression): `{{` would be read as an escaped brace"""
    displays = ['{}', '{1, 2}', '{1: 2}', '{x for x in y}', '{k: v for k, v in z}', '{*a}', '{**a}']
    wrappers = ['{D}', '{D} or f', '{D} and f and g', '{D}.keys()', '{D}[0]', '{D}(1)', '{D} == f', '{D} < f <= g', '{D} | f', '{D} - f * 2',
                '{D} if c else d', '{D}, 1', '{D}.a.b[0](1) or f', '({D})', '{D} is None', '{D} in f', '[{D}]', 'f or {D}', 'lambda: {D}', 'await_({D})']
    out = []
    for dsp in displays:
        for w in wrappers:
            e = w.replace('{D}', dsp)
            for tmpl in ('x = f"{%s}"', 'x = f"a{%s!r}b"', 'x = f"{%s:>10}"', 'x = f"{a:{%s}}"', "x = f'{f\"{%s}\"}'"):
                src = tmpl % ((' ' + e + ' ') if e.startswith('{') or e.endswith('}') else e)
                try:
                    compile(src, '<c12>', 'exec', dont_inherit=True)
                    out.append(src)
                except (SyntaxError, ValueError):
                    pass
    return out


def escape_merge_sources():
    """f-strings whose literal text (also in a format spec and in a nested f-string) holds a character that is written as an
    escape, directly followed by a character that could extend that escape (`\\0` + octal digit, `\\x0` + hex digit, ...) or end the literal"""
    escaped = ['\0', '\x01', '\x07', '\x08', '\x0b', '\x0c', '\x1b', '\x7f', '\t', '\n', '\r', '\\', '\x85', '\u2028']
    followers = ['0', '1', '7', '8', '9', 'a', 'f', 'x', 'N', 'u', 'U', '{{', '}}', '"', "'", '\\', '']
    out = []
    for e in escaped:
        for f in followers:
            text = e + f
            for build in (lambda t: 'x = 1\ny = f%r\n' % ('id' + t.replace('{{', '{{').replace('}}', '}}') + '{x}'),
                          lambda t: 'x = 1\ny = f%r\n' % ('{x}' + t + 'tail'),
                          lambda t: 'x = 1\ny = f%r\n' % ('{x:' + t.replace('{{', '').replace('}}', '') + '}'),
                          lambda t: 'x = 1\ny = f"{f%r}"\n' % (t + '{x}')):
                try:
                    src = build(text)
                    compile(src, '<c12>', 'exec', dont_inherit=True)
                    out.append(src)
                except (SyntaxError, ValueError):
                    pass
    return sorted(set(out))


def plain_literal_attacks():
    """ordinary (non f-string) str and bytes constants, short and with many line breaks / tabs / quotes (what a "use a long literal
    here" optimisation would key on), whose text closes every kind of quote and continues with an expression"""
    call = '__import__("os").system("true")'
    payloads = ['"""+' + call + '+"""', "'''+" + call.replace('"', "'") + "+'''", '"+' + call + '+"', "'+" + call.replace('"', "'") + "+'",
                '\\"""+' + call + '+"""', '\\', '"""', "'''", 'b"""+' + call + '+b"""']
    fillers = ['', '\n' * 5, '\n' * 12, '\t' * 6 + '\n' * 6, '\r\n' * 6, '"' * 7, "'" * 7]
    out = []
    for pay in payloads:
        for fill in fillers:
            for prefix in ('', 'b'):
                for text in (fill + pay, pay + fill, fill + pay + fill):
                    value = text.encode('latin-1') if prefix == 'b' else text
                    src = 'x = %r\ny = [%r, 1]\n' % (value, value)
                    try:
                        compile(src, '<c12>', 'exec', dont_inherit=True)
                        out.append(src)
                    except (SyntaxError, ValueError):
                        pass
    return sorted(set(out))


def nested_string_attacks():
    """string and bytes constants *inside a replacement field* whose value tries to close whatever literal the printer may
    choose (plain, raw, bytes; either quote; triple quotes) and continue as code: backslash runs before a quote, doubled and
    tripled quotes, a trailing comment marker that hides the real closing quote"""
    payload = '+str(__import__(chr(111)+chr(115)).getpid())#'
    vals = []
    for q in ("'", '"', "'''", '"""', "''", '""', "''''", '""""'):
        for pre in ('', '\\', '\\\\', '\\\\\\', 'x\\', 'r', 'rb', 'b', ' '):
            vals.append(pre + q + payload)
            vals.append(pre + q + payload + q)
    out = []
    wraps = ('x = f"{%s}"', "x = f'{a.count(%s)}'", 'x = f"{%s!r:>{w}}"', "x = f'{b}{%s}{c}'", 'x = f"{[%s][0]}"')
    # the same values after runs of line breaks / tabs: where a long-quoted literal with real line breaks would be the shorter spelling
    broken = [(lead + v, wraps[:2]) for lead in ('\n\n', '\n\r\n\n\n\n', '\t\n\t\n\t') for v in vals]
    for v, ws in [(v, wraps) for v in vals] + broken:
        for wrap in ws:
            for lit in (repr(v), repr(v.encode('latin-1'))):
                src = wrap % lit
                try:
                    compile(src, '<c12>', 'exec', dont_inherit=True)
                    out.append(src)
                except (SyntaxError, ValueError):
                    pass
    return out


def audit_stage(ctx, sources):
    # warm up lazy imports
    audited_minify("x = f'{a!r:>{w}}{b\"b\"}{\"s\"}' + f'{1 + 2}'")
    audited_minify("x = f'{a}' + 'b'")
    for src in sources:
        try:
            compile(src, '<c12>', 'exec', dont_inherit=True)
        except (SyntaxError, ValueError):
            ctx.bump('audit', 'rejected')
            continue
        outcome, events = audited_minify(src)
        ctx.count()
        ctx.bump('audit_outcome', outcome)
        n_exec = 0
        for ev in events:
            if ev[0] == 'exec':
                n_exec += 1
                code = ev[1]
                if not code_is_closed_literal(code):
                    ctx.add_violation({'input': {'source': src}, 'what': 'a code object with names %r / consts %r was executed during minify' % (
                        code.co_names, [type(c).__name__ for c in code.co_consts]), 'found_by': 'audit', 'oracle': 'audit'})
            else:
                ctx.add_violation({'input': {'source': src}, 'what': 'audit event %s %s during minify' % ev, 'found_by': 'audit', 'oracle': 'audit'})
        if n_exec:
            ctx.mark_nontrivial('audit:' + src)
        ctx.bump('audit_exec_events', str(min(n_exec, 10)))
    ctx.sample({'stage': 'audit', 'source': sources[0]})


def fstring_sources(ctx, n):
    rng = ctx.rng
    out = []
    chars = ALPHABET[:-1] + EXTRA_CHARS + ['__import__("os")', "';import os;'", '"""', "'''", '\\N{BULLET}',
                                           "\\'+", '\\"+', '+str(__import__(chr(111)+chr(115)).getpid())#', '+', "r'", 'rb"', "\\'''+", "''''+"]
    for _ in range(n):
        parts = []
        for _ in range(rng.randint(1, 4)):
            k = rng.random()
            lit = ''.join(rng.choice(chars) for _ in range(rng.randint(0, 5)))
            if k < 0.4:
                parts.append(ast.Constant(value=lit))
            elif k < 0.65:
                parts.append(ast.FormattedValue(value=ast.Constant(value=lit), conversion=-1, format_spec=None))
            elif k < 0.72:
                try:
                    parts.append(ast.FormattedValue(value=ast.Constant(value=lit.encode('latin-1', 'replace')), conversion=-1, format_spec=None))
                except Exception:
                    pass
            elif k < 0.8:
                parts.append(ast.FormattedValue(value=ast.Name(id='a', ctx=ast.Load()), conversion=rng.choice([-1, 114]),
                                                format_spec=ast.JoinedStr(values=[ast.Constant(value=lit.replace('\\', '').replace('\n', ''))])))
            elif k < 0.9:
                # a format spec whose literal text contains backslashes, control characters, NUL
                spec = ''.join(rng.choice(['\\', 'n', 't', '\n', '\t', '\0', '>', '5', 'x', "'", '"', 'é', '\r', '{{', '}}']) for _ in range(rng.randint(1, 4)))
                parts.append(ast.FormattedValue(value=ast.Name(id='a', ctx=ast.Load()), conversion=-1,
                                                format_spec=ast.JoinedStr(values=[ast.Constant(value=spec)])))
            else:
                # a nested f-string (and nested plain strings with surrogates) inside a replacement field
                inner_lit = ''.join(rng.choice(ALPHABET + ['\\b', '\\', 'b']) for _ in range(rng.randint(1, 4)))
                inner = ast.JoinedStr(values=[ast.Constant(value=inner_lit), ast.FormattedValue(value=ast.Name(id='a', ctx=ast.Load()), conversion=-1, format_spec=None)])
                parts.append(ast.FormattedValue(value=rng.choice([inner, ast.Constant(value=inner_lit)]), conversion=-1, format_spec=None))
        tree = ast.Module(body=[ast.Assign(targets=[ast.Name(id='x', ctx=ast.Store())], value=ast.JoinedStr(values=parts), lineno=1)], type_ignores=[])
        try:
            ast.fix_missing_locations(tree)
            src = ast.unparse(tree)
            compile(src, '<c12>', 'exec', dont_inherit=True)
            out.append(src)
        except Exception:
            ctx.bump('audit', 'generator-rejected')
    return out


def strings_only(text):
    """the text tokenizes to (byte / plain) string literals and nothing else — or does not tokenize at all"""
    toks = tokens_of(text)
    if toks is None:
        return True
    return all(ty in (tokenize.NEWLINE, tokenize.NL, tokenize.ENDMARKER) or (ty == tokenize.STRING and not s.lower().lstrip('rbu').startswith('f'))
               for ty, s in toks)


def fstring_literal_stage(ctx, max_len, sample):
    """f_string.Str / Bytes on every short string over an adversarial alphabet x every ordered choice of allowed quotes x both
    grammars: whatever they hand to eval must be string literals only (the spy classifies the text first and never evaluates anything else)"""
    import python_minifier.f_string as F
    alphabet = ["'", '"', 'a', '+', '\n', '\\', ' ', '(', '\r']
    orders = [list(p) for k in (1, 2, 3, 4) for p in itertools.permutations(QUOTES, k)]
    values = [''.join(t) for n in range(1, max_len + 1) for t in itertools.product(alphabet, repeat=n)]
    if sample is not None and len(values) > sample:
        values = values[:len(alphabet) ** 2 + len(alphabet)] + ctx.rng.sample(values[len(alphabet) ** 2 + len(alphabet):], sample)
    else:
        ctx.exhaustive['fstring_nested_literals_len_le_%d_x_64_quote_orders_x_2' % max_len] = len(values) * len(orders) * 2
    bad = []
    orig = builtins.eval
    texts = [0]

    def guarded(text, *a, **k):
        texts[0] += 1
        if not isinstance(text, str) or not strings_only(text):
            bad.append(text)
            raise SyntaxError('pmv: not evaluated')
        return orig(text, *a, **k)
    builtins.eval = guarded
    try:
        for v in values:
            if ctx.time_left() < 20:
                ctx.notes.append('fstring literal stage stopped by budget')
                break
            for allowed in orders:
                for pep in (True, False):
                    for cls, val in ((F.Str, v), (F.Bytes, v.encode('latin-1'))):
                        n0 = len(bad)
                        try:
                            str(cls(val, list(allowed), pep))
                        except Exception:
                            pass
                        ctx.count()
                        if len(bad) > n0:
                            ctx.add_violation({'input': {'value': [ord(c) for c in v], 'allowed_quotes': allowed, 'pep701': pep, 'class': cls.__name__},
                                               'what': '%s hands %r to eval, which is not only string literals' % (cls.__name__, bad[-1][:120]),
                                               'found_by': 'fstring-literals', 'oracle': 'fstring-literals'})
            ctx.mark_nontrivial('fsl:' + v)
    finally:
        builtins.eval = orig
    ctx.stage('fstring-literals', values=len(values), quote_orders=len(orders), eval_texts=texts[0], not_literal=len(bad))


def run(ctx):
    fstring_literal_stage(ctx, ctx.scale(3, 5), ctx.scale(150, None))
    strings = [''.join(t) for n in (1, 2, 3) for t in itertools.product(ALPHABET, repeat=n)]
    if ctx.tier == 'quick':
        strings = strings[:110] + ctx.rng.sample(strings[110:], 250)
    else:
        ctx.exhaustive['ministring_len_le_3_x_4_quotes'] = len(strings) * 4
    for _ in range(ctx.scale(150, 3000)):
        strings.append(''.join(ctx.rng.choice(ALPHABET + EXTRA_CHARS) for _ in range(ctx.rng.randint(1, 40))))
    ministring_stage(ctx, strings)
    strlex_validation(ctx, ctx.scale(500, 8000))
    attacks = nested_string_attacks()
    ctx.exhaustive['nested_string_attacks'] = len(attacks)
    plain = plain_literal_attacks()
    ctx.exhaustive['plain_literal_attacks'] = len(plain)
    srcs = list(ADVERSARIAL_SOURCES) + attacks + plain + fstring_sources(ctx, ctx.scale(150, 3000)) + arithmetic_sources(ctx, ctx.scale(150, 3000))
    audit_stage(ctx, srcs)
    for k in ctx.known:
        if k.get('replay_source'):
            audit_stage(ctx, [k['replay_source']])


def search(ctx):
    try:
        ctx.notes.append('escape table twin: ' + ctx.driver.ask(['esc.violations'])[0])
    except Exception as e:
        ctx.notes.append('twin unavailable %r' % e)
    strings = [''.join(t) for n in (1, 2, 3, 4) for t in itertools.product(ALPHABET[:8], repeat=n)]
    ministring_stage(ctx, strings[:6000])
    if not ctx.violations:
        audit_stage(ctx, fstring_sources(ctx, 4000))


def replay_fstring_literal(data):
    import python_minifier.f_string as F
    i = data['input']
    v = ''.join(chr(c) for c in i['value'])
    bad = []
    orig = builtins.eval

    def guarded(text, *a, **k):
        if not isinstance(text, str) or not strings_only(text):
            bad.append(text)
            raise SyntaxError('pmv: not evaluated')
        return orig(text, *a, **k)
    builtins.eval = guarded
    try:
        try:
            str((F.Str if i['class'] == 'Str' else F.Bytes)(v if i['class'] == 'Str' else v.encode('latin-1'), list(i['allowed_quotes']), i['pep701']))
        except Exception:
            pass
    finally:
        builtins.eval = orig
    return bool(bad)


def replay(ctx, data):
    if data.get('oracle') == 'fstring-literals':
        return replay_fstring_literal(data)
    inp = data.get('input') or {}
    n0 = len(ctx.violations)
    if 'string' in inp:
        ministring_stage(ctx, [''.join(chr(c) for c in inp['string'])])
    elif 'source' in inp:
        audit_stage(ctx, [inp['source']])
    else:
        return bool(data.get('broken'))
    return len(ctx.violations) > n0

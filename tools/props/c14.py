"""C14 — The command line tool never emits more bytes than it was given."""
import os

import clirun
from props import cli_common as cc

META = {
    'rule': 'main-loop scenarios (random trees x 5 output modes x fake minify results at |src|-k, |src|, |src|+k, non-ASCII, failure, '
            'override on/off) + real CLI runs on sources where char and byte lengths differ, empty and cookie-encoded input. '
            'non-trivial = some byte written or file changed; distinct by input hash',
    'assumptions': ['byte length of the source is what open(path,"rb").read() / stdin.buffer.read() returns'],
    'modelled_not_verified': ['the minified text is an abstract input of the size-rule model (any bytes)'],
}

REAL_SOURCES = [
    b'', b'\n', b'x=1', b'x=1\n', b'a=1;b=2\n', 'é="é"\n'.encode('utf-8'),
    b'# -*- coding: latin-1 -*-\ns = "\xe9\xe9\xe9\xe9"\n',
    b'\xef\xbb\xbfx = 1\n',
    b'def f(x):return x\n',
    b'if 1:\n    pass\n',
    b'import os\nimport sys\nprint(os, sys)\n',
    b'x="\\u00e9"\n', b'x="\\xe9\\xe9\\xe9\\xe9\\xe9"\n',
    b'#!/bin/sh\n', b'0\n', b'0', b'a\n', b'(1)\n', b'x = (\n  1,\n  2,\n)\n',
]


def real_runs(ctx):
    modes = ['stdout', 'stdin', 'output', 'inplace', 'stdin-output']
    flagsets = [(), ('--no-rename-locals', '--no-hoist-literals'), ('--remove-literal-statements',), ('--rename-globals',)]
    for src in REAL_SOURCES:
        for mode in modes:
            for flags in flagsets[:ctx.scale(2, 4)]:
                if ctx.time_left() < 15:
                    return
                with cc.Scratch() as d:
                    with open(os.path.join(d, 'm.py'), 'wb') as f:
                        f.write(src)
                    if mode == 'stdout':
                        r = clirun.run_cli(list(flags) + ['m.py'], d)
                        got = r['stdout']
                    elif mode == 'stdin':
                        r = clirun.run_cli(['-'] + list(flags), d, stdin=src)
                        got = r['stdout']
                    elif mode == 'stdin-output':
                        r = clirun.run_cli(['-', '-o', 'o.py'] + list(flags), d, stdin=src)
                        got = clirun.snapshot(d).get('o.py', b'')
                    elif mode == 'output':
                        r = clirun.run_cli(['m.py', '--output', 'o.py'] + list(flags), d)
                        got = clirun.snapshot(d).get('o.py', b'')
                    else:
                        r = clirun.run_cli(['--in-place', 'm.py'] + list(flags), d)
                        got = clirun.snapshot(d).get('m.py')
                ctx.count()
                ctx.bump('real_mode', mode)
                ctx.bump('real_exit', str(r['exit']))
                if got:
                    ctx.mark_nontrivial(repr((src, mode, flags)))
                if got is not None and len(got) > len(src):
                    ctx.add_violation({'input': {'source': src.decode('latin-1'), 'mode': mode, 'flags': list(flags)},
                                       'what': 'emitted %d bytes for a %d byte source' % (len(got), len(src)),
                                       'observed': repr(got)[:300], 'found_by': 'enumeration', 'oracle': 'real'})
    ctx.exhaustive['real_sources_x_modes'] = len(REAL_SOURCES) * len(modes)


def run(ctx):
    d = cc.run_correspondence(ctx, ctx.scale(300, 4000))
    ctx.stage('correspondence', run_diffs=d)
    real_runs(ctx)


def search(ctx):
    cc.run_correspondence(ctx, 1500)
    real_runs(ctx)


def replay(ctx, data):
    inp = data.get('input') or {}
    if data.get('oracle') == 'real':
        src = inp['source'].encode('latin-1')
        n0 = len(ctx.violations)
        global REAL_SOURCES
        keep = REAL_SOURCES
        REAL_SOURCES = [src]
        try:
            ctx.tier = 'thorough'
            real_runs(ctx)
        finally:
            REAL_SOURCES = keep
        return len(ctx.violations) > n0
    if data.get('oracle') == 'scenario':
        sc = {'files': dict((k, v.encode('latin-1')) for k, v in inp['files'].items()), 'args': inp['args'],
              'stdin': inp['stdin'].encode('latin-1'), 'force': inp['force'],
              'api': dict((k.encode('latin-1'), v) for k, v in inp['api'].items()), 'mode': 'replay'}
        sc['mode'] = 'stdin' if sc['args'][:1] == ['-'] and '-o' not in sc['args'] and '--output' not in sc['args'] else 'replay'
        r, post, _w, _d = cc.run_scenario_impl(sc)
        return any(p == 'C14' for p, _ in cc.check_scenario_oracles(ctx, sc, r, post))
    return bool(data.get('broken'))

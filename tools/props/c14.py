"""C14 — The command line tool never emits more bytes than it was given."""
import os
import warnings

import clirun
from props import cli_common as cc

warnings.simplefilter('ignore')

META = {
    'rule': 'main-loop scenarios (random trees x 5 output modes x fake minify results at |src|-k, |src|, |src|+k, non-ASCII, failure, '
            'override on/off) + real CLI runs on sources where char and byte lengths differ, empty and cookie-encoded input. '
            'non-trivial = some byte written or file changed; distinct by input hash',
    'assumptions': ['byte length of the source is what open(path,"rb").read() / stdin.buffer.read() returns'],
    'modelled_not_verified': ['the minified text is an abstract input of the size-rule model (any bytes)'],
}

REAL_SOURCES = [
    b'', b'\n', b'x=1', b'x=1\n', b'a=1;b=2\n', 'é="é"\n'.encode('utf-8'),
    b'# -*- coding: latin-1 -*-\ns = "\xe9\xe9\xe9\xe9"\n',
    b'\xef\xbb\xbfx = 1\n',
    b'def f(x):return x\n',
    b'if 1:\n    pass\n',
    b'import os\nimport sys\nprint(os, sys)\n',
    b'x="\\u00e9"\n', b'x="\\xe9\\xe9\\xe9\\xe9\\xe9"\n',
    b'#!/bin/sh\n', b'0\n', b'0', b'a\n', b'(1)\n', b'x = (\n  1,\n  2,\n)\n',
]


def boundary_sources():
    """sources whose minified size is within two bytes of their own size, built from atoms that grow when minified
    (`1if x else 2` needs a space) and atoms that shrink (blanks, a final newline), with and without a shebang, with LF and
    CRLF line ends, with and without non-ASCII text: the size rule is decided at exactly these boundaries"""
    import python_minifier
    grow = ['a=1if b else 2', 'c=0in d', 'e=1or 3', 'f=[1for g in h]', "k='é'if 0in m else'ü'"]
    shrink = ['', ' ', '  ', '\n', ' \n']
    heads = ['', '#!/bin/sh\n', '#!/usr/bin/env python\n', '#!/usr/bin/env python']
    out = []
    seen = set()
    for head in heads:
        for n_grow in (1, 2, 3):
            for pad in shrink:
                for nl in ('\n', '\r\n'):
                    body = '\n'.join(grow[:n_grow]) + pad
                    text = head + body if head.endswith('\n') or not head else head + '\n' + body
                    if head and not head.endswith('\n') and n_grow == 3:
                        text = head          # a file that is only a shebang, no final newline
                    src = text.replace('\n', nl).encode('utf-8')
                    if src in seen:
                        continue
                    seen.add(src)
                    try:
                        m = python_minifier.minify(src).encode('utf-8')
                    except Exception:
                        continue
                    if abs(len(m) - len(src)) <= 2:
                        out.append(src)
    return out


def subprocess_runs(ctx):
    """the real command line tool as a process, with a standard output that is not UTF-8: the bytes on the pipe are counted"""
    import subprocess
    import sys
    import common
    srcs = ['x="é"*3\n'.encode('utf-8'), "x=1if y else'é'".encode('utf-8'), 'print("Привет, мир! 😀")\n'.encode('utf-8'), b'x=1\n']
    for src in srcs:
        for enc in ('ascii', 'latin-1', 'utf-8'):
            for mode in ('stdin', 'file'):
                with cc.Scratch() as d:
                    env = dict(os.environ, PYTHONIOENCODING=enc, PYTHONPATH=common.REPO_SRC)
                    env.pop('PYMINIFY_FORCE_BEST_EFFORT', None)
                    if mode == 'file':
                        with open(os.path.join(d, 'm.py'), 'wb') as f:
                            f.write(src)
                        p = subprocess.run([common.PY, '-m', 'python_minifier', 'm.py'], cwd=d, env=env, stdout=subprocess.PIPE, stderr=subprocess.PIPE, timeout=60)
                    else:
                        p = subprocess.run([common.PY, '-m', 'python_minifier', '-'], cwd=d, env=env, input=src, stdout=subprocess.PIPE, stderr=subprocess.PIPE, timeout=60)
                ctx.count()
                ctx.bump('subprocess', '%s/%s/exit%d' % (enc, mode, p.returncode))
                ctx.mark_nontrivial(repr((src, enc, mode)))
                if p.returncode == 0 and len(p.stdout) > len(src):
                    ctx.add_violation({'input': {'source': src.decode('latin-1'), 'mode': 'subprocess-' + mode, 'flags': ['PYTHONIOENCODING=' + enc]},
                                       'what': 'with a %s standard output the tool emitted %d bytes for a %d byte source' % (enc, len(p.stdout), len(src)),
                                       'observed': repr(p.stdout)[:300], 'found_by': 'subprocess', 'oracle': 'subprocess'})


def real_runs(ctx):
    modes = ['stdout', 'stdin', 'output', 'inplace', 'stdin-output']
    flagsets = [(), ('--no-rename-locals', '--no-hoist-literals'), ('--remove-literal-statements',), ('--rename-globals',)]
    sources = REAL_SOURCES + (boundary_sources() if len(REAL_SOURCES) > 1 else [])
    ctx.bump('real_sources', 'boundary', len(sources) - len(REAL_SOURCES))
    for src in sources:
        for mode in modes:
            for flags in flagsets[:ctx.scale(2, 4)]:
                if ctx.time_left() < 15:
                    return
                with cc.Scratch() as d:
                    with open(os.path.join(d, 'm.py'), 'wb') as f:
                        f.write(src)
                    if mode == 'stdout':
                        r = clirun.run_cli(list(flags) + ['m.py'], d)
                        got = r['stdout']
                    elif mode == 'stdin':
                        r = clirun.run_cli(['-'] + list(flags), d, stdin=src)
                        got = r['stdout']
                    elif mode == 'stdin-output':
                        r = clirun.run_cli(['-', '-o', 'o.py'] + list(flags), d, stdin=src)
                        got = clirun.snapshot(d).get('o.py', b'')
                    elif mode == 'output':
                        r = clirun.run_cli(['m.py', '--output', 'o.py'] + list(flags), d)
                        got = clirun.snapshot(d).get('o.py', b'')
                    else:
                        r = clirun.run_cli(['--in-place', 'm.py'] + list(flags), d)
                        got = clirun.snapshot(d).get('m.py')
                ctx.count()
                ctx.bump('real_mode', mode)
                ctx.bump('real_exit', str(r['exit']))
                if got:
                    ctx.mark_nontrivial(repr((src, mode, flags)))
                if got is not None and len(got) > len(src):
                    ctx.add_violation({'input': {'source': src.decode('latin-1'), 'mode': mode, 'flags': list(flags)},
                                       'what': 'emitted %d bytes for a %d byte source' % (len(got), len(src)),
                                       'observed': repr(got)[:300], 'found_by': 'enumeration', 'oracle': 'real'})
    ctx.exhaustive['real_sources_x_modes'] = len(REAL_SOURCES) * len(modes)


def run(ctx):
    d = cc.run_correspondence(ctx, ctx.scale(300, 4000))
    ctx.stage('correspondence', run_diffs=d)
    real_runs(ctx)
    subprocess_runs(ctx)


def search(ctx):
    cc.run_correspondence(ctx, 1500)
    real_runs(ctx)


def replay(ctx, data):
    inp = data.get('input') or {}
    if data.get('oracle') == 'real':
        src = inp['source'].encode('latin-1')
        n0 = len(ctx.violations)
        global REAL_SOURCES
        keep = REAL_SOURCES
        REAL_SOURCES = [src]
        try:
            ctx.tier = 'thorough'
            real_runs(ctx)
        finally:
            REAL_SOURCES = keep
        return len(ctx.violations) > n0
    if data.get('oracle') == 'scenario':
        sc = {'files': dict((k, v.encode('latin-1')) for k, v in inp['files'].items()), 'args': inp['args'],
              'stdin': inp['stdin'].encode('latin-1'), 'force': inp['force'],
              'api': dict((k.encode('latin-1'), v) for k, v in inp['api'].items()), 'mode': 'replay'}
        sc['mode'] = 'stdin' if sc['args'][:1] == ['-'] and '-o' not in sc['args'] and '--output' not in sc['args'] else 'replay'
        r, post, _w, _d = cc.run_scenario_impl(sc)
        return any(p == 'C14' for p, _ in cc.check_scenario_oracles(ctx, sc, r, post))
    return bool(data.get('broken'))

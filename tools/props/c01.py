"""C01 — Minified module behaves exactly like the original (safe options)."""
import ast
import warnings

import common
import pyast
import rungen
import scopegen
import runobs
import renast
import minast
import sexp
import shrink
from props import c05

warnings.simplefilter('ignore')

META = {
    'rule': '(D) spec validation: generated PyCore programs (static local scoping incl. unbound locals, imports, handlers across the builtin '
            'exception hierarchy, annotated locals) are run by the Lean semantics (pycore.run / pycore.runO) and by CPython exec (optimize 0 / 1); '
            'printed lines, ending, final globals and import events must agree (programs the semantics calls stuck are counted as out-of-core, '
            'never compared); the exception table of the semantics must equal the interpreter\'s builtins. '
            '(C) the Lean transform model prints the same text as minify() on those programs for every subset of the core-neutral '
            'switches; the model of applying a renaming (renModule, T01.13) prints the same text as minify(rename_locals only) for the renaming '
            'read off the real output and that renaming satisfies modOK; the composed model hoistModule W (renModule R (transformM P)) prints the '
            'same text as minify(P) with all defaults (and as minify(rename_locals + hoist_literals)) and modOK / hoistOK / distinct def names hold '
            'for the witnesses read off the real output (T01.14, T01.15, T01.17); when such a tie breaks the program itself is executed both ways. '
            '(O) differential execution on the real code: generated runnable '
            'programs (closures, nonlocal, classes, properties, generators, comprehensions, lambdas, try/finally, with, match, f-strings, '
            'imports, decorators, star/keyword calls, annotations, walrus, del, docstrings) plus the PyCore programs plus directed '
            'corner programs x option sets inside the thirteen default-on switches (defaults, none, each alone, each one off, random '
            'subsets): stdout, ending (normal / exception type / exit status), the summary of the public module namespace and the import events '
            'must be equal. non-trivial = the minified text differs from the source and the program prints something; distinct by (program, options)',
    'assumptions': ['observations are taken in-process with exec() in a fresh namespace dict, stdout captured, 5 s alarm; import events are recorded by wrapping builtins.__import__ for the program\'s own namespace',
                    'instances and classes in the public namespace are compared by type name, base names, attribute names and attribute value summaries; functions only as "function" (their code objects legitimately differ)',
                    'tools/renast.py and tools/minast.py read the renaming / hoisting witness off the real output by structural matching; a mistake there shows as a failed tie, not as a pass',
                    'Spec/PyCore.lean is the meaning of behaviour on the core: an import is an event plus an opaque binding; print, range, __debug__ and the builtin exception names are not rebound; a def is in the static table from the start'],
    'modelled_not_verified': ['renaming of globals, nested scopes (closures, nonlocal, classes, comprehensions, generators) have no PyCore theorem; they are decided by the oracle here and by the structural theorems of C02-C06, C09, C10',
                              'annotations that are evaluated (parameters, returns, module level, class bodies) are outside the core (known findings F12b/c)',
                              'PyCore covers a first-order fragment (no closures, classes, containers, exception objects); the rest of the language is reached by the oracle only'],
}

DEFAULT_ON = ['remove_variable_annotations', 'remove_return_annotations', 'remove_argument_annotations', 'remove_pass', 'combine_imports',
              'hoist_literals', 'rename_locals', 'remove_object_base', 'convert_posargs_to_args', 'preserve_shebang',
              'remove_explicit_return_none', 'remove_builtin_exception_brackets', 'constant_folding']
ANN = ['remove_variable_annotations', 'remove_return_annotations', 'remove_argument_annotations']

# directed programs for corners the documentation itself flags ("almost always safe", "generally safe") and for the interactions the
# property text names (rename + hoist + fold on the same scope)
CORNERS = [
    ('object-rebound', "object = int\nclass A(object):\n    pass\nprint(A.__mro__[1].__name__)\n"),
    ('annotation-effect-arg', "def note(x):\n    print('evaluated', x)\n    return int\ndef f(a: note(1) = 2) -> note(3):\n    return a\nprint(f())\n"),
    ('annotation-effect-var', "def note(x):\n    print('evaluated', x)\n    return int\nvalue: note(1) = 5\nprint(value)\n"),
    ('annotation-undefined-name', "try:\n    value: Undefined = 5\n    print('no error', value)\nexcept NameError:\n    print('NameError')\n"),
    ('posonly-kwargs-collision', "def f(a, /, **kw):\n    return a, sorted(kw.items())\nprint(f(1, a=2))\n"),
    ('posonly-same-name-kw', "def f(name, /, *, key=None, **rest):\n    return name, key, rest\nprint(f('x', key=1, name='y'))\n"),
    ('rename-hoist-fold', "def f(n):\n    total = 0\n    for i in range(n):\n        total += 60 * 60 * 24 + len('some repeated literal') + len('some repeated literal')\n    return total, 'some repeated literal'\nprint(f(3))\n"),
    ('hoist-in-class', "class K:\n    a = 'a fairly long literal'\n    b = 'a fairly long literal'\n    c = [a, b, 'a fairly long literal']\n    def m(self):\n        return 'a fairly long literal' + 'a fairly long literal'\nprint(K.c, K().m())\n"),
    ('closure-nonlocal', "def counter():\n    count = 0\n    def inc(step=1):\n        nonlocal count\n        count += step\n        return count\n    return inc\nc = counter()\nprint(c(), c(5), c(step=2))\n"),
    ('kw-call-renamed-arg', "def area(width, height=2, *, scale=1):\n    inner_total = width * height\n    return inner_total * scale\nprint(area(3), area(width=4), area(2, height=5, scale=3), area(**{'width': 1, 'scale': 9}))\n"),
    ('comprehension-scopes', "def f(values):\n    offset = 10\n    return [value + offset for value in values if value], {value: [inner for inner in range(value)] for value in values}\nprint(f([0, 1, 2, 3]))\n"),
    ('class-scope-lookup', "name = 'global'\ndef f():\n    name = 'local'\n    class C:\n        print(name)\n        name = 'class'\n        print(name)\n        def m(self):\n            return name\n    return C().m()\nprint(f())\n"),
    ('exception-vars', "def f(x):\n    try:\n        return 10 // x\n    except ZeroDivisionError as error:\n        message = str(error)\n        return message\n    finally:\n        print('done', x)\nprint(f(0), f(3))\n"),
    ('raise-brackets', "def f(kind):\n    if kind:\n        raise ValueError()\n    raise KeyError\nfor k in (0, 1):\n    try:\n        f(k)\n    except (ValueError, KeyError) as e:\n        print(type(e).__name__, e.args)\n"),
    ('raise-brackets-rebound', "class ValueError(Exception):\n    def __init__(self):\n        print('custom init')\n        Exception.__init__(self, 'custom')\ntry:\n    raise ValueError()\nexcept Exception as e:\n    print(type(e).__name__, e.args)\n"),
    ('return-none-generator', "def g(n):\n    for i in range(n):\n        yield i\n    return None\ndef h():\n    return None\nprint(list(g(3)), h())\n"),
    ('global-in-function', "total = 0\ndef add(amount):\n    global total\n    total += amount\n    local_copy = total\n    return local_copy\nprint(add(2), add(3), total)\n"),
    ('lambda-defaults', "make = lambda base, /, extra=2, *rest, key=3, **others: (base, extra, rest, key, sorted(others))\nprint(make(1), make(1, 5, 6, key=7, zed=8))\n"),
    ('star-import-taint', "from math import *\ndef f(value):\n    inner_value = floor(value)\n    return inner_value\nprint(f(2.5))\n"),
    ('locals-taint', "def f(first_value):\n    second_value = first_value + 1\n    return sorted(locals())\nprint(f(1))\n"),
    ('dunder-class-cell', "class Base:\n    def hello(self):\n        return 'base'\nclass Child(Base):\n    def hello(self):\n        return super().hello() + __class__.__name__\nprint(Child().hello())\n"),
    ('fstring-nested', "def f(width, value):\n    text = 'pad'\n    return f'{value!r:>{width}}|{text:{text}^9}|{value + 1:#x}'\nprint(f(6, 10))\n"),
    ('del-and-rebind', "def f():\n    scratch = [1, 2, 3]\n    del scratch[0]\n    other = scratch\n    del scratch\n    scratch = 5\n    return other, scratch\nprint(f())\n"),
    ('match-capture', "def f(command):\n    match command:\n        case [action]:\n            return action\n        case [action, target, *rest]:\n            return action, target, rest\n        case {'key': found, **others}:\n            return found, others\n        case str() as text:\n            return text\n        case _:\n            return None\nprint(f(['go']), f(['go', 'north', 1]), f({'key': 1, 'z': 2}), f('s'), f(3))\n"),
    ('shebang-doc', "#!/usr/bin/env python3\n'''doc'''\nimport sys\nprint(len(sys.argv) >= 0)\n"),
    ('imports', "import os\nimport sys\nimport os.path\nfrom os import sep\nfrom os import path as p, getcwd\nprint(sep == os.sep, p is os.path, callable(getcwd), sys is not None)\n"),
    ('try-import', "try:\n    import nonexistent_module_xyz\nexcept ImportError:\n    print('missing')\nimport json\nprint(json.dumps([1]))\n"),
    ('async', "import asyncio\nasync def work(delay_value):\n    await asyncio.sleep(0)\n    return delay_value * 2\nasync def main():\n    results = [await work(n) for n in range(3)]\n    async def agen():\n        for item in results:\n            yield item\n    return [item async for item in agen()]\nprint(asyncio.run(main()))\n"),
    ('exit-status', "import sys\nprint('before')\nsys.exit(3)\n"),
    ('raise-keyword-args', "def load(name_value):\n    raise ImportError(name=name_value, path='/nowhere/' + name_value)\ndef probe():\n    raise AttributeError(name='attr', obj=None)\nfor f in (lambda: load('spam'), probe):\n    try:\n        f()\n    except (ImportError, AttributeError) as error:\n        print(type(error).__name__, error.name, getattr(error, 'path', None), error.args)\n"),
    ('short-parameter-names', "def solve(A, values, *, B=1):\n    total = 0\n    for value in values:\n        total += value * A + B\n    return total + total + total\nprint(solve(2, [1, 2, 3]), solve(A=3, values=[1], B=0))\nclass K:\n    def method(self, A, *rest, C=2):\n        total = sum(rest) + A\n        return total * total * C + total\nprint(K().method(1, 2, 3, C=4))\n"),
    ('already-minified', "def A(B,C=2,*D,E=3,**F):\n    G=B+C\n    H=[G*I for I in D]\n    return G,H,E,sorted(F),G,G,H,H\nprint(A(1),A(1,2,3,4,E=5,Z=6))\n"),
    # statements removed in front of a string statement must not turn it into a docstring
    ('pass-before-string-statement', "def documented():\n    pass\n    'not a docstring'\n    return 1\nclass Holder:\n    pass\n    'not a docstring either'\n    value = 2\nprint(documented.__doc__, Holder.__doc__, documented(), Holder.value)\n"),
    ('pass-before-string-statement-module', "pass\n'not a module docstring'\nprint(__doc__ is None)\n"),
    ('pass-before-string-statement-coroutine', "import asyncio\nasync def handler(request):\n    pass\n    'not a docstring'\n    return request\nclass Service:\n    async def call(self):\n        pass\n        pass\n        'still not a docstring'\n    def plain(self):\n        for item in [1]:\n            pass\n            'loop text'\n        return item\nprint(handler.__doc__, Service.call.__doc__, Service().plain(), asyncio.run(handler(5)))\n"),
    # an annotation without a value on an attribute or an item evaluates the object (and the index), never the attribute or item itself
    ('valueless-annotation-on-attribute-and-item', "class Point:\n    def __init__(self, x_value, y_value):\n        self.x_value: int\n        self.y_value: int\n        self.x_value = x_value\n        self.y_value = y_value\n    def __getattr__(self, name):\n        print('missing', name)\n        raise AttributeError(name)\nregistry = {}\nregistry['origin']: Point\nregistry['origin'] = Point(0, 0)\nclass Loud(dict):\n    def __missing__(self, key):\n        print('missing key', key)\n        return None\nloud = Loud()\nloud['absent']: int\nprint(Point(3, -4).x_value, sorted(registry), len(loud))\n"),
    ('passes-before-string-in-nested-def', "def outer():\n    def inner():\n        pass\n        pass\n        'text'\n    return inner.__doc__\nprint(outer())\n"),
    ('short-parameter-read-in-nested-scope', "def total(A, rows):\n    return sum(item * A + item + item for item in rows)\ndef outer(B, count):\n    def inner(value):\n        acc = value * B\n        acc = acc + value\n        return acc + value + acc\n    return inner(count)\nprint(total(2, [1, 2, 3]), outer(3, 4))\n"),
    ('nested-class-private', "class Outer:\n    __secret = 1\n    def get(self):\n        return self.__secret\n    class Inner:\n        def peek(self, outer):\n            return outer._Outer__secret\nprint(Outer().get(), Outer.Inner().peek(Outer()))\n"),
]


def kwargs_of(subset):
    from python_minifier import RemoveAnnotationsOptions
    kw = dict((k, (k in subset)) for k in DEFAULT_ON if k not in ANN)
    kw['remove_annotations'] = RemoveAnnotationsOptions(remove_variable_annotations='remove_variable_annotations' in subset,
                                                         remove_return_annotations='remove_return_annotations' in subset,
                                                         remove_argument_annotations='remove_argument_annotations' in subset,
                                                         remove_class_attribute_annotations=False)
    return kw


def option_subsets(ctx, n_random):
    sets = [('defaults', list(DEFAULT_ON)), ('none', [])]
    for k in DEFAULT_ON:
        sets.append(('only:' + k, [k]))
    for k in DEFAULT_ON:
        sets.append(('without:' + k, [x for x in DEFAULT_ON if x != k]))
    for i in range(n_random):
        sets.append(('random%d' % i, [k for k in DEFAULT_ON if ctx.rng.random() < 0.5]))
    return sets


def minify(src, subset):
    import python_minifier
    try:
        return python_minifier.minify(src, **kwargs_of(subset)), None
    except RecursionError:
        return None, 'RecursionError'
    except Exception as e:
        return None, type(e).__name__


def shapes_of(src, subset=None):
    s = []
    subset = set(DEFAULT_ON if subset is None else subset)
    try:
        tree = ast.parse(src)
    except Exception:
        return s
    calls_in = lambda n: any(isinstance(m, (ast.Call, ast.Await, ast.Yield, ast.NamedExpr)) for m in ast.walk(n))
    import builtins
    bound = set()
    for n in ast.walk(tree):
        if isinstance(n, ast.Name) and isinstance(n.ctx, ast.Store):
            bound.add(n.id)
        elif isinstance(n, (ast.FunctionDef, ast.AsyncFunctionDef, ast.ClassDef)):
            bound.add(n.name)
    for n in ast.walk(tree):
        anns = []
        if isinstance(n, (ast.FunctionDef, ast.AsyncFunctionDef)):
            a = n.args
            anns = [x.annotation for x in a.posonlyargs + a.args + a.kwonlyargs + [a.vararg, a.kwarg] if x is not None and x.annotation is not None]
            if n.returns is not None:
                anns.append(n.returns)
            if a.posonlyargs and a.kwarg is not None and 'convert_posargs_to_args' in subset:
                s.append('posonly-with-kwargs')
        elif isinstance(n, ast.AnnAssign):
            anns = [n.annotation]
        if not (subset & set(ANN)):
            anns = []
        for ann in anns:
            if calls_in(ann):
                s.append('annotation-with-call')
            for m in ast.walk(ann):
                if isinstance(m, ast.Name) and m.id not in bound and not hasattr(builtins, m.id):
                    s.append('annotation-with-undefined-name')
        if isinstance(n, ast.ClassDef) and any(isinstance(b, ast.Name) and b.id == 'object' for b in n.bases) and 'object' in bound and 'remove_object_base' in subset:
            s.append('object-rebound')
    return sorted(set(s))


def diff_obs(a, b):
    return runobs.diff(a, b)


def check_one(src, subset):
    """→ (list of differences, minified text or None, error name)"""
    m, err = minify(src, subset)
    if m is None:
        return [], None, err
    a = runobs.observe(src)
    if a['ending'] in ('timeout',) or a['ending'].startswith('compile:'):
        return [], m, 'unusable-original:' + a['ending']
    b = runobs.observe(m)
    return diff_obs(a, b), m, None


def differential(ctx, progs, osets, found_by):
    for ident, src in progs:
        if ctx.time_left() < 25:
            ctx.notes.append('differential stopped by budget at %s' % ident)
            break
        a = runobs.observe(src)
        ctx.bump('original_ending', a['ending'].split(':')[0] + (':' + a['ending'].split(':')[1] if a['ending'].startswith('raised:') else ''))
        if a['ending'] == 'timeout' or a['ending'].startswith('compile:'):
            ctx.bump('skipped', a['ending'])
            continue
        seen = {}
        reads_annotations = '__annotations__' in src or 'get_type_hints' in src
        for oname, subset in osets:
            if reads_annotations and (set(subset) & set(ANN)):
                # removed annotations are a documented reflective view: a program that prints them is outside the property for
                # option sets that remove them (it still runs under the others)
                ctx.bump('skipped', 'reads-annotations-that-the-option-set-removes')
                continue
            m, err = minify(src, subset)
            ctx.count()
            if m is None:
                ctx.bump('minify_error', err)
                continue
            if m in seen:
                ctx.bump('dedup', 'same-text-as-other-subset')
                continue
            b = runobs.observe(m)
            seen[m] = True
            if m.strip() != src.strip() and a['out']:
                ctx.mark_nontrivial(ident + '|' + oname)
            d = diff_obs(a, b)
            if d:
                base_shapes = set(shapes_of(src, subset))

                def still(s, subset=subset, base_shapes=base_shapes):
                    # shrinking must not slide into another failure: a candidate that acquires the shape of a known finding
                    # (say, an annotation whose name the shrinker just deleted) is a different program for our purposes
                    if set(shapes_of(s, subset)) - base_shapes:
                        return False
                    try:
                        dd, mm, e = check_one(s, subset)
                    except Exception:
                        return False
                    return bool(dd)
                small = shrink.shrink(src, still)
                dd, mm, _ = check_one(small, subset)
                if not dd:
                    small, dd, mm = src, d, m
                ctx.add_violation({'input': {'source': small, 'options': sorted(subset)},
                                   'what': 'minified program behaves differently (%s): %s' % (oname, '; '.join(dd)),
                                   'observed': (mm or '')[:400], 'found_by': found_by, 'oracle': 'differential-execution',
                                   'shapes': shapes_of(small, subset)})
        ctx.stage('differential:' + found_by, programs=ctx.stages.get('differential:' + found_by, {}).get('programs', 0) + 1)
    if progs:
        ctx.sample({'stage': 'differential:' + found_by, 'id': progs[-1][0], 'source': progs[-1][1][:300]})


def parse_model_obs(text):
    ending, out, glob, imports = None, [], {}, []
    for line in text.split('\n'):
        if line.startswith('END '):
            ending = line[4:]
        elif line.startswith('OUT'):
            body = line[4:]
            out.append(''.join(chr(int(x)) for x in body.split(',') if x))
        elif line.startswith('IMPORT'):
            imports.append(''.join(chr(int(x)) for x in line[7:].split(',') if x))
        elif line.startswith('GLOBAL '):
            _, name, val = line.split(' ', 2)
            if val.startswith('int:'):
                glob[name] = repr(int(val[4:]))
            elif val.startswith('str:'):
                glob[name] = repr(''.join(chr(int(x)) for x in val[4:].split(',') if x))
            elif val.startswith('mod:'):
                glob[name] = 'opaque'          # what an import bound: the model only says the name is bound
            else:
                glob[name] = val
    return {'out': ''.join(l + '\n' for l in out), 'ending': ending, 'globals': glob, 'imports': imports}


def spec_validation(ctx, progs, found_by, optimized=False):
    reqs, meta = [], []
    for ident, src in progs:
        try:
            with pyast.unlimited():
                reqs.append(('pycore.runO 2000 ' if optimized else 'pycore.run 2000 ') + pyast.enc_module(ast.parse(src)))
            meta.append((ident, src))
        except pyast.OutOfModel as e:
            ctx.bump('out_of_model', str(e))
    answers = ctx.driver.ask(reqs) if reqs else []
    agree = 0
    for (ident, src), ans in zip(meta, answers):
        ctx.count()
        if not ans.startswith('ok '):
            ctx.add_broken('spec-validation', 'pycore.run:' + ident, 'driver answered %r for %r' % (ans[:100], src[:300]))
            continue
        model = parse_model_obs(sexp.dec_str(ans[3:]))
        real = runobs.observe(src, optimize=1 if optimized else 0)
        real_globals = dict((k, ('opaque' if model['globals'].get(k) == 'opaque' else v)) for k, v in real['globals'].items()
                            if v != 'function' or model['globals'].get(k) == 'opaque')
        ctx.bump('pycore_ending', (model['ending'] or '?').split(':')[0])
        ctx.bump('pycore_import_events', min(len(model['imports']), 9))
        if model['ending'] in ('stuck', 'timeout'):
            continue
        if real['ending'] == 'timeout':
            continue
        if model['ending'] != real['ending'] or model['out'] != real['out'] or model['globals'] != real_globals or model['imports'] != real['imports']:
            ctx.add_broken('spec-validation', 'pycore.run:' + ident,
                           'PyCore and CPython disagree on %r: model=%r cpython=%r' % (src[:400], (model['ending'], model['out'][-120:], sorted(model['globals'].items())[:6], model['imports'][:6]),
                                                                                        (real['ending'], real['out'][-120:], sorted(real_globals.items())[:6], real['imports'][:6])))
        else:
            agree += 1
            if real['out']:
                ctx.mark_nontrivial('pycore|' + ident)
    ctx.stage('spec-validation:' + found_by + (':-O' if optimized else ''), cases=len(meta), agree=agree)
    if meta:
        ctx.sample({'stage': 'spec-validation', 'id': meta[-1][0], 'source': meta[-1][1][:300]})


CORE_SWITCHES = ['combine_imports', 'remove_pass', 'remove_literal_statements', 'remove_object_base', 'remove_explicit_return_none', 'remove_builtin_exception_brackets',
                 'constant_folding', 'convert_posargs_to_args']


def core_option_sets(ctx, n_random):
    sets = []
    off = dict((k, False) for k in c05.ALL_SWITCHES)
    on = dict(off)
    for k in CORE_SWITCHES:
        on[k] = True
        o = dict(off)
        o[k] = True
        sets.append(('core-only:' + k, o))
    sets.append(('core-all', on))
    for i in range(n_random):
        o = dict(off)
        for k in CORE_SWITCHES:
            o[k] = ctx.rng.random() < 0.5
        sets.append(('core-random%d' % i, o))
    return sets


def _concrete(ctx, src, subset, found_by):
    """a model / implementation tie broke on this program: is the behaviour different on it?  (a concrete failing input)"""
    d, m, err = check_one(src, subset)
    if d:
        ctx.add_violation({'input': {'source': src, 'options': subset}, 'what': 'minified program behaves differently (%s): ' % ','.join(subset) + '; '.join(d),
                           'observed': (m or '')[:400], 'found_by': found_by, 'oracle': 'differential-execution', 'shapes': shapes_of(src, subset)})


def renaming_application(ctx, progs, found_by):
    """(C) tie for T01.13: minify(P, rename_locals only) must be the module the Lean model `renModule` builds from P and the
    renaming read off the output, and that renaming must satisfy the theorem's side condition `modOK`"""
    reqs, meta = [], []
    for ident, src in progs:
        out, err = minify(src, ['rename_locals'])
        ctx.count()
        if out is None:
            continue
        try:
            w = renast.module_witness(src, out)
        except renast.NoWitness as e:
            ctx.add_broken('correspondence', 'rename.applyast:' + ident, 'no renaming explains the output (%s): source=%r output=%r' % (e, src[:300], out[:300]))
            continue
        try:
            with pyast.unlimited():
                entries = '(' + ' '.join('(%s (%s) (%s))' % (sexp.enc_str(f), ' '.join('(%s %s)' % (sexp.enc_str(o), sexp.enc_str(n)) for o, n in pairs),
                                                             ' '.join(sexp.enc_str(p) for p in pro)) for f, pairs, pro in w) + ')'
                reqs.append('rename.applyast %s %s' % (entries, pyast.enc_module(ast.parse(src))))
            meta.append((ident, src, out, w))
        except pyast.OutOfModel as e:
            ctx.bump('out_of_model', str(e))
    answers = ctx.driver.ask(reqs) if reqs else []
    same = ok = renamed = 0
    for (ident, src, out, w), ans in zip(meta, answers):
        if not ans.startswith('ok '):
            ctx.add_broken('correspondence', 'rename.applyast:' + ident, 'driver answered %r' % ans[:100])
            continue
        text = sexp.dec_str(ans[3:])
        flag, model = text.split('\n', 1)
        if any(pairs for _, pairs, _ in w):
            renamed += 1
            ctx.mark_nontrivial('renast|' + ident)
        if model != out:
            ctx.add_broken('correspondence', 'rename.applyast:' + ident, 'the model of applying the renaming prints %r, minify() prints %r (source %r)' % (model[:300], out[:300], src[:300]))
            _concrete(ctx, src, ['rename_locals'], 'renaming-application')
        else:
            same += 1
        if flag != 'OK 1':
            ctx.add_broken('correspondence', 'rename.modOK:' + ident, 'the renaming minify() chose does not satisfy the side condition of T01.13: %r in %r' % (w, src[:400]))
            _concrete(ctx, src, ['rename_locals'], 'renaming-application')
        else:
            ok += 1
    ctx.stage('renaming-application:' + found_by, cases=len(meta), same_text=same, side_condition_holds=ok, with_renamed_names=renamed)


def _debug_literal_hoisted(src, w):
    """does a hoisted True / False sit in a `__debug__` comparison (the core gives such a test no meaning: outside T01.14)"""
    hoisted = [c for c in minast.hoisted_consts(w) if c is True or c is False]
    if not hoisted:
        return False
    for n in ast.walk(ast.parse(src)):
        if isinstance(n, ast.Compare) and isinstance(n.left, ast.Name) and n.left.id == '__debug__':
            if any(isinstance(c, ast.Constant) and any(c.value is h for h in hoisted) for c in n.comparators):
                return True
    return False


def minify_application(ctx, progs, found_by):
    """(C) tie for T01.13–T01.15: the real output must be the module the Lean models build — `hoistModule W (renModule R P)` for
    rename_locals + hoist_literals alone, `hoistModule W (renModule R (transformM P))` for minify() with its defaults — from the
    renaming and the hoisting read off the output, and both side conditions (`modOK`, `hoistOK`) must hold for them"""
    import python_minifier
    from python_minifier.transforms.remove_exception_brackets import builtin_exceptions as impl_list
    reqs, meta = [], []
    for ident, src in progs:
        if '__future__' in src:
            ctx.bump('out_of_model', 'future-import')
            continue
        for mode in ('rename+hoist', 'defaults'):
            ctx.count()
            try:
                if mode == 'rename+hoist':
                    out, _ = minify(src, ['rename_locals', 'hoist_literals'])
                    inter = src
                else:
                    out, _ = minify(src, DEFAULT_ON)
                    inter, _ = minify(src, [k for k in DEFAULT_ON if k not in ('rename_locals', 'hoist_literals')])
                if out is None or inter is None:
                    continue
                w = minast.module_witness(inter, out)
            except minast.NoWitness as e:
                ctx.add_broken('correspondence', 'min.apply:%s:%s' % (mode, ident), 'no renaming and hoisting explains the output (%s): source=%r output=%r' % (e, src[:300], (out or '')[:300]))
                continue
            try:
                ren, hw = minast.witness_sexps(w)
                tree = ast.parse(src)
                with pyast.unlimited():
                    if mode == 'rename+hoist':
                        reqs.append('min.applyast %s %s %s' % (ren, hw, pyast.enc_module(tree)))
                    else:
                        o = dict(c05.DEFAULTS)
                        _, tainted = c05.unbound_names(tree)
                        unbound, _mixed = c05.bracket_names(tree)
                        treq = c05.transform_request(tree, o, set() if tainted else (unbound & set(impl_list)))
                        head, rest = treq.split(' ', 1)
                        # transform <bits> <oracle> <eligible> <module>  →  min.full <bits> <oracle> <eligible> <ren> <hoist> <module>
                        mod = pyast.enc_module(tree)
                        assert rest.endswith(mod)
                        reqs.append('min.full %s %s %s %s' % (rest[:-len(mod)].strip(), ren, hw, mod))
                meta.append((ident, mode, src, out, w))
            except pyast.OutOfModel as e:
                ctx.bump('out_of_model', str(e))
    answers = ctx.driver.ask(reqs) if reqs else []
    stats = {}
    for (ident, mode, src, out, w), ans in zip(meta, answers):
        st = stats.setdefault(mode, dict(cases=0, same_text=0, conditions_hold=0, with_hoisting=0, debug_literal_hoisted=0))
        st['cases'] += 1
        if not ans.startswith('ok '):
            ctx.add_broken('correspondence', 'min.apply:%s:%s' % (mode, ident), 'driver answered %r' % ans[:100])
            continue
        flag, model = sexp.dec_str(ans[3:]).split('\n', 1)
        if minast.hoisted_consts(w):
            st['with_hoisting'] += 1
            ctx.mark_nontrivial('minast|%s|%s' % (mode, ident))
        if model != out:
            ctx.add_broken('correspondence', 'min.apply:%s:%s' % (mode, ident), 'the model pipeline prints %r, minify() prints %r (source %r)' % (model[:300], out[:300], src[:300]))
            _concrete(ctx, src, ['rename_locals', 'hoist_literals'] if mode == 'rename+hoist' else list(DEFAULT_ON), 'minify-application')
        else:
            st['same_text'] += 1
        if flag in ('OK 1 1', 'OK 1 1 1'):
            st['conditions_hold'] += 1
        elif flag in ('OK 1 0', 'OK 1 0 1') and _debug_literal_hoisted(src, w):
            st['debug_literal_hoisted'] += 1
            ctx.bump('out_of_model', 'hoisted-literal-in-debug-test')
        else:
            ctx.add_broken('correspondence', 'min.conditions:%s:%s' % (mode, ident), 'the renaming / hoisting minify() chose does not satisfy the side conditions of T01.13 / T01.14 (%s): %r in %r' % (flag, w, src[:400]))
            _concrete(ctx, src, ['rename_locals', 'hoist_literals'] if mode == 'rename+hoist' else list(DEFAULT_ON), 'minify-application')
    for mode, st in stats.items():
        ctx.stage('minify-application:%s:%s' % (mode, found_by), **st)


def exception_table(ctx):
    """(D) the exception hierarchy table of Spec.PyCore against the running interpreter's builtins"""
    import builtins
    ans = ctx.driver.ask(['pycore.exctable'])[0]
    if not ans.startswith('ok '):
        ctx.add_broken('spec-validation', 'pycore.exctable', 'driver answered %r' % ans[:100])
        return
    model = {}
    for line in sexp.dec_str(ans[3:]).split('\n'):
        name, kind, parents, raised = line.split(' ')
        model[name] = (kind, sorted(p for p in parents.split(',') if p), raised)
    real = {}
    for n in dir(builtins):
        c = getattr(builtins, n)
        if isinstance(c, type) and issubclass(c, BaseException) and c.__name__ == n:
            try:
                raised = type(c()).__name__
            except TypeError:
                raised = 'TypeError'
            real[n] = ('E' if issubclass(c, Exception) else 'B', sorted(k.__name__ for k in c.__mro__[1:] if k not in (Exception, BaseException, object)), raised)
    ctx.count(len(real))
    if model != real:
        d = [(k, model.get(k), real.get(k)) for k in sorted(set(model) | set(real)) if model.get(k) != real.get(k)]
        ctx.add_broken('spec-validation', 'pycore.exctable', 'exception hierarchy differs from the interpreter: %r' % (d[:6],))
    ctx.stage('spec-validation:exception-table', classes=len(real), agree=int(model == real))


def run(ctx):
    exception_table(ctx)
    core = [('core%d' % i, rungen.core_program(ctx.rng)) for i in range(ctx.scale(150, 3000))]
    spec_validation(ctx, core, 'generated')
    spec_validation(ctx, core[:ctx.scale(80, 1500)], 'generated', optimized=True)      # `python -O` semantics (runO)
    renaming_application(ctx, core[:ctx.scale(100, 2000)], 'generated')
    minify_application(ctx, core[:ctx.scale(80, 1500)], 'generated')
    c05.run_programs(ctx, core[:ctx.scale(40, 600)], core_option_sets(ctx, ctx.scale(2, 10)), 'pycore-programs')
    osets_all = option_subsets(ctx, ctx.scale(3, 24))
    differential(ctx, CORNERS, osets_all, 'corners')
    for k in ctx.known:
        if k.get('replay_source'):
            differential(ctx, [(k['id'], k['replay_source'])], osets_all, 'known')
    differential(ctx, scopegen.capture_programs() + scopegen.class_import_programs()[::(1 if ctx.tier == 'thorough' else 4)] + scopegen.sibling_comprehension_programs() + scopegen.declaration_programs(), [s for s in osets_all if s[0] in ('defaults', 'only:rename_locals')], 'directed-scopes')
    wide = [('wide%d' % i, rungen.program(ctx.rng)) for i in range(ctx.scale(160, 2500))]
    osets_small = [osets_all[0], osets_all[1]] + [s for s in osets_all if s[0].startswith('random')][:ctx.scale(3, 8)]
    osets_small += [s for s in osets_all if s[0] in ('only:rename_locals', 'only:hoist_literals', 'without:rename_locals', 'only:constant_folding')]
    differential(ctx, wide, osets_small, 'generated')
    differential(ctx, core[:ctx.scale(30, 500)], osets_small[:5], 'pycore-programs')


def search(ctx):
    osets_all = option_subsets(ctx, 12)
    differential(ctx, CORNERS, osets_all, 'search-corners')
    wide = [('wide%d' % i, rungen.program(ctx.rng)) for i in range(400)]
    differential(ctx, wide, osets_all[:2] + osets_all[-12:], 'search-generated')


def replay(ctx, data):
    inp = data.get('input') or {}
    if 'source' in inp and 'options' in inp:
        d, m, err = check_one(inp['source'], inp['options'])
        if d:
            ctx.add_violation({'input': inp, 'what': 'minified program behaves differently: ' + '; '.join(d), 'observed': (m or '')[:400],
                               'found_by': 'replay', 'oracle': 'differential-execution', 'shapes': shapes_of(inp['source'], inp['options'])})
        return bool(d)
    return bool(data.get('broken'))

"""C07 — Constant folding never changes a value, its type, or an error."""
import ast
import math
import operator
import sys
import warnings

import pyast
import sexp
from props import c02

warnings.simplefilter('ignore')
import pyast as _pyast      # big ints are written with the conversion limit lifted locally (pyast.unlimited)

META = {
    'rule': 'inputs: every operator x operand-kind pair (13 x 7 x 7) on a literal pool, random nested literal expressions (depth <= 5) '
            'placed in 14 syntactic contexts. Each program is folded by the Lean model (int/bool arithmetic computed by the PyInt spec, '
            'float/complex results supplied by plain CPython) and by minify(constant_folding only); texts compared. Oracle on the real '
            'code: eval of every literal expression before and after, compared by type, value, sign of zero, exception class; output '
            'length <= unfolded length. PyInt.eval validated against CPython on random big ints. non-trivial = folding changed the text; '
            'distinct by source hash',
    'assumptions': ['float/complex arithmetic, repr(float), repr(complex) and repr(-complex) are oracle parameters of the model (CPython)',
                    'a float literal printed from repr (post-processed) evaluates to the same double (decimal round trip, CPython)',
                    'CPython int->str limit is 4300 digits (default); results beyond it are never folded'],
    'modelled_not_verified': ['SuiteTransformer traversal shape (which positions are reached): hand model + correspondence'],
}

OPS = {'Add': '+', 'Sub': '-', 'Mult': '*', 'MatMult': '@', 'Div': '/', 'Mod': '%', 'Pow': '**', 'LShift': '<<', 'RShift': '>>',
       'BitOr': '|', 'BitXor': '^', 'BitAnd': '&', 'FloorDiv': '//'}
PYOPS = {'Add': operator.add, 'Sub': operator.sub, 'Mult': operator.mul, 'MatMult': operator.matmul, 'Div': operator.truediv,
         'Mod': operator.mod, 'Pow': operator.pow, 'LShift': operator.lshift, 'RShift': operator.rshift, 'BitOr': operator.or_,
         'BitXor': operator.xor, 'BitAnd': operator.and_, 'FloorDiv': operator.floordiv}

POOL = {
    'small': ['0', '1', '2', '3', '7', '10', '16', '100', '255'],
    'big': ['1000000', '4294967296', '18446744073709551615', '99999999999999999999', '123456789012345678901234567890', '0xffffffffffffffffffff'],
    'bool': ['True', 'False'],
    'none': ['None'],
    'float': ['0.0', '1.0', '0.5', '1.5', '2.5', '1e308', '1e-320', '1e16', '3.14', '100.0', '1e999', '0.1', '1e22'],
    'complex': ['1j', '0j', '2.5j', '1e308j'],
    'neg': ['-1', '-7', '-0.0', '-2.5', '-1j', '-(1)'],
}
KINDS = sorted(POOL)

CONTEXTS = [
    'x = {}', 'f({})', 'x = [{}][0]', 'x = ({}).real', 'x = a[{}]', 'x = a[{}:]', 'x = -({})', 'x = ({}) ** 2', 'x = 2 ** ({})', 'x = lambda: {}',
    'def f(a={}): pass', 'x = {{{}: 1}}', 'x = ({}) if a else b', "x = f'{{{}}}'", 'x = not ({})', 'x = ({}) or a', 'x = a < ({})',
    'x: int = {}', 'assert {}', 'x = ({}, )', 'for i in range({}): pass', 'x = await_({})', 'x = ({}) * a', 'x = a - ({})',
]


def key_of(v):
    if v is None:
        return 'n'
    if v is True:
        return 'b:1'
    if v is False:
        return 'b:0'
    if isinstance(v, int):
        with _pyast.unlimited():
            return 'i:%d' % v
    if isinstance(v, float):
        return 'f:' + repr(v)
    if isinstance(v, complex):
        return 'c:' + repr(v)
    return None


def build_oracle(tree):
    """Plain-CPython evaluation of every literal-only BinOp subtree: table entries for the model."""
    binop, neg = {}, {}

    def val(node):
        """(ok, value) of a literal-only subtree, computed bottom-up; (False, None) if not literal or it raises."""
        if isinstance(node, ast.Constant) and (node.value is None or isinstance(node.value, (bool, int, float, complex))):
            return True, node.value
        if isinstance(node, ast.BinOp):
            lo, lv = val(node.left)
            ro, rv = val(node.right)
            if not (lo and ro):
                return False, None
            op = type(node.op).__name__
            if op in ('Pow', 'Div'):
                return False, None       # never folded, so never an operand of a folded parent
            if op in ('LShift',) and isinstance(rv, int) and not isinstance(rv, bool) and rv > 200000 and lv:
                res = None               # would take long / raise MemoryError; > 4300 digits anyway: never foldable
                binop['%s|%s|%s' % (op, key_of(lv), key_of(rv))] = 'err'
                return False, None
            try:
                res = PYOPS[op](lv, rv)
                k = key_of(res)
            except Exception:
                res, k = None, 'err'
            binop['%s|%s|%s' % (op, key_of(lv), key_of(rv))] = k if k is not None else 'err'
            if k is None or k == 'err':
                return False, None
            if isinstance(res, complex) and repr(res).startswith('-'):
                neg['c:' + repr(res)] = 'c:' + repr(-res)
            return True, res
        return False, None

    for n in ast.walk(tree):
        if isinstance(n, ast.BinOp):
            val(n)
    return binop, neg


def enc_oracle(binop, neg):
    return sexp.lst([sexp.lst([sexp.lst([sexp.enc_str(k), sexp.enc_str(v)]) for k, v in sorted(binop.items())]),
                     sexp.lst([sexp.lst([sexp.enc_str(k), sexp.enc_str(v)]) for k, v in sorted(neg.items())])])


def fold_impl(src):
    import python_minifier
    opts = dict(c02.ALL_OFF)
    opts['constant_folding'] = True
    try:
        return python_minifier.minify(src, **opts)
    except RecursionError:
        return None
    except Exception as e:
        return 'EXC:' + e.__class__.__name__


def same_value(a, b):
    if type(a) is not type(b):
        return False
    if isinstance(a, float):
        if math.isnan(a) or math.isnan(b):
            return math.isnan(a) and math.isnan(b)
        return a == b and math.copysign(1, a) == math.copysign(1, b)
    if isinstance(a, complex):
        return same_value(a.real, b.real) and same_value(a.imag, b.imag)
    return a == b


class _Skip(Exception):
    pass


def _guarded(node):
    """Bottom-up evaluation of a closed literal expression with guards against huge results."""
    if isinstance(node, ast.Constant):
        return node.value
    if isinstance(node, ast.UnaryOp):
        v = _guarded(node.operand)
        return {'USub': operator.neg, 'UAdd': operator.pos, 'Invert': operator.invert, 'Not': operator.not_}[type(node.op).__name__](v)
    if isinstance(node, ast.BinOp):
        l, r = _guarded(node.left), _guarded(node.right)
        op = type(node.op).__name__
        if op == 'Pow' and isinstance(r, int) and not isinstance(l, (float, complex)) and abs(r) > 5000 and l not in (0, 1, -1, True, False):
            raise _Skip()
        if op == 'LShift' and isinstance(r, int) and r > 300000 and l:
            raise _Skip()
        if op == 'Mult' and isinstance(l, int) and isinstance(r, int) and l.bit_length() + r.bit_length() > 4000000:
            raise _Skip()
        return PYOPS[op](l, r)
    raise _Skip()


def outcome(expr_src):
    try:
        return ('ok', _guarded(ast.parse(expr_src, mode='eval').body))
    except _Skip:
        return ('skip', None)
    except RecursionError:
        return ('skip', None)
    except Exception as e:
        return ('exc', e.__class__.__name__)


def literal_subexprs(tree):
    """Maximal closed literal arithmetic sub-expressions (ast nodes) of a tree."""
    out = []

    def closed(n):
        if isinstance(n, ast.Constant):
            return n.value is None or isinstance(n.value, (bool, int, float, complex))
        if isinstance(n, ast.BinOp):
            return closed(n.left) and closed(n.right)
        if isinstance(n, ast.UnaryOp) and isinstance(n.op, (ast.USub, ast.UAdd, ast.Invert)):
            return closed(n.operand)
        return False

    def walk(n):
        if isinstance(n, ast.BinOp) and closed(n):
            out.append(n)
            return
        for c in ast.iter_child_nodes(n):
            walk(c)
    walk(tree)
    return out


def check_program(ctx, src, stage, do_oracle=True):
    """Returns (request line, impl text, oracle violation or None)."""
    try:
        tree = ast.parse(src)
    except (SyntaxError, ValueError):
        return None
    impl = fold_impl(src)
    if impl is None:
        return None
    binop, neg = build_oracle(tree)
    try:
        if any(isinstance(n, ast.JoinedStr) and any(isinstance(m, ast.BinOp) for m in ast.walk(n)) for n in ast.walk(tree)):
            raise pyast.OutOfModel('arithmetic inside an f-string (f-strings are opaque to the model)')
        line = 'fold %s %s' % (enc_oracle(binop, neg), pyast.enc_module(tree))
    except pyast.OutOfModel as e:
        ctx.bump('out_of_model', str(e))
        line = None
    viol = None
    if do_oracle and not impl.startswith('EXC:'):
        # every maximal literal expression: same outcome before and after, position by position
        try:
            out_tree = ast.parse(impl)
        except SyntaxError:
            out_tree = None
            viol = 'folded output does not parse: %r' % impl[:200]
        if out_tree is not None:
            unfolded = c02_unfolded(src)
            if unfolded is not None and len(impl) > len(unfolded):
                viol = 'folding made the output longer (%d > %d)' % (len(impl), len(unfolded))
            before = [ast.unparse(n) for n in literal_subexprs(tree)]
            # positions correspond: compare the whole program's literal-expression outcomes in order of appearance
            after_nodes = maximal_literals_in_order(out_tree)
            b_out = [outcome(s) for s in before]
            a_out = [outcome(ast.unparse(n)) for n in after_nodes]
            if len(a_out) != len(b_out):
                # a folded expression became a plain literal; align by evaluating positions through a skeleton comparison
                a_out = align_outcomes(tree, out_tree)
            for orig, repl, why in not_left_alone(tree, out_tree):
                viol = 'literal expression %s %s and is not left as it is: the output has %s in its place' % (orig[:80], why, repl[:80])
            if a_out is not None:
                for (kb, vb), (ka, va), s in zip(b_out, a_out, before):
                    if kb == 'skip' or ka == 'skip':
                        continue
                    if kb != ka or (kb == 'exc' and vb != va) or (kb == 'ok' and not same_value(vb, va)):
                        viol = 'literal expression %s evaluates to %r before and %r after folding' % (s[:80], (kb, vb), (ka, va))
                        break
    elif do_oracle and impl.startswith('EXC:'):
        viol = 'minify(constant_folding) raised %s' % impl[4:]
    return line, impl, viol


_UNFOLDED = {}


def c02_unfolded(src):
    import python_minifier
    if src not in _UNFOLDED:
        if len(_UNFOLDED) > 20000:
            _UNFOLDED.clear()
        try:
            _UNFOLDED[src] = python_minifier.minify(src, **c02.ALL_OFF)
        except Exception:
            _UNFOLDED[src] = None
    return _UNFOLDED[src]


def maximal_literals_in_order(tree):
    return literal_subexprs(tree)


def align_outcomes(tree, out_tree):
    """Walk both trees in parallel; at each maximal literal BinOp of the input, take the corresponding node of the output."""
    res = []

    def closed_binop(n):
        return n in closed_set

    closed_set = set(map(id, literal_subexprs(tree)))

    def walk(a, b):
        if id(a) in closed_set:
            res.append(outcome(ast.unparse(b)))
            return True
        if type(a) is not type(b):
            return False
        for f in a._fields:
            x, y = getattr(a, f, None), getattr(b, f, None)
            if isinstance(x, ast.AST):
                if not isinstance(y, ast.AST) or not walk(x, y):
                    return False
            elif isinstance(x, list):
                if not isinstance(y, list) or len(x) != len(y):
                    return False
                for p, q in zip(x, y):
                    if isinstance(p, ast.AST):
                        if not isinstance(q, ast.AST) or not walk(p, q):
                            return False
        return True
    return res if walk(tree, out_tree) else None


def not_left_alone(tree, out_tree):
    """the maximal literal expressions of the input whose evaluation raises or yields NaN, with what stands in their place in the
    output when that is no longer the same operation (its operands may have been folded; the expression itself must stay)"""
    bad = []
    closed_set = set(map(id, literal_subexprs(tree)))

    def is_nan(v):
        return (isinstance(v, float) and v != v) or (isinstance(v, complex) and (v.real != v.real or v.imag != v.imag))

    def walk(a, b):
        if id(a) in closed_set:
            kind, v = outcome(ast.unparse(a))
            if (kind == 'exc' or (kind == 'ok' and is_nan(v))) and not (isinstance(b, ast.BinOp) and type(b.op) is type(a.op)):
                bad.append((ast.unparse(a), ast.unparse(b), 'raises ' + str(v) if kind == 'exc' else 'is NaN'))
            return True
        if type(a) is not type(b):
            return False
        for f in a._fields:
            x, y = getattr(a, f, None), getattr(b, f, None)
            if isinstance(x, ast.AST):
                if not isinstance(y, ast.AST) or not walk(x, y):
                    return False
            elif isinstance(x, list):
                if not isinstance(y, list) or len(x) != len(y):
                    return False
                for p, q in zip(x, y):
                    if isinstance(p, ast.AST):
                        if not isinstance(q, ast.AST) or not walk(p, q):
                            return False
        return True
    walk(tree, out_tree)
    return bad


def gen_literal(rng, depth):
    if depth <= 0 or rng.random() < 0.25:
        return rng.choice(POOL[rng.choice(KINDS)])
    if rng.random() < 0.15:
        return '(%s%s)' % (rng.choice(['+', '-', '~', 'not ', '+', '-']), gen_literal(rng, depth - 1))
    op = rng.choice(list(OPS))
    l, r = gen_literal(rng, depth - 1), gen_literal(rng, depth - 1)
    if op == 'Pow':
        r = rng.choice(['2', '3', '0', '-1', '0.5'])
    if op in ('LShift', 'RShift') and rng.random() < 0.9:
        r = rng.choice(['0', '1', '3', '8', '64', '100', '-1', '10000', '100000'])
    return '(%s %s %s)' % (l, OPS[op], r)


def run_batch(ctx, programs, stage):
    reqs, keep = [], []
    for src in programs:
        r = check_program(ctx, src, stage)
        if r is None:
            ctx.bump('generator', 'rejected')
            continue
        line, impl, viol = r
        ctx.count()
        unf = c02_unfolded(src)
        if unf is not None and impl != unf:
            ctx.mark_nontrivial(src)
            ctx.bump('folded', 'changed')
        else:
            ctx.bump('folded', 'unchanged')
        if viol:
            ctx.add_violation({'input': {'source': src}, 'what': viol, 'found_by': stage, 'oracle': 'eval'})
        if line is not None:
            reqs.append(line)
            keep.append((src, impl))
    answers = ctx.driver.ask(reqs) if reqs else []
    diffs = 0
    for (src, impl), ans in zip(keep, answers):
        model = sexp.dec_str(ans[3:]) if ans.startswith('ok ') else ans
        if model != impl:
            diffs += 1
            ctx.add_broken('correspondence', 'fold:%s' % stage, 'source=%r model=%r impl=%r' % (src[:200], model[:200], impl[:200]))
    if keep:
        ctx.sample({'stage': 'fold:' + stage, 'source': keep[-1][0], 'impl': keep[-1][1]})
    ctx.stage('fold:' + stage, cases=len(keep), diffs=diffs)
    return diffs


def pyint_validation(ctx, n):
    rng = ctx.rng
    reqs, expect = [], []
    vals = [0, 1, -1, 2, -2, 3, 7, -7, 255, -256, 2 ** 31, -2 ** 31, 2 ** 64 - 1, -(2 ** 64), 10 ** 30, -10 ** 30 + 7]
    for _ in range(n):
        op = rng.choice(['Add', 'Sub', 'Mult', 'Mod', 'LShift', 'RShift', 'BitOr', 'BitXor', 'BitAnd', 'FloorDiv', 'MatMult'])
        a = rng.choice(vals) if rng.random() < 0.5 else rng.randint(-10 ** rng.randint(1, 40), 10 ** rng.randint(1, 40))
        b = rng.choice(vals) if rng.random() < 0.5 else rng.randint(-10 ** rng.randint(1, 12), 10 ** rng.randint(1, 12))
        if op in ('LShift', 'RShift'):
            b = rng.choice([0, 1, 2, 5, 31, 64, 100, -1, -5, 1000])
        try:
            e = str(PYOPS[op](a, b))
        except Exception:
            e = 'err'
        reqs.append('pyint.eval %s %d %d' % (op, a, b))
        expect.append(e)
    answers = ctx.driver.ask(reqs)
    bad = 0
    for r, e, a in zip(reqs, expect, answers):
        ctx.count()
        if a != 'ok ' + e:
            bad += 1
            ctx.add_broken('spec', 'PyInt.eval disagrees with CPython', '%s -> model %s, CPython %s' % (r, a, e))
    ctx.stage('pyint_validation', cases=len(reqs), disagreements=bad)


def exhaustive_programs():
    progs = []
    for op in OPS:
        for lk in KINDS:
            for rk in KINDS:
                l, r = POOL[lk][len(op) % len(POOL[lk])], POOL[rk][(len(op) + 1) % len(POOL[rk])]
                if op == 'Pow' and rk in ('big', 'float', 'complex'):
                    r = '2'
                if op in ('LShift', 'RShift') and rk == 'big':
                    r = '100'
                progs.append('x = %s %s %s\ny = %s %s %s' % (l, OPS[op], r, POOL[lk][0], OPS[op], POOL[rk][-1] if not (op in ('Pow', 'LShift', 'RShift') and rk in ('big', 'float', 'complex')) else '3'))
    extra = ['x = 1 + 2', 'x = 10 * 100', 'x = 1000 * 1000', 'x = 2 << 100', 'x = 1 << 20000', 'x = 0 << 1000000', 'x = 5 // 0', 'x = 5 % 0',
             'x = 1 << -1', 'x = True & False', 'x = True | True', 'x = True ^ True', 'x = True + True', 'x = None + 1', 'x = 1 @ 2',
             'x = 0.1 + 0.2', 'x = 1e308 * 10', 'x = -1e308 * 10' if False else 'x = 1e308 * -10', 'x = 1e999 - 1e999', 'x = 0.0 * -1',
             'x = 5 - 10', 'x = 5.0 - 10', 'x = 1j * 1j', 'x = 1 + 2j', 'x = 1j - 1j', 'x = 0 - 1j', 'x = 3 * (4 + 5)', 'x = (1 + 2) * (3 + 4)',
             'x = 60 * 60 * 24', 'x = 60 * 60 * 24 * 365', 'x = 1024 * 1024 * 1024', 'x = 2 * 3.5', 'x = 7 // 2 * 2.0', 'x = 10 - 20 + 30',
             'x = (5 - 10).real', 'x = (5 - 10) ** 2', 'x = 2 ** (5 - 10)', 'x = -(5 - 10)', 'x = a[5 - 10]', 'x = f(5 - 10)', 'x = (1 + 1).bit_length()',
             "x = f'{1 + 1}'", 'x = 9999999999 + 1', 'x = 0xffffffffffff + 1', 'x = 16 * 16 * 16 * 16 * 16 * 16 * 16 * 16 * 16 * 16 * 16',
             'def f(a=1 + 2, *, b=3 * 4) -> 5 + 6: pass', 'class A(B[1 + 2]): x: 1 + 2 = 3 + 4', '@d(1 + 2)\ndef f(): return 1 + 2',
             'match a:\n case 1 + 2j: pass\n case b if 1 + 2: pass', 'x = [i for i in range(1 + 2) if 3 + 4]', 'def f[T: 1 + 2](): pass',
             'type X = 1 + 2', 'x = 1 if 2 + 3 else 4 + 5', 'lambda a=1 + 2: 3 + 4', 'x = {1 + 2: 3 + 4, **{5 + 6: 7}}', 'x = "a" + "b"', 'x = b"a" * 3',
             'x = 1 + 2 + a', 'x = a + 1 + 2', 'x = a + (1 + 2)', 'x = 1.5 + 2.5', 'x = 0.5 + 0.5', 'x = 100.0 * 10', 'x = 1e16 + 1.0', 'x = 4 - 4.0',
             'x = False - True', 'x = True * 10', 'x = 10 % 3 - 5 % 3', 'x = -7 // 2', 'x = 7 // -2', 'x = -7 % 3', 'x = 7 % -3', 'x = 6 & 3 | 8 ^ 1',
             # NaN-valued and raising expressions with long spellings (anything would be shorter), also where builtins are rebound
             'x = 1e999 % 1234567.5', 'x = 1e999 // 1234567.25', 'x = (1e999 - 1e999) * 123456.789', 'x = 1e999 * 0 + 1234567.125', 'x = -1e999 + 1e999 - 1234567.5',
             'def scale(value, float=False):\n    limit = 1e999 % 1234567.5\n    return value, limit', 'float = int\nx = 1e999 // 1234567.25 + 0.0',
             'x = 123456789 // (1234567 - 1234567)', 'x = 1234567.5 % (0.5 - 0.5)', 'x = 2.5 ** 123456789 * 1.0', 'x = (1e999 - 1e999) + 1j * 1234567',
             'x = 1 >> 100000000', 'x = 10 ** 30 >> 1000000', 'x = 1 << 4300 * 4', 'x = 123456789 * 987654321 * 123456789 * 987654321']
    return progs + extra


def multi_statement_programs(rng, n_random):
    """several foldable expressions in ONE module: operations with the same operator whose operands are equal as numbers but
    of different types (2 / 2.0 / True / 2+0j), in every order, so that anything remembered from one fold is wrong for the next"""
    progs = []
    ops = ['+', '-', '*', '%', '//', '&', '|', '^', '<<', '>>']
    spell = {'int': lambda v: str(v), 'float': lambda v: repr(float(v)), 'bool': lambda v: {0: 'False', 1: 'True'}.get(v), 'complex': lambda v: '(%s+0j)' % v}
    for op in ops:
        for (x, y) in [(1, 1), (2, 2), (1, 0), (3, 5), (4, 2), (0, 1)]:
            stmts = []
            for kx in ('int', 'float', 'bool', 'complex'):
                for ky in ('int', 'float', 'bool'):
                    a, b = spell[kx](x), spell[ky](y)
                    if a is None or b is None:
                        continue
                    stmts.append('v%d = %s %s %s' % (len(stmts), a, op, b))
            for order in (stmts, list(reversed(stmts))):
                progs.append('\n'.join(order) + '\n')
            rng.shuffle(stmts)
            progs.append('\n'.join(stmts[:5]) + '\n')
            progs.append('w = [%s]\n' % ', '.join(st.split(' = ', 1)[1] for st in stmts[:6]))
            progs.append('a = (%s) * 10\nb = (%s) * 10.0\n' % (stmts[0].split(' = ', 1)[1], stmts[1].split(' = ', 1)[1]))
    for _ in range(n_random):
        progs.append('\n'.join('r%d = %s' % (i, gen_literal(rng, rng.randint(1, 3))) for i in range(rng.randint(2, 5))) + '\n')
    return progs


def length_boundary_programs():
    """literal expressions whose value prints one character longer than / as long as / one character shorter than the
    expression, as an operand (either side) of every binary operator next to a name: whether parentheses are needed there
    differs by operator, and the "not longer" rule must use the text that is really printed; and unary operators applied
    to literals of every type (a unary plus is not the identity on bools, a `not` is not arithmetic)"""
    out = []
    for u in ('+', '-', '~', 'not '):
        for operand in ('True', 'False', 'None', '1', '0', '2.5', '3j', '(1+2)', '(True|False)'):
            for ctx_ in ('x = {U}{O}', 'x = {U}{O} | False', 'x = True & {U}{O}', 'x = ({U}{O}) + 1', 'x = [{U}{O}, {U}{U}{O}]', 'x = 2 * {U}{O} * 3'):
                out.append(ctx_.replace('{U}', u).replace('{O}', operand))
    cands = ['1<<17', '1<<18', '3<<16', '255<<16', '7<<15', '1<<13', '1<<14', '1<<16', '10*10', '9*9', '99+1', '5-10', '1-2', '0-1', '2*5', '4//1',
             '7%8', '1|2', '6&3', '5^1', '100*100', '1000*1000', '12*12*12', '2.5*2', '1.5+1.5', '10-10.0', '1j*1j', '8>>1', '1<<10', '1<<9']
    ops = ['+', '-', '*', '/', '//', '%', '**', '<<', '>>', '&', '|', '^', '@']
    for e in cands:
        for op in ops:
            out.append('x = some_name %s %s' % (op, e))
            out.append('x = %s %s some_name' % (e, op))
        out.append('x = -(%s)' % e)
        out.append('x = some_name[%s]' % e)
        out.append('x = some_name if %s else other' % e)
        out.append('x = (%s).real' % e)
        out.append('x = some_name < %s' % e)
        out.append('x = some_name and %s' % e)
    return out


def run(ctx):
    pyint_validation(ctx, ctx.scale(600, 6000))
    lb = length_boundary_programs()
    ctx.exhaustive['length_boundary_expression_x_parent_operator_x_side'] = len(lb)
    run_batch(ctx, lb, 'length-boundary')
    run_batch(ctx, multi_statement_programs(ctx.rng, ctx.scale(60, 1500)), 'multi-statement')
    ex = exhaustive_programs()
    ctx.exhaustive['operator_x_operand_kinds_and_fixed_cases'] = len(ex)
    run_batch(ctx, ex, 'exhaustive')
    progs = []
    for _ in range(ctx.scale(500, 8000)):
        e = gen_literal(ctx.rng, ctx.rng.randint(1, 5))
        progs.append(ctx.rng.choice(CONTEXTS).format(e))
    run_batch(ctx, progs, 'random')
    # real code: corpus modules folded vs not (only the length side of the property + output parses)
    for k in ctx.known:
        if k.get('replay_source'):
            r = check_program(ctx, k['replay_source'], 'known')
            if r and r[2]:
                ctx.add_violation({'input': {'source': k['replay_source']}, 'what': r[2], 'found_by': 'known', 'oracle': 'eval'})


def search(ctx):
    progs = []
    for _ in range(6000):
        e = gen_literal(ctx.rng, ctx.rng.randint(1, 4))
        progs.append('x = ' + e)
    for i in range(0, len(progs), 500):
        if ctx.violations or ctx.time_left() < 10:
            break
        for src in progs[i:i + 500]:
            r = check_program(ctx, src, 'search')
            if r and r[2]:
                ctx.add_violation({'input': {'source': src}, 'what': r[2], 'found_by': 'search', 'oracle': 'eval'})


def replay(ctx, data):
    inp = data.get('input') or {}
    if 'source' in inp:
        r = check_program(ctx, inp['source'], 'replay')
        return bool(r and r[2])
    return bool(data.get('broken'))

"""Shared by C13/C14/C15: documented flag meaning (independent Python transcription of the docs),
scenario generators and the model-vs-implementation correspondence for the command line tool."""
import itertools
import os
import shutil
import tempfile

import clirun
import sexp

DOC_FLAGS = {
    '--no-combine-imports': ('combine_imports', False),
    '--no-remove-pass': ('remove_pass', False),
    '--remove-literal-statements': ('remove_literal_statements', True),
    '--no-hoist-literals': ('hoist_literals', False),
    '--no-rename-locals': ('rename_locals', False),
    '--rename-globals': ('rename_globals', True),
    '--no-remove-object-base': ('remove_object_base', False),
    '--no-convert-posargs-to-args': ('convert_posargs_to_args', False),
    '--no-preserve-shebang': ('preserve_shebang', False),
    '--remove-asserts': ('remove_asserts', True),
    '--remove-debug': ('remove_debug', True),
    '--no-remove-explicit-return-none': ('remove_explicit_return_none', False),
    '--no-remove-builtin-exception-brackets': ('remove_builtin_exception_brackets', False),
    '--no-constant-folding': ('constant_folding', False),
    '--no-remove-annotations': ('remove_annotations.*', False),
    '--no-remove-variable-annotations': ('remove_annotations.remove_variable_annotations', False),
    '--no-remove-return-annotations': ('remove_annotations.remove_return_annotations', False),
    '--no-remove-argument-annotations': ('remove_annotations.remove_argument_annotations', False),
    '--remove-class-attribute-annotations': ('remove_annotations.remove_class_attribute_annotations', True),
}
FLAGS = sorted(DOC_FLAGS)

DOC_DEFAULTS = {
    'combine_imports': True, 'remove_pass': True, 'remove_literal_statements': False, 'hoist_literals': True,
    'rename_locals': True, 'rename_globals': False, 'remove_object_base': True, 'convert_posargs_to_args': True,
    'preserve_shebang': True, 'remove_asserts': False, 'remove_debug': False, 'remove_explicit_return_none': True,
    'remove_builtin_exception_brackets': True, 'constant_folding': True,
    'remove_annotations.remove_variable_annotations': True, 'remove_annotations.remove_return_annotations': True,
    'remove_annotations.remove_argument_annotations': True,
    'remove_annotations.remove_class_attribute_annotations': False,
}
ANN_FIELDS = [k for k in DOC_DEFAULTS if k.startswith('remove_annotations.')]


def documented_flat(flags):
    """Flattened keyword values the documentation assigns to a set of flags."""
    kw = dict(DOC_DEFAULTS)
    for f in flags:
        k, v = DOC_FLAGS[f]
        if k != 'remove_annotations.*':
            kw[k] = v
    if '--no-remove-annotations' in flags:
        for k in ANN_FIELDS:
            kw[k] = False
    return kw


def documented_kwargs(flags):
    """Real keyword arguments for python_minifier.minify."""
    from python_minifier import RemoveAnnotationsOptions
    flat = documented_flat(flags)
    kw = dict((k, v) for k, v in flat.items() if '.' not in k)
    kw['remove_annotations'] = RemoveAnnotationsOptions(
        **dict((k.split('.', 1)[1], flat[k]) for k in ANN_FIELDS))
    return kw


def invalid_flags(flags):
    return '--remove-class-attribute-annotations' in flags and '--no-remove-annotations' in flags


def flatten_kwargs(kw):
    flat = {}
    for k, v in kw.items():
        if k == 'remove_annotations' and not isinstance(v, bool):
            for f in dir(v):
                if f.startswith('remove_') and not callable(getattr(v, f)):
                    flat['remove_annotations.' + f] = getattr(v, f)
        else:
            flat[k] = v
    return flat


def flag_subsets(ctx, n_random):
    """All subsets of size <= 2, a randomised 3-way sample, and random subsets of any size."""
    out = [()]
    out += [(f,) for f in FLAGS]
    out += list(itertools.combinations(FLAGS, 2))
    exhaustive = len(out)
    triples = list(itertools.combinations(FLAGS, 3))
    ctx.rng.shuffle(triples)
    out += triples[:n_random]
    for _ in range(n_random):
        k = ctx.rng.randint(3, len(FLAGS))
        out.append(tuple(sorted(ctx.rng.sample(FLAGS, k))))
    return out, exhaustive


class Scratch(object):
    """A scratch directory outside /repo and /verif, removed on exit."""

    def __enter__(self):
        self.path = tempfile.mkdtemp(prefix='pmv-cli-')
        return self.path

    def __exit__(self, *a):
        shutil.rmtree(self.path, ignore_errors=True)


# ---------------------------------------------------------------- cli.kw correspondence

def kw_correspondence(ctx, subsets):
    """Real main() with a spy minify vs. the Lean model's forwarding, per flag subset."""
    reqs, cases = [], []
    with Scratch() as d:
        with open(os.path.join(d, 'm.py'), 'w') as f:
            f.write('pass\n')
        for flags in subsets:
            seen = {}

            def spy(source, **kw):
                seen['kw'] = kw
                return ''
            order = list(flags)
            ctx.rng.shuffle(order)
            # repeat a flag sometimes: repetition must not matter
            if order and ctx.rng.random() < 0.3:
                order.append(ctx.rng.choice(order))
            pos = ctx.rng.randint(0, len(order))
            argv = order[:pos] + ['m.py'] + order[pos:]
            r = clirun.run_cli(argv, d, minify=spy)
            cases.append((flags, argv, r, seen.get('kw')))
            reqs.append('cli.kw ' + sexp.lst([sexp.enc_str(a) for a in argv]))
    answers = ctx.driver.ask(reqs)
    diffs = 0
    for (flags, argv, r, kw), ans in zip(cases, answers):
        ctx.count()
        ctx.bump('kw_flag_count', str(len(flags)))
        if kw is None:
            # implementation rejected the combination before calling minify
            if not invalid_flags(flags):
                ctx.add_broken('correspondence', 'cli.kw:' + ' '.join(argv),
                               'implementation exited %r without calling minify; model forwards' % r['exit'])
                diffs += 1
            else:
                ctx.bump('kw_outcome', 'rejected')
            continue
        ctx.bump('kw_outcome', 'forwarded')
        flat = flatten_kwargs(dict((k, v) for k, v in kw.items()
                                   if k not in ('filename', 'preserve_locals', 'preserve_globals')))
        impl = ' '.join('%s=%d' % (k, 1 if flat[k] else 0) for k in sorted(flat))
        model = ans[3:] if ans.startswith('ok ') else ans
        model = ' '.join(sorted(model.split()))
        if flags:
            ctx.mark_nontrivial('kw:' + ' '.join(flags))
        if impl != model:
            diffs += 1
            ctx.add_broken('correspondence', 'cli.kw:' + ' '.join(argv), 'model=%s impl=%s' % (model, impl))
        # oracle on the real code: forwarded == documented (independent transcription)
        doc = documented_flat(flags)
        if any(bool(flat.get(k)) != v for k, v in doc.items()) or set(flat) != set(doc) or any(
                not isinstance(flat[k], bool) for k in flat):
            wrong = sorted(k for k in set(doc) | set(flat) if flat.get(k) is not doc.get(k))
            ctx.add_violation({'input': {'argv': argv}, 'what': 'flag forwarding differs from documentation',
                               'expected': doc, 'observed': dict((k, repr(flat.get(k))) for k in wrong),
                               'found_by': 'enumeration', 'oracle': 'kw'})
    ctx.sample({'stage': 'cli.kw', 'argv': cases[-1][1], 'model': answers[-1][:200]})
    return diffs


# ---------------------------------------------------------------- cli.run correspondence

NAMES = ['a.py', 'b.pyw', 'c.txt', 'd.pyc', 'e.py.bak', 'py', 'f.PY', 'g.py', '.py', 'h.pyw.py']
CONTENTS = [b'', b'x=1\n', b'print("hello")\n', b'# comment only\n', b'\xff\xfe bad', b'y = 2  # sp\n',
            'z="éé"\n'.encode('utf-8'), b'def f():\n    return None\n']


def gen_tree(ctx):
    """Random small tree: list of (relpath, bytes); directories implied."""
    rng = ctx.rng
    files = {}
    dirs = ['', 'pkg', 'pkg/sub', 'other']
    for _ in range(rng.randint(1, 7)):
        d = rng.choice(dirs)
        n = rng.choice(NAMES)
        files[(d + '/' + n) if d else n] = rng.choice(CONTENTS)
    return files


def gen_api_table(ctx, contents):
    """For each distinct content decide the fake minify result: a text whose utf-8 length is
    below / equal to / above the source length, or a failure."""
    rng = ctx.rng
    table = {}
    for c in contents:
        kind = rng.choice(['shorter', 'equal', 'longer', 'fail', 'shorter', 'nonascii'])
        n = len(c)
        if kind == 'fail':
            table[c] = None
        elif kind == 'shorter':
            table[c] = 'm' * max(0, n - rng.randint(1, 3))
        elif kind == 'equal':
            table[c] = 'e' * n
        elif kind == 'longer':
            table[c] = 'L' * (n + rng.randint(1, 2))
        else:
            # characters < bytes: char count below n may still exceed n in bytes
            k = max(1, n // 2 + rng.randint(0, 1))
            table[c] = 'é' * k
    # minify is not idempotent in general: some results can be minified further
    for c in list(table):
        out = table[c]
        if out is not None and len(out) > 1 and rng.random() < 0.5:
            again = out.encode('utf-8')
            if again not in table:
                table[again] = 'i' * (len(again) - 1)
    return table


def gen_scenario(ctx):
    rng = ctx.rng
    files = gen_tree(ctx)
    mode = rng.choice(['inplace', 'inplace', 'output', 'stdout', 'stdin', 'stdin-output', 'invalid'])
    paths = sorted(files)
    # the --output target may exist already, longer than anything written in this run (an earlier result for a larger module)
    if rng.random() < 0.5:
        files[rng.choice(['out.min.py', 'o.py'])] = rng.choice(CONTENTS) + b'# previous result ' + b'p' * rng.randint(0, 80) + b'\n'
    dirs = sorted(set(os.path.dirname(p) for p in paths if os.path.dirname(p)) | set(['pkg'] if any(p.startswith('pkg/') for p in paths) else []))
    args = []
    stdin = b''
    if mode in ('stdin', 'stdin-output'):
        args = ['-']
        stdin = rng.choice(CONTENTS)
        if mode == 'stdin-output':
            args += [rng.choice(['--output', '-o']), 'out.min.py']
    elif mode == 'inplace':
        k = rng.randint(1, 3)
        pool = paths + dirs + (['missing.py'] if rng.random() < 0.15 else [])
        args = [rng.choice(pool) for _ in range(k)]
        if rng.random() < 0.6:
            args = list(dict.fromkeys(args))       # otherwise: the same path may be given twice, or a directory and a file inside it
        args.insert(rng.randint(0, len(args)), rng.choice(['--in-place', '-i']))
    elif mode == 'output':
        args = [rng.choice(paths), rng.choice(['--output', '-o']), 'out.min.py']
    elif mode == 'stdout':
        args = [rng.choice(paths + (['missing.py'] if rng.random() < 0.1 else []))]
    else:
        choice = rng.randint(0, 9)
        if choice == 6:
            args = [rng.choice(paths), '-']
        elif choice == 7:
            args = [rng.choice(paths + dirs), '-', rng.choice(['--in-place', '-i'])]
            if rng.random() < 0.5:
                args.insert(0, args.pop())
        elif choice == 8:
            args = [rng.choice(paths), rng.choice(paths), '-', '--in-place']
        elif choice == 9:
            args = [rng.choice(paths), '-', '--output', 'o.py']
        elif choice == 0:
            args = ['-', rng.choice(paths)]
        elif choice == 1:
            args = ['-', '--in-place']
        elif choice == 2:
            args = [rng.choice(paths), rng.choice(paths + ['zz.py'])]
        elif choice == 3 and dirs:
            args = [rng.choice(dirs)]
        elif choice == 4:
            args = [rng.choice(paths), '--remove-class-attribute-annotations', '--no-remove-annotations']
        else:
            args = [rng.choice(paths), '--in-place', '--output', 'o.py']
    # sprinkle boolean flags (they must not influence the main loop); never between an option and its value
    for _ in range(rng.randint(0, 2)):
        f = rng.choice(FLAGS)
        if f in args or invalid_flags(set(args) | {f}):
            continue
        slots = [i for i in range(len(args) + 1) if i == 0 or args[i - 1] not in ('--output', '-o')]
        args.insert(rng.choice(slots), f)
    args2 = args
    force = rng.random() < 0.2
    contents = set(files.values()) | {stdin}
    api = gen_api_table(ctx, contents)
    return {'files': files, 'args': args2, 'stdin': stdin, 'force': force, 'api': api, 'mode': mode}


def run_scenario_impl(sc):
    """Build the tree, run the real main() with the table-driven fake minify, return observations."""
    api = sc['api']

    def fake(source, **kw):
        src = bytes(source) if not isinstance(source, str) else source.encode('utf-8')
        out = api.get(src, None)
        if out is None:
            raise SyntaxError('pmv fake failure')
        return out

    with Scratch() as d:
        for rel, data in sc['files'].items():
            p = os.path.join(d, rel)
            os.makedirs(os.path.dirname(p), exist_ok=True)
            with open(p, 'wb') as f:
                f.write(data)
        # what os.walk yields for every directory argument (order is an input to the model)
        walk = {}
        isdirs = []
        old = os.getcwd()
        os.chdir(d)
        try:
            for a in sc['args']:
                if os.path.isdir(a):
                    isdirs.append(a)
                    lst = []
                    for root, _dirs, files in os.walk(a, followlinks=True):
                        for fn in files:
                            lst.append((os.path.join(root, fn), fn))
                    walk[a] = lst
        finally:
            os.chdir(old)
        r = clirun.run_cli(sc['args'], d, stdin=sc['stdin'], force=sc['force'], minify=fake)
        post = clirun.snapshot(d)
    return r, post, walk, isdirs


def scenario_request(sc, walk, isdirs):
    files = sc['files']
    api = sc['api']
    return 'cli.run %s %s %s %s %s %s %s %s' % (
        '1' if sc['force'] else '0',
        sexp.lst([sexp.enc_str(a) for a in sc['args']]),
        sexp.lst([sexp.enc_str(a) for a in isdirs]),
        sexp.lst([sexp.lst([sexp.enc_str(p), sexp.enc_bytes(files[p])]) for p in sorted(files)]),
        sexp.enc_bytes(sc['stdin']),
        sexp.lst([sexp.lst([sexp.enc_str(dn), sexp.lst([sexp.lst([sexp.enc_str(p), sexp.enc_str(n)]) for p, n in lst])])
                  for dn, lst in sorted(walk.items())]),
        sexp.lst([sexp.lst([sexp.enc_bytes(src), 'fail' if out is None else sexp.enc_bytes(out.encode('utf-8'))])
                  for src, out in sorted(api.items(), key=lambda kv: kv[0])]),
        sexp.lst([sexp.enc_str('.py'), sexp.enc_str('.pyw')]),
    )


def canon_model(ans):
    if not ans.startswith('ok '):
        return {'error': ans}
    items = sexp.parse(ans[3:])
    out = {}
    for it in items:
        if it[0] == 'exit':
            out['exit'] = int(it[1])
        elif it[0] == 'stdout':
            out['stdout'] = sexp.dec_bytes(it[1])
        elif it[0] == 'fs':
            out['fs'] = dict((sexp.dec_str(e[0]), sexp.dec_bytes(e[1])) for e in it[1:])
    return out


def invalid_combination(sc):
    """the documented invalid combinations, read off the argument list alone (and which paths are directories)"""
    args = list(sc['args'])
    paths, it = [], iter(args)
    output = None
    for a in it:
        if a in ('--output', '-o'):
            output = next(it, None)
        elif a == '-' or not a.startswith('-'):
            paths.append(a)
    in_place = '--in-place' in args or '-i' in args
    dirs = set(os.path.dirname(p) for p in sc['files'])
    alldirs = set()
    for d in dirs:
        while d:
            alldirs.add(d)
            d = os.path.dirname(d)
    if '-' in paths and len(paths) != 1:
        return 'stdin with other paths'
    if '-' in paths and in_place:
        return 'stdin with --in-place'
    if len(paths) > 1 and not in_place:
        return 'several paths without --in-place'
    if len(paths) == 1 and paths[0] in alldirs and not in_place:
        return 'a directory without --in-place'
    if in_place and output is not None:
        return '--in-place with --output'
    if '--remove-class-attribute-annotations' in args and '--no-remove-annotations' in args:
        return '--remove-class-attribute-annotations with --no-remove-annotations'
    return None


def check_scenario_oracles(ctx, sc, r, post):
    """Properties C14/C15 evaluated directly on what the real main() did (fake minify)."""
    files, api, force = sc['files'], sc['api'], sc['force']
    viol = []
    # C15: every file is pre or complete api(pre) (or the untouched source when larger)
    target = None
    for i, a in enumerate(sc['args'][:-1]):
        if a in ('--output', '-o'):
            target = sc['args'][i + 1]
    for p, pre in files.items():
        now = post.get(p)
        if p == target and sc['mode'] in ('output', 'stdin-output'):
            # an --output file that existed before: afterwards it is what it was, or the whole result for the source that was read
            pa = [a for a in sc['args'] if not a.startswith('-') and a != target]
            src = sc['stdin'] if sc['mode'] == 'stdin-output' else (files.get(pa[0]) if pa else None)
            allowed = [pre] + ([src] if src is not None else [])
            if src is not None and api.get(src) is not None:
                allowed.append(api[src].encode('utf-8'))
            if now not in allowed:
                viol.append(('C15', '--output file %s holds neither its earlier bytes nor the complete result for the source' % p))
            continue
        allowed = [pre]
        out = api.get(pre)
        if out is not None:
            allowed.append(out.encode('utf-8'))
        if now not in allowed:
            viol.append(('C15', 'file %s holds neither its original bytes nor the complete result' % p))
        if not force and now is not None and len(now) > len(pre):
            viol.append(('C14', 'file %s grew from %d to %d bytes' % (p, len(pre), len(now))))
        base = os.path.basename(p)
        targeted = base.endswith(('.py', '.pyw')) or p in sc['args']
        if now != pre and not targeted:
            viol.append(('C15', 'non-target file %s was modified' % p))
    for p in post:
        if p not in files and p not in ('out.min.py', 'o.py'):
            viol.append(('C15', 'unexpected new file %s' % p))
    # C13: an invalid combination is rejected with a non-zero exit before anything is written
    why = invalid_combination(sc)
    if why:
        if r['exit'] == 0:
            viol.append(('C13', 'invalid combination (%s) exits 0' % why))
        if any(post.get(p) != files.get(p) for p in set(post) | set(files)) or r['stdout']:
            viol.append(('C13', 'invalid combination (%s) rejected only after something was written' % why))
    if not force and sc['mode'] in ('stdin', 'stdout'):
        src_len = len(sc['stdin']) if sc['mode'] == 'stdin' else None
        if sc['mode'] == 'stdout':
            pa = [a for a in sc['args'] if not a.startswith('-')]
            if len(pa) == 1 and pa[0] in files:
                src_len = len(files[pa[0]])
        if src_len is not None and len(r['stdout']) > src_len:
            viol.append(('C14', 'stdout carries %d bytes for a %d byte source' % (len(r['stdout']), src_len)))
    # the --output file as this run left it (a run that did not name it, or that failed before writing, leaves an earlier file alone)
    if not force and sc['mode'] in ('output', 'stdin-output') and 'out.min.py' in post and r['exit'] == 0 \
            and post['out.min.py'] != files.get('out.min.py'):
        pa = [a for a in sc['args'] if not a.startswith('-') and a != 'out.min.py']
        src = sc['stdin'] if sc['mode'] == 'stdin-output' else (files.get(pa[0]) if pa else None)
        if src is not None and post['out.min.py'] is not None and len(post['out.min.py']) > len(src):
            viol.append(('C14', '--output file larger than the source'))
    return viol


def run_correspondence(ctx, n):
    """cli.run: n random scenarios; returns number of diffs. Also evaluates the C14/C15 oracles on
    each observed run and records violations for the property being checked."""
    scs, obs, reqs = [], [], []
    for _ in range(n):
        sc = gen_scenario(ctx)
        r, post, walk, isdirs = run_scenario_impl(sc)
        scs.append(sc)
        obs.append((r, post))
        reqs.append(scenario_request(sc, walk, isdirs))
    answers = ctx.driver.ask(reqs)
    diffs = 0
    for sc, (r, post), ans in zip(scs, obs, answers):
        ctx.count()
        ctx.bump('run_mode', sc['mode'])
        ctx.bump('run_exit', str(r['exit']))
        if r['exc']:
            ctx.bump('run_exception', r['exc'])
        m = canon_model(ans)
        impl = {'exit': r['exit']}
        if r['exit'] != 2:
            impl['stdout'] = r['stdout']
            impl['fs'] = post
        ok = (m.get('exit') == impl['exit']) and (impl['exit'] == 2 or (
            m.get('stdout') == impl['stdout'] and m.get('fs') == impl['fs']))
        if post != sc['files'] or r['stdout']:
            ctx.mark_nontrivial(repr((sorted(sc['files'].items()), sc['args'], sc['stdin'], sc['force'], sorted(sc['api'].items()))))
        if not ok:
            diffs += 1
            ctx.add_broken('correspondence', 'cli.run:%s' % ' '.join(sc['args']),
                           'model=%r impl=%r files=%r api=%r stdin=%r force=%r' % (m, impl, sc['files'], sc['api'], sc['stdin'], sc['force']))
        for prop, what in check_scenario_oracles(ctx, sc, r, post):
            if prop == ctx.prop:
                ctx.add_violation({'input': {'files': dict((k, v.decode('latin-1')) for k, v in sc['files'].items()),
                                             'args': sc['args'], 'stdin': sc['stdin'].decode('latin-1'),
                                             'force': sc['force'],
                                             'api': dict((k.decode('latin-1'), v) for k, v in sc['api'].items())},
                                   'what': what, 'found_by': 'random', 'oracle': 'scenario'})
    if scs:
        ctx.sample({'stage': 'cli.run', 'args': scs[-1]['args'], 'files': sorted(scs[-1]['files']),
                    'model': answers[-1][:300]})
    return diffs

"""Shared by C03/C04/C06/C09/C10: run the real minifier with renaming options on generated programs and
evaluate the alpha-equivalence oracle (tools/alpha.py) and property-specific predicates."""
import ast
import warnings

import alpha
import scopegen
import scopes
from props import c02

warnings.simplefilter('ignore')

RENAME_OPTION_SETS = [
    ('locals', dict(rename_locals=True)),
    ('globals', dict(rename_globals=True)),
    ('locals+globals', dict(rename_locals=True, rename_globals=True)),
    ('hoist', dict(hoist_literals=True)),
    ('all', dict(rename_locals=True, rename_globals=True, hoist_literals=True)),
    ('locals+hoist', dict(rename_locals=True, hoist_literals=True)),
]


def minify_with(src, extra):
    import python_minifier
    opts = dict(c02.ALL_OFF)
    opts.update(extra)
    try:
        return python_minifier.minify(src, **opts), None
    except RecursionError:
        return None, 'RecursionError'
    except Exception as e:
        return None, e.__class__.__name__


def shapes_of(src):
    s = set()
    try:
        tree = ast.parse(src)
    except Exception:
        return []
    for n in ast.walk(tree):
        if isinstance(n, (ast.ListComp, ast.SetComp, ast.DictComp, ast.GeneratorExp)):
            if any(isinstance(m, ast.NamedExpr) for m in ast.walk(n)):
                s.add('walrus-in-comprehension')
        if isinstance(n, ast.AnnAssign) and not n.simple and n.value is None and isinstance(n.target, ast.Name):
            s.add('annassign-paren-novalue')
        if isinstance(n, ast.ClassDef):
            for m in ast.walk(n):
                names = []
                if isinstance(m, ast.Name):
                    names = [m.id]
                elif isinstance(m, ast.arg):
                    names = [m.arg]
                elif isinstance(m, (ast.FunctionDef, ast.AsyncFunctionDef, ast.ClassDef)) and m is not n:
                    names = [m.name]
                elif isinstance(m, (ast.Global, ast.Nonlocal)):
                    names = list(m.names)
                elif isinstance(m, ast.alias):
                    names = [m.asname or m.name.split('.')[0]]
                if any(x.startswith('__') and not x.endswith('__') for x in names if isinstance(x, str)):
                    s.add('private-name-in-class')
            seen_bind = set()
            for st in n.body:
                for m in ast.walk(st):
                    if isinstance(m, (ast.FunctionDef, ast.AsyncFunctionDef, ast.Lambda, ast.ClassDef)) and m is not st:
                        pass
                aug = _aug_targets(n)
                for m in _class_level_names(st):
                    # (the target of an augmented assignment is read before it is written)
                    if (isinstance(m.ctx, ast.Load) or id(m) in aug) and m.id not in seen_bind:
                        # read before any class-level assignment: later assigned in this class body?
                        if any(isinstance(x, ast.Name) and isinstance(x.ctx, ast.Store) and x.id == m.id
                               for st2 in n.body for x in _class_level_names(st2)):
                            s.add('class-read-before-assign')
                    if isinstance(m.ctx, ast.Store):
                        seen_bind.add(m.id)
    return sorted(s)


def _aug_targets(cls):
    """ids of the Name nodes that are targets of augmented assignments anywhere below a class (read, then written)"""
    return set(id(a.target) for a in ast.walk(cls) if isinstance(a, ast.AugAssign) and isinstance(a.target, ast.Name))


def _class_level_names(stmt):
    """Name nodes of a class-body statement that belong to the class scope itself (not nested scopes), in source order."""
    out = []

    def walk(n):
        if isinstance(n, (ast.FunctionDef, ast.AsyncFunctionDef, ast.Lambda)):
            # only what is evaluated in the enclosing scope: decorators, defaults, annotations
            a = n.args
            parts = list(getattr(n, 'decorator_list', [])) + list(a.defaults) + [d for d in a.kw_defaults if d is not None]
            for arg in list(getattr(a, 'posonlyargs', [])) + a.args + a.kwonlyargs + [a.vararg, a.kwarg]:
                if arg is not None and arg.annotation is not None:
                    parts.append(arg.annotation)
            if getattr(n, 'returns', None) is not None:
                parts.append(n.returns)
            for part in parts:
                walk(part)
            return
        if isinstance(n, ast.ClassDef):
            for part in list(n.decorator_list) + list(n.bases) + [k.value for k in n.keywords]:
                walk(part)
            return
        if isinstance(n, (ast.ListComp, ast.SetComp, ast.DictComp, ast.GeneratorExp)):
            walk(n.generators[0].iter)        # the first iterable is evaluated in the enclosing scope
            return
        if isinstance(n, ast.Assign):
            walk(n.value)
            for t in n.targets:
                walk(t)
            return
        if isinstance(n, ast.Name):
            out.append(n)
        for c in ast.iter_child_nodes(n):
            walk(c)
    walk(stmt)
    return out


def programs(ctx, n_exhaustive, n_random, private=False):
    ex = scopegen.exhaustive(full=(ctx.tier == 'thorough'))
    if n_exhaustive is not None and len(ex) > n_exhaustive:
        # deterministic stratified sample: every (bind, ref) pair appears at least once in 'def' or 'module'
        ctx.rng.shuffle(ex)
        ex = ex[:n_exhaustive]
    else:
        ctx.exhaustive['scope_nestings_x_binding_forms_x_reference_positions'] = len(ex)
    rnd = scopegen.random_programs(ctx.rng, n_random)
    sib = scopegen.sibling_comprehension_programs()
    ctx.exhaustive['sibling_comprehension_programs'] = len(sib)
    decl = scopegen.declaration_programs()
    ctx.exhaustive['multi_name_declaration_programs'] = len(decl)
    short = scopegen.short_named(ex[:ctx.scale(250, 3000)] + sib[:ctx.scale(40, 210)])
    imp = scopegen.import_programs()
    par = ([('every-binding-form', scopegen.EVERY_BINDING)] + scopegen.parameter_programs() + scopegen.capture_programs()
           + scopegen.class_import_programs()[::(1 if ctx.tier == 'thorough' else 3)])
    priv = scopegen.private_name_programs() if private else []      # name mangling is a C03 matter (known finding F30)
    return decl + imp + par + priv + scopegen.export_programs() + sib + short + ex + rnd


def check_alpha(ctx, ident, src, oname, extra, prop_filter=None):
    """Run the minifier and the oracle; returns (out, problems)."""
    out, exc = minify_with(src, extra)
    ctx.count()
    ctx.bump('option_set', oname)
    if exc == 'RecursionError':
        ctx.bump('outcome', 'RecursionError')
        return None, []
    if exc is not None:
        ctx.bump('outcome', exc)
        return None, ['minify raised %s' % exc]
    ctx.bump('outcome', 'ok')
    if out != minify_with(src, {})[0]:
        ctx.mark_nontrivial(ident + '|' + oname + '|' + src)
    probs = alpha.check(src, out)
    # the class-body fallthrough corner (LOAD_NAME falls through to the global of the same spelling)
    if 'class-read-before-assign' in shapes_of(src) and extra.get('rename_globals'):
        probs = probs + class_fallthrough(src, out)
    if prop_filter is not None:
        probs = [p for p in probs if prop_filter(p)]
    return out, probs


def class_fallthrough(src, out):
    """A class-level name read before it is assigned in the class body denotes the *global* (or builtin) of that
    spelling at run time; if that global was renamed while the class-level name kept its spelling, the read breaks."""
    try:
        p, q = ast.parse(src), ast.parse(out)
    except Exception:
        return []
    probs = []
    proot, pocc, _ = scopes.build(p)
    qroot, qocc, _ = scopes.build(q)
    pbound = scopes.module_bound_names(proot)
    qbound = scopes.module_bound_names(qroot)
    for n in ast.walk(p):
        if isinstance(n, ast.ClassDef):
            seen = set()
            for st in n.body:
                aug = _aug_targets(n)
                for m in _class_level_names(st):
                    if (isinstance(m.ctx, ast.Load) or id(m) in aug) and m.id not in seen and m.id in pbound and m.id not in qbound:
                        if any(isinstance(x, ast.Name) and isinstance(x.ctx, ast.Store) and x.id == m.id
                               for st2 in n.body for x in _class_level_names(st2)):
                            probs.append('class-level read of %s falls through to the global %s, which the output renamed' % (m.id, m.id))
                    if isinstance(m.ctx, ast.Store):
                        seen.add(m.id)
    return probs


def cover_problems(module):
    """Hypothesis `cover` of theorem C03.renaming_preserves_resolution, checked on the real binding structures: every scope on
    Python's lookup path of a name occurrence (its own scope, then the enclosing function scopes, up to the scope of the
    binding it resolves to, per tools/scopes.py) is in the reservation scope the implementation computes for that binding."""
    import ast as _ast
    import scopes
    from python_minifier.rename.renamer import all_bindings, reservation_scope
    root, occs, _ = scopes.build(module)
    occ_of = dict((id(o.node), o) for o in occs if isinstance(o.node, _ast.Name))
    problems = []
    for namespace, binding in all_bindings(module):
        rs = set(id(n) for n in reservation_scope(namespace, binding))
        for node in binding.references:
            o = occ_of.get(id(node))
            if o is None:
                continue
            r = scopes.resolve(o.scope, o.name)
            s = o.scope
            path = [s]
            target = r[1] if r[0] in ('local', 'cell', 'class') else ()
            while s.path != target and s.parent is not None:
                s = s.parent
                if s.kind in scopes.FUNC_LIKE or s.path == target or s.kind == 'module':
                    path.append(s)
            for sc in path:
                if sc.kind in ('typeparams', 'typealias'):
                    continue
                if id(sc.node) not in rs:
                    problems.append('%s: lookup path scope %r of an occurrence in %r is not in the reservation scope of its binding' % (o.name, sc, o.scope))
                    break
    return problems


def assigner_correspondence(ctx, progs, flagsets):
    """Feed the binding structures produced by the real scope analysis to the Lean NameAssigner model and
    compare the names it chooses with those the real `rename` chooses (per binding, in all_bindings order)."""
    import rename_dump
    import sexp
    reqs, reals, meta = [], [], []
    for ident, src in progs:
        for (rl, rg, hl) in flagsets:
            try:
                module, pg, prefix = rename_dump.prepare(src, rl, rg, hl)
                line, pairs = rename_dump.dump(module, pg, prefix)
                if (rl, rg, hl) == flagsets[0]:
                    cp = cover_problems(module)
                    ctx.bump('cover', 'ok' if not cp else 'PROBLEM')
                    if cp:
                        ctx.add_violation({'input': {'source': src, 'options': {'rename_locals': rl, 'rename_globals': rg, 'hoist_literals': hl}},
                                           'what': 'the reservation scope of a binding does not cover the lookup path of one of its occurrences (hypothesis `cover` of T03.4): %s' % cp[0],
                                           'found_by': 'cover', 'oracle': 'cover', 'shapes': shapes_of(src)})
                real = rename_dump.real_names(module, pairs, pg, prefix)
            except RecursionError:
                ctx.bump('assigner', 'RecursionError')
                continue
            except Exception as e:
                ctx.bump('assigner', 'impl-raises-' + e.__class__.__name__)
                continue
            reqs.append(line)
            reals.append(real)
            meta.append((ident, src, (rl, rg, hl)))
    answers = ctx.driver.ask(reqs) if reqs else []
    diffs = 0
    for (ident, src, flags), real, ans in zip(meta, reals, answers):
        ctx.count()
        model = [sexp.dec_str(x) for x in ans[3:].split()] if ans.startswith('ok ') else ans
        if any(x.split('>')[0] != x.split('>')[1] for x in real):
            ctx.mark_nontrivial('assign|' + src + repr(flags))
        ctx.bump('assigner_bindings', str(min(len(real), 40) // 5 * 5))
        if model != real:
            diffs += 1
            d = [(a, b) for a, b in zip(real, model if isinstance(model, list) else [])] if isinstance(model, list) else model
            ctx.add_broken('correspondence', 'rename.assign:%s:%r' % (ident, flags),
                           'first differing binding impl/model: %r source=%r' % (
                               next(((a, b) for a, b in d if a != b), d) if isinstance(d, list) else d, src[:300]))
    if meta:
        ctx.sample({'stage': 'rename.assign', 'id': meta[-1][0], 'flags': meta[-1][2], 'names': reals[-1][:12]})
    ctx.stage('rename.assign', cases=len(meta), diffs=diffs)
    return diffs

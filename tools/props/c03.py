"""C03 — Renaming preserves which binding every name refers to."""
from props import rename_common as rc

META = {
    'rule': 'programs: every (outer scope x binding form x reference position x colliding global) combination from tools/scopegen.py '
            '(6337 programs; quick runs a seeded sample) + random modules over a pool of long colliding identifiers; each minified '
            'with 6 renaming option sets (other transforms off) and checked by the alpha-equivalence oracle (tools/alpha.py) built on '
            'the scoping specification tools/scopes.py, which is itself validated against the symtable module. non-trivial = the '
            'output differs from the unrenamed output; distinct by (program, option set)',
    'assumptions': ['tools/scopes.py is the specification of CPython scoping (validated against symtable on every run; private-name '
                    'mangling and PEP 695 annotation scopes are outside it)'],
    'modelled_not_verified': ['resolve_names.get_binding / get_nonlocal_namespace: Lean model over the dumped namespace tree (theorems get_binding_is_python_lookup, '
                              'class_bodies_skipped); the correspondence stage asks model and implementation for every Name of every program',
                              'mapper/bind (which names a namespace binds, which namespaces a binding reserves) are not modelled in Lean: covered by the oracle only',
                              'NameAssigner: Lean model of the assignment loop over dumped binding structures (see C03 theorems)'],
}


def spec_validation(ctx, progs):
    import scopes
    bad = 0
    n = 0
    for ident, src in progs:
        p = scopes.validate_against_symtable(src)
        if p is None:
            continue
        n += 1
        real = [x for x in p if 'resolved as' in x]
        if real:
            bad += 1
            ctx.add_broken('spec', 'scoping spec disagrees with symtable', '%s: %s' % (ident, real[:2]))
        ctx.bump('spec_validation', 'aligned' if not p else ('disagree' if real else 'unaligned'))
    ctx.stage('spec_validation', programs=n, disagreements=bad)
    ctx.count(n)


def run_programs(ctx, progs, option_sets, found_by):
    for ident, src in progs:
        if ctx.time_left() < 15:
            ctx.notes.append('stopped by budget in %s' % found_by)
            break
        for oname, extra in option_sets:
            out, probs = rc.check_alpha(ctx, ident, src, oname, extra)
            probs = [p for p in probs if not p.startswith('minify raised')]      # exceptions belong to C08
            if probs:
                ctx.add_violation({'input': {'source': src, 'options': extra}, 'what': '; '.join(probs[:3]), 'observed': (out or '')[:400],
                                   'found_by': found_by, 'oracle': 'alpha', 'shapes': rc.shapes_of(src)})
    if progs:
        ctx.sample({'stage': found_by, 'id': progs[-1][0], 'source': progs[-1][1][:300]})


import ast

# ---- get_binding against its Lean model (PMV.Resolve.getBinding; theorems get_binding_spec, class_bodies_skipped) ----

def resolver_correspondence(ctx, progs, found_by):
    """the real resolve_names.get_binding and the model on every Name of the same modules, over the namespace tree the real
    mapper / binder built (kinds, parents, bound names, global / nonlocal declarations)"""
    import resolver_corr as rcorr
    import sexp
    from python_minifier.ast_annotation import add_parent
    from python_minifier.rename import add_namespace, bind_names, resolve_names
    reqs, meta = [], []
    for ident, src in progs:
        try:
            m = ast.parse(src)
            add_parent(m)
            add_namespace(m)
            bind_names(m)
            resolve_names(m)
        except RecursionError:
            continue
        except SyntaxError:
            continue
        try:
            ordered, index, enc = rcorr.dump_namespaces(m)
            qs = rcorr.queries_of(m, index)
            [rcorr.real_home(x, ns, ordered) for x, ns in qs[:1]]
        except RecursionError:
            continue
        except Exception as e:
            ctx.add_broken('correspondence', 'resolve.get:' + ident, 'could not observe get_binding: %s: %s' % (e.__class__.__name__, str(e)[:200]))
            continue
        if not qs:
            continue
        reqs.append('resolve.get %s %s' % (enc, sexp.lst(['(%s %d)' % (sexp.enc_str(x), index[id(ns)]) for x, ns in qs])))
        meta.append((ident, src, ordered, qs))
    answers = ctx.driver.ask(reqs) if reqs else []
    total = diffs = deep = 0
    for (ident, src, ordered, qs), ans in zip(meta, answers):
        if not ans.startswith('ok'):
            ctx.add_broken('correspondence', 'resolve.get:' + ident, 'driver answered %r' % ans[:100])
            continue
        got = ans[3:].split()
        bad = []
        for (x, ns), g in zip(qs, got):
            total += 1
            real = rcorr.real_home(x, ns, ordered)
            model = None if g == '-' else int(g)
            if real is not None and real != 0 and ns is not ordered[real]:
                deep += 1
            if real != model:
                bad.append((x, real, model))
        ctx.count()
        if bad:
            diffs += 1
            ctx.add_broken('correspondence', 'resolve.get:' + ident,
                           'get_binding and the model (C03.get_binding_spec) disagree on %r (name, implementation home, model home) in %r' % (bad[:4], src[:500]))
    ctx.stage('resolver-correspondence:' + found_by, modules=len(meta), queries=total, resolved_in_an_enclosing_function=deep, diffs=diffs)


def run(ctx):
    progs = rc.programs(ctx, ctx.scale(900, None), ctx.scale(200, 3000), private=True)
    spec_validation(ctx, progs[:ctx.scale(400, 3000)])
    rc.assigner_correspondence(ctx, progs[:ctx.scale(700, 8000)], [(True, False, False), (True, True, True), (False, True, False)])
    resolver_correspondence(ctx, progs[:ctx.scale(900, 9000)], 'generated')
    osets = rc.RENAME_OPTION_SETS if ctx.tier == 'thorough' else [rc.RENAME_OPTION_SETS[i] for i in (0, 2, 4)]
    run_programs(ctx, progs, osets, 'generated')
    for k in ctx.known:
        if k.get('replay_source'):
            run_programs(ctx, [(k['id'], k['replay_source'])], rc.RENAME_OPTION_SETS, 'known')
    # T01.13 (behaviour is preserved by the renaming of function locals): the model of applying a renaming against
    # minify(rename_locals only), and the theorem's side condition on the renaming the real renamer chose
    from props import c01
    import rungen
    c01.renaming_application(ctx, [('core%d' % i, rungen.core_program(ctx.rng)) for i in range(ctx.scale(80, 2000))], 'generated-core')


def search(ctx):
    progs = rc.programs(ctx, 3000, 1500)
    run_programs(ctx, progs, rc.RENAME_OPTION_SETS, 'search')


def replay(ctx, data):
    inp = data.get('input') or {}
    if 'source' in inp:
        out, probs = rc.check_alpha(ctx, 'replay', inp['source'], 'replay', inp.get('options') or {})
        return bool(probs)
    return bool(data.get('broken'))

"""C03 — Renaming preserves which binding every name refers to."""
from props import rename_common as rc

META = {
    'rule': 'programs: every (outer scope x binding form x reference position x colliding global) combination from tools/scopegen.py '
            '(6337 programs; quick runs a seeded sample) + random modules over a pool of long colliding identifiers; each minified '
            'with 6 renaming option sets (other transforms off) and checked by the alpha-equivalence oracle (tools/alpha.py) built on '
            'the scoping specification tools/scopes.py, which is itself validated against the symtable module. non-trivial = the '
            'output differs from the unrenamed output; distinct by (program, option set)',
    'assumptions': ['tools/scopes.py is the specification of CPython scoping (validated against symtable on every run; private-name '
                    'mangling and PEP 695 annotation scopes are outside it)'],
    'modelled_not_verified': ['mapper/bind/resolve (scope analysis of the minifier) are not yet modelled in Lean: covered by the oracle only',
                              'NameAssigner: Lean model of the assignment loop over dumped binding structures (see C03 theorems)'],
}


def spec_validation(ctx, progs):
    import scopes
    bad = 0
    n = 0
    for ident, src in progs:
        p = scopes.validate_against_symtable(src)
        if p is None:
            continue
        n += 1
        real = [x for x in p if 'resolved as' in x]
        if real:
            bad += 1
            ctx.add_broken('spec', 'scoping spec disagrees with symtable', '%s: %s' % (ident, real[:2]))
        ctx.bump('spec_validation', 'aligned' if not p else ('disagree' if real else 'unaligned'))
    ctx.stage('spec_validation', programs=n, disagreements=bad)
    ctx.count(n)


def run_programs(ctx, progs, option_sets, found_by):
    for ident, src in progs:
        if ctx.time_left() < 15:
            ctx.notes.append('stopped by budget in %s' % found_by)
            break
        for oname, extra in option_sets:
            out, probs = rc.check_alpha(ctx, ident, src, oname, extra)
            probs = [p for p in probs if not p.startswith('minify raised')]      # exceptions belong to C08
            if probs:
                ctx.add_violation({'input': {'source': src, 'options': extra}, 'what': '; '.join(probs[:3]), 'observed': (out or '')[:400],
                                   'found_by': found_by, 'oracle': 'alpha', 'shapes': rc.shapes_of(src)})
    if progs:
        ctx.sample({'stage': found_by, 'id': progs[-1][0], 'source': progs[-1][1][:300]})


def run(ctx):
    progs = rc.programs(ctx, ctx.scale(900, None), ctx.scale(200, 3000), private=True)
    spec_validation(ctx, progs[:ctx.scale(400, 3000)])
    rc.assigner_correspondence(ctx, progs[:ctx.scale(700, 8000)], [(True, False, False), (True, True, True), (False, True, False)])
    osets = rc.RENAME_OPTION_SETS if ctx.tier == 'thorough' else [rc.RENAME_OPTION_SETS[i] for i in (0, 2, 4)]
    run_programs(ctx, progs, osets, 'generated')
    for k in ctx.known:
        if k.get('replay_source'):
            run_programs(ctx, [(k['id'], k['replay_source'])], rc.RENAME_OPTION_SETS, 'known')
    # T01.13 (behaviour is preserved by the renaming of function locals): the model of applying a renaming against
    # minify(rename_locals only), and the theorem's side condition on the renaming the real renamer chose
    from props import c01
    import rungen
    c01.renaming_application(ctx, [('core%d' % i, rungen.core_program(ctx.rng)) for i in range(ctx.scale(80, 2000))], 'generated-core')


def search(ctx):
    progs = rc.programs(ctx, 3000, 1500)
    run_programs(ctx, progs, rc.RENAME_OPTION_SETS, 'search')


def replay(ctx, data):
    inp = data.get('input') or {}
    if 'source' in inp:
        out, probs = rc.check_alpha(ctx, 'replay', inp['source'], 'replay', inp.get('options') or {})
        return bool(probs)
    return bool(data.get('broken'))

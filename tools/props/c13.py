"""C13 — The command line tool writes exactly what the API would return."""
import os

import clirun
import sexp
from props import cli_common as cc

META = {
    'rule': 'flag subsets: all of size <=2 over the 19 documented flags (exhaustive) + random 3-subsets + random larger subsets, '
            'argv order shuffled with repetitions; main-loop scenarios: random trees x modes x fake minify tables; '
            'preserve-list spellings; real CLI vs real API on a source pool. non-trivial = at least one flag present / '
            'some byte written or file changed; distinct by hash of the full input',
    'assumptions': ['argparse abbreviations and --opt=value spellings are outside the model (canonical spellings only)',
                    'api(bytes) is abstract in the main-loop model: the real minify is exercised by the CLI-vs-API oracle'],
    'modelled_not_verified': ['argv tokenisation (options with values, positionals) is a hand model checked by correspondence only',
                              'sys.stdout path lines printed in --in-place/--output mode are not modelled'],
}

SOURCES = [
    'import os\nimport sys\ndef f(arg, /, *, kw: int = 1) -> int:\n    """doc"""\n    assert arg\n    if __debug__:\n        print(arg)\n    pass\n    return None\nclass A(object):\n    x: int = 1\n    y: int\nraise ValueError()\n',
    '#!/usr/bin/env python\n"module doc"\nlong_name = "abcabcabc" + "abcabcabc"\nprint(long_name, long_name, "abcabcabc", 5 * 1000)\n',
    'x=1\n',
    'def g(a):\n    value: str = "é" * 3\n    return value\n',
    # the size rule at its boundary: minified text has fewer characters than the source has bytes, but more bytes
    "x='é';True if 0in x else False",
    "x='éé';y=0in x",
    "x=1",
    "t='ééééééééééééééééééééé';0in t",
]


def split_correspondence(ctx, n):
    """--preserve-locals/--preserve-globals spellings: names received by a spy minify vs the model."""
    alphabet = ['a', 'bb', 'c_d', ' ', ',', '\t', 'é', 'x y', '\u00a0', '\u2003']
    reqs, impls, cases = [], [], []
    with cc.Scratch() as d:
        with open(os.path.join(d, 'm.py'), 'w') as f:
            f.write('pass\n')
        for i in range(n):
            nargs = ctx.rng.randint(1, 3)
            args = [''.join(ctx.rng.choice(alphabet) for _ in range(ctx.rng.randint(0, 6))) for _ in range(nargs)]
            if i == 0:
                args = ['a,b', 'c']
            if i == 1:
                args = [' a , b,,c ', ',']
            which = ctx.rng.choice(['--preserve-locals', '--preserve-globals'])
            argv = ['m.py']
            for a in args:
                argv += [which, a]
            seen = {}

            def spy(source, **kw):
                seen['kw'] = kw
                return ''
            r = clirun.run_cli(argv, d, minify=spy)
            if 'kw' not in seen:
                ctx.bump('split_outcome', 'argparse-rejected')   # e.g. value starting with '-' : not in model
                continue
            got = seen['kw']['preserve_locals' if which == '--preserve-locals' else 'preserve_globals']
            other = seen['kw']['preserve_globals' if which == '--preserve-locals' else 'preserve_locals']
            ws = sorted(set(ord(c) for a in args for c in a if c.isspace()))
            reqs.append('cli.split %s %s' % (sexp.enc_cps(ws), sexp.lst([sexp.enc_str(a) for a in args])))
            impls.append(list(got))
            cases.append((argv, other))
    answers = ctx.driver.ask(reqs)
    diffs = 0
    for (argv, other), impl, ans in zip(cases, impls, answers):
        ctx.count()
        model = [sexp.dec_str(x) for x in sexp.parse(ans[3:])[0]] if ans.startswith('ok ') else ans
        if impl:
            ctx.mark_nontrivial('split:' + repr(argv))
        if model != impl:
            diffs += 1
            ctx.add_broken('correspondence', 'cli.split:' + repr(argv), 'model=%r impl=%r' % (model, impl))
        if other != []:
            ctx.add_violation({'input': {'argv': argv}, 'what': 'a preserve flag leaked into the other list',
                               'observed': other, 'found_by': 'random', 'oracle': 'split'})
        # documented splitting, evaluated on the real code: comma separated, names stripped
        expect = [x.strip() for a in argv[2::2] for x in a.split(',') if x]
        if impl != expect:
            ctx.add_violation({'input': {'argv': argv}, 'what': 'preserve list not split as documented',
                               'expected': expect, 'observed': impl, 'found_by': 'random', 'oracle': 'split'})
    if cases:
        ctx.sample({'stage': 'cli.split', 'argv': cases[0][0], 'model': answers[0]})
    return diffs


# modules that are not plain UTF-8 (given as latin-1 text standing for the bytes): what the command line emits is still what
# minify() returns for those bytes — the module's own encoding declaration and byte order mark are minify()'s business
BYTE_SOURCES = [
    b"# -*- coding: latin-1 -*-\nname = 'caf\xe9 \xfc\xdf'\nprint(name, name)\n",
    b"#!/usr/bin/pyth\xf6n\n# -*- coding: latin-1 -*-\nvalue = 'abc'\nprint(value)\n",
    b"\xef\xbb\xbf#!/usr/bin/env python\nvalue  =  1\nprint(value)\n",
    b"\xef\xbb\xbfvalue  =  '\xc3\xa9'\nprint(value)\n",
    b"# coding: iso-8859-15\n#!/not/a/shebang\ncost = '\xa4 5'\nprint(cost)\n",
    b"#!/bin/sh \xa4\n# vim: set fileencoding=iso-8859-15 :\ncost = '\xa4'  # euro\nprint(cost)\n",
    b"# -*- coding: cp1252 -*-\nquote = '\x93x\x94'\nprint(quote)\n",
    b"# -*- coding: latin-1 -*-\nodd = '\xc3\xa9'\nprint(odd)\n",          # also valid UTF-8, with another meaning
]


def cli_vs_api(ctx, flags, src_text, mode='stdout', raw=False):
    """Oracle on the real code: bytes emitted by the CLI == utf-8 of minify(documented kwargs), subject
    to the size rule. Returns a violation dict or None."""
    import python_minifier
    src = src_text.encode('latin-1' if raw else 'utf-8')
    with cc.Scratch() as d:
        with open(os.path.join(d, 'm.py'), 'wb') as f:
            f.write(src)
        if mode == 'stdout':
            r = clirun.run_cli(list(flags) + ['m.py'], d)
            got = r['stdout']
        elif mode == 'stdin':
            r = clirun.run_cli(['-'] + list(flags), d, stdin=src)
            got = r['stdout']
        elif mode == 'stdin-output':
            r = clirun.run_cli(['-', '--output', 'o.py'] + list(flags), d, stdin=src)
            got = clirun.snapshot(d).get('o.py')
            if r['stdout']:
                got = (got or b'') + b'<<also on stdout>>' + r['stdout']
        elif mode == 'output':
            r = clirun.run_cli(['m.py', '--output', 'o.py'] + list(flags), d)
            got = clirun.snapshot(d).get('o.py')
        else:
            r = clirun.run_cli(['--in-place', 'm.py'] + list(flags), d)
            got = clirun.snapshot(d).get('m.py')
    if cc.invalid_flags(flags):
        if r['exit'] == 0 or (mode in ('stdout', 'stdin') and got) or (mode in ('output', 'stdin-output') and got is not None) or (
                mode == 'inplace' and got != src):
            return {'input': {'flags': list(flags), 'source': src_text, 'mode': mode, 'raw': raw},
                    'what': 'invalid flag combination not rejected before writing', 'observed': {'exit': r['exit']},
                    'found_by': 'enumeration', 'oracle': 'cli_vs_api'}
        return None
    filename = 'stdin' if mode in ('stdin', 'stdin-output') else 'm.py'
    try:
        api = python_minifier.minify(src, filename=filename, preserve_locals=[], preserve_globals=[],
                                     **cc.documented_kwargs(flags)).encode('utf-8')
    except Exception as e:
        api = None
    if api is None:
        ok = r['exit'] != 0
        expect = '<api raises>'
    else:
        expect = api if len(api) <= len(src) else src
        ok = (got == expect and r['exit'] == 0)
    if not ok:
        return {'input': {'flags': list(flags), 'source': src_text, 'mode': mode, 'raw': raw},
                'what': 'CLI bytes differ from utf-8(API result) under the size rule',
                'expected': repr(expect)[:400], 'observed': repr(got)[:400] + ' exit=%r exc=%r' % (r['exit'], r['exc']),
                'found_by': 'enumeration', 'oracle': 'cli_vs_api'}
    return None


def oracle_cli_vs_api(ctx, subsets, per_subset_sources):
    modes = ['stdout', 'stdin', 'output', 'inplace', 'stdin-output']
    n = 0
    for i, flags in enumerate(subsets):
        if ctx.time_left() < 20:
            ctx.notes.append('cli_vs_api stopped by budget after %d subsets' % i)
            break
        for j in range(per_subset_sources):
            src = SOURCES[(i + j) % len(SOURCES)]
            mode = modes[(i + j) % len(modes)]
            v = cli_vs_api(ctx, flags, src, mode)
            n += 1
            ctx.count()
            ctx.bump('cli_vs_api_mode', mode)
            if flags:
                ctx.mark_nontrivial('cva:%r:%d:%s' % (flags, (i + j) % len(SOURCES), mode))
            if v:
                ctx.add_violation(v)
    ctx.stage('cli_vs_api', runs=n)


def boundary_matrix(ctx):
    """every source (they include the size-rule boundary cases) x every output mode, without flags; and the invalid flag
    pair in both orders with other flags around it"""
    for si, src in enumerate(SOURCES):
        for mode in ['stdout', 'stdin', 'output', 'inplace', 'stdin-output']:
            v = cli_vs_api(ctx, (), src, mode)
            ctx.count()
            ctx.mark_nontrivial('bm:%d:%s' % (si, mode))
            if v:
                ctx.add_violation(v)
    for si, data in enumerate(BYTE_SOURCES):
        for mode in ['stdout', 'stdin', 'output', 'inplace', 'stdin-output']:
            for flags in ((), ('--no-preserve-shebang',)):
                v = cli_vs_api(ctx, flags, data.decode('latin-1'), mode, raw=True)
                ctx.count()
                ctx.bump('cli_vs_api_mode', 'encoded:' + mode)
                ctx.mark_nontrivial('bytes:%d:%s:%r' % (si, mode, flags))
                if v:
                    ctx.add_violation(v)
    bad = ['--remove-class-attribute-annotations', '--no-remove-annotations']
    for order in (bad, bad[::-1], [bad[0], '--no-hoist-literals', bad[1]], [bad[1], '--rename-globals', bad[0]], ['--no-remove-pass'] + bad[::-1]):
        for mode in ['stdout', 'output', 'inplace', 'stdin']:
            v = cli_vs_api(ctx, tuple(order), SOURCES[0], mode)
            ctx.count()
            if v:
                ctx.add_violation(v)


def run(ctx):
    boundary_matrix(ctx)
    subsets, exhaustive = cc.flag_subsets(ctx, ctx.scale(60, 600))
    ctx.exhaustive['flag_subsets_size_le_2'] = exhaustive
    d1 = cc.kw_correspondence(ctx, subsets)
    d2 = split_correspondence(ctx, ctx.scale(150, 2000))
    d3 = cc.run_correspondence(ctx, ctx.scale(150, 2000))
    ctx.stage('correspondence', kw_cases=len(subsets), kw_diffs=d1, split_diffs=d2, run_diffs=d3)
    # real CLI vs real API: every single flag and pair once (quick: singles + sampled pairs)
    if ctx.tier == 'quick':
        sub = subsets[:20] + ctx.rng.sample(subsets[20:], 40)
    else:
        sub = subsets[:exhaustive] + subsets[exhaustive:exhaustive + 200]
    oracle_cli_vs_api(ctx, sub, 1 if ctx.tier == 'quick' else 2)


def search(ctx):
    """A table obligation or a correspondence broke: build argv witnesses from the model's
    `violations` twin and from every flag subset of size <= 2, run the real-code oracles."""
    try:
        ans = ctx.driver.ask(['cli.violations'])[0]
        ctx.notes.append('model violations twin: ' + ans)
    except Exception as e:
        ctx.notes.append('violations twin unavailable: %r' % e)
    subsets, _ = cc.flag_subsets(ctx, 300)
    cc.kw_correspondence(ctx, subsets)   # its oracle part compares forwarded vs documented on the real code
    if not ctx.violations:
        oracle_cli_vs_api(ctx, subsets[:191], 2)


def replay(ctx, data):
    inp = data.get('input') or {}
    if data.get('oracle') == 'cli_vs_api':
        return cli_vs_api(ctx, tuple(inp['flags']), inp['source'], inp['mode'], raw=bool(inp.get('raw'))) is not None
    if data.get('oracle') == 'scenario':
        sc = {'files': dict((k, v.encode('latin-1')) for k, v in inp['files'].items()), 'args': inp['args'],
              'stdin': inp['stdin'].encode('latin-1'), 'force': inp['force'],
              'api': dict((k.encode('latin-1'), v) for k, v in inp['api'].items()), 'mode': 'replay'}
        r, post, _w, _d = cc.run_scenario_impl(sc)
        return any(p == 'C13' for p, _ in cc.check_scenario_oracles(ctx, sc, r, post))
    if data.get('oracle') == 'kw':
        flags = [a for a in inp['argv'] if a in cc.DOC_FLAGS]
        n0 = len(ctx.violations)
        cc.kw_correspondence(ctx, [tuple(sorted(set(flags)))])
        return len(ctx.violations) > n0
    if data.get('oracle') == 'split':
        with cc.Scratch() as d:
            with open(os.path.join(d, 'm.py'), 'w') as f:
                f.write('pass\n')
            seen = {}

            def spy(source, **kw):
                seen['kw'] = kw
                return ''
            clirun.run_cli(inp['argv'], d, minify=spy)
        which = 'preserve_locals' if '--preserve-locals' in inp['argv'] else 'preserve_globals'
        expect = [x.strip() for a in inp['argv'][2::2] for x in a.split(',') if x]
        return list(seen.get('kw', {}).get(which, [])) != expect
    return bool(data.get('broken'))

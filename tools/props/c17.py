"""C17 — Turning a size optimisation on never makes the output longer."""
import glob
import os

import common
from props import c02

META = {
    'rule': 'the pinned corpus (repository sources + 68 stdlib modules, sha256-locked in corpus/SHA256SUMS) x 11 size options x 2 bases (all '
            'other options off; defaults minus the option): len(minify(S, base + o)) <= len(minify(S, base)). quick: a seeded 10-file slice; '
            'thorough: the whole corpus (the property\'s own quantifier, enumerated completely). non-trivial = the option changes the '
            'output; distinct by (file, option, base)',
    'assumptions': ['length is measured in characters of the returned text'],
    'modelled_not_verified': ['the relation between the cost model and printed length is evaluated on the corpus, not proved (layout slack, DESIGN F13)'],
}

SIZE_OPTIONS = ['combine_imports', 'remove_pass', 'remove_annotations', 'remove_object_base', 'remove_builtin_exception_brackets',
                'remove_explicit_return_none', 'convert_posargs_to_args', 'hoist_literals', 'rename_locals', 'rename_globals', 'constant_folding']
DEFAULTS = dict(remove_annotations=True, remove_pass=True, remove_literal_statements=False, combine_imports=True, hoist_literals=True,
                rename_locals=True, rename_globals=False, remove_object_base=True, convert_posargs_to_args=True, preserve_shebang=True,
                remove_asserts=False, remove_debug=False, remove_explicit_return_none=True, remove_builtin_exception_brackets=True,
                constant_folding=True)


def corpus(ctx):
    files = sorted(glob.glob(os.path.join(common.REPO_SRC, 'python_minifier', '**', '*.py'), recursive=True))
    std = sorted(glob.glob(os.path.join(common.VERIF, 'corpus', 'stdlib', '*.py')))
    if ctx.tier == 'quick':
        keep = [p for p in std if os.path.basename(p) in ('colorsys.py', 'bisect.py', 'keyword.py')]
        rest = [p for p in std if p not in keep and os.path.getsize(p) < 40000]
        ctx.rng.shuffle(rest)
        return files[:4] + keep + rest[:5]
    return files + std


def minify(src, opts):
    import python_minifier
    try:
        return python_minifier.minify(src, **opts)
    except RecursionError:
        return None
    except Exception as e:
        return 'EXC:' + e.__class__.__name__


TYPED_LITERALS = [('None', 'Optional[str]'), ('True', 'bool'), ('False', 'bool'), ("'utf-8'", 'str'), ("'application/json'", 'str'),
                  ('1000000', 'int'), ("b'\\x00\\x00'", 'bytes'), ('0.5', 'float')]


def typed_modules():
    """ordinary annotated code: variables declared with an annotation and a bare literal initial value, the literal used a few more
    times plainly, in a function, at module level and in a class (where the decisions of hoist_literals, remove_annotations and
    rename_locals meet: the hoist only pays if the annotated occurrences are replaced too)"""
    out = []
    for lit, ann in TYPED_LITERALS:
        for n_ann, n_plain in ((1, 1), (2, 0), (2, 1), (3, 0), (1, 3), (4, 2)):
            decl = ''.join('    item_%d: %s = %s\n' % (i, ann, lit) for i in range(n_ann))
            uses = ''.join('    if value == %s:\n        seen.append(%s)\n' % (lit, lit) if i % 2 else '    seen.append(%s)\n' % lit for i in range(n_plain))
            names = ', '.join('item_%d' % i for i in range(n_ann))
            fn = 'from typing import Optional\n\n\ndef build(value):\n    seen = []\n' + decl + uses + '    return [seen, value, ' + names + ']\n\n\nprint(build(3))\n'
            out.append(('typed-fn/%s/%d+%d' % (lit, n_ann, n_plain), fn))
            mod = 'from typing import Optional\nseen = []\nvalue = 3\n' + decl.replace('    item', 'item') + uses.replace('\n    ', '\n').replace('    if', 'if', 1).replace('    seen', 'seen', 1) + 'print(seen, ' + names + ')\n'
            try:
                compile(mod, '<typed>', 'exec', dont_inherit=True)
                out.append(('typed-module/%s/%d+%d' % (lit, n_ann, n_plain), mod))
            except SyntaxError:
                pass
            cls = 'from typing import Optional\n\n\nclass Settings:\n' + decl + '\n    def check(self, value):\n        seen = []\n' + uses.replace('\n    ', '\n        ').replace('    ', '        ', 1) + '        return seen\n\n\nprint(Settings().check(3), Settings.item_0)\n'
            try:
                compile(cls, '<typed>', 'exec', dont_inherit=True)
                out.append(('typed-class/%s/%d+%d' % (lit, n_ann, n_plain), cls))
            except SyntaxError:
                pass
    return out


def run_files(ctx, files, found_by):
    for f in files:
        if ctx.time_left() < 25:
            ctx.notes.append('stopped by budget at %s' % os.path.basename(str(f)))
            break
        if isinstance(f, tuple):
            f, src = f
        else:
            try:
                with open(f, encoding='utf-8') as fh:
                    src = fh.read()
            except (OSError, UnicodeDecodeError):
                continue
        cache = {}

        def m(opts):
            key = tuple(sorted(opts.items()))
            if key not in cache:
                cache[key] = minify(src, opts)
            return cache[key]
        for base_name, base in (('all-off', dict(c02.ALL_OFF)), ('defaults', dict(DEFAULTS))):
            for o in SIZE_OPTIONS:
                off = dict(base)
                off[o] = False
                on = dict(base)
                on[o] = True
                a, b = m(off), m(on)
                ctx.count()
                if a is None or b is None or a.startswith('EXC:') or b.startswith('EXC:'):
                    ctx.bump('outcome', 'exception')
                    continue
                ctx.bump('delta_sign', 'shorter' if len(b) < len(a) else ('equal' if len(b) == len(a) else 'LONGER'))
                if a != b:
                    ctx.mark_nontrivial('%s|%s|%s' % (os.path.basename(f), o, base_name))
                if len(b) > len(a):
                    ctx.add_violation({'input': {'file': os.path.relpath(f, common.VERIF) if f.startswith(common.VERIF) else f, 'option': o, 'base': base_name,
                                                 'source': src if not os.path.exists(f) else None},
                                       'what': 'enabling %s on %s (%s base) grows the output from %d to %d characters' % (
                                           o, os.path.basename(f), base_name, len(a), len(b)),
                                       'found_by': found_by, 'oracle': 'length', 'shapes': ['%s:%s:%s' % (os.path.basename(f), o, base_name)]})
    ctx.sample({'stage': found_by, 'files': [os.path.basename(f if isinstance(f, str) else f[0]) for f in files[:8]]})


def decision_ties(ctx):
    """the ties of the decision-logic theorems: the fold model (its "not longer" guard) against the implementation on the
    length-boundary expressions.  A difference is a broken correspondence, not by itself a violation: the corpus decides."""
    from props import c07
    import sexp
    reqs, keep = [], []
    for src in c07.length_boundary_programs():
        r = c07.check_program(ctx, src, 'c17-tie', do_oracle=False)
        if r is None or r[0] is None:
            continue
        reqs.append(r[0])
        keep.append((src, r[1]))
    answers = ctx.driver.ask(reqs) if reqs else []
    diffs = 0
    for (src, impl), ans in zip(keep, answers):
        model = sexp.dec_str(ans[3:]) if ans.startswith('ok ') else ans
        ctx.count()
        if model != impl:
            diffs += 1
            ctx.add_broken('correspondence', 'fold length guard', 'source=%r model=%r impl=%r' % (src, model[:120], impl[:120]))
    ctx.stage('tie:fold-length-guard', cases=len(keep), diffs=diffs)


def run(ctx):
    decision_ties(ctx)
    files = corpus(ctx)
    if ctx.tier == 'thorough':
        ctx.exhaustive['corpus_files_x_options_x_bases'] = len(files) * len(SIZE_OPTIONS) * 2
    typed = typed_modules()
    ctx.exhaustive['typed_modules'] = len(typed)
    run_files(ctx, typed, 'typed-modules')
    run_files(ctx, files, 'corpus')


def search(ctx):
    run_files(ctx, typed_modules() + corpus(ctx), 'search')


def replay(ctx, data):
    inp = data.get('input') or {}
    if 'file' in inp:
        f = inp['file'] if os.path.isabs(inp['file']) else os.path.join(common.VERIF, inp['file'])
        if inp.get('source') is not None:
            f = (inp['file'], inp['source'])
        n0 = len(ctx.violations)
        global SIZE_OPTIONS
        keep = SIZE_OPTIONS
        SIZE_OPTIONS = [inp['option']]
        try:
            run_files(ctx, [f], 'replay')
        finally:
            SIZE_OPTIONS = keep
        return len(ctx.violations) > n0
    return bool(data.get('broken'))

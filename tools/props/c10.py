"""C10 — Names the user asks to preserve are preserved."""
import ast

import alpha
import scopes
from props import c02
from props import rename_common as rc

META = {
    'rule': 'scope-heavy programs x random preserve lists drawn from the identifiers of the program (also builtins, names bound in several '
            'scopes, a bare string instead of a list), for preserve_locals and preserve_globals with the matching rename option on; '
            'literal __all__ lists (Assign / AugAssign / AnnAssign); awslambda entrypoint. Oracle: listed names keep their spelling at '
            'every binding and reference, and the output is alpha-equivalent to the input (nothing but renaming differs). '
            'non-trivial = the list contains a name that is renamed without the list; distinct by (program, list, option)',
    'assumptions': [],
    'modelled_not_verified': ['allow_rename_locals/globals are modelled as applyPreserve on binding records (the traversal that marks bindings is not); find__all__ is modelled (PMV.Exports.findAll) and run against the real function'],
}


def idents(src):
    try:
        t = ast.parse(src)
    except SyntaxError:
        return []
    return sorted(set(n.id for n in ast.walk(t) if isinstance(n, ast.Name)) | set(a.arg for a in ast.walk(t) if isinstance(a, ast.arg)))


def minify_preserve(src, which, names, as_string=False):
    import python_minifier
    opts = dict(c02.ALL_OFF)
    opts['rename_locals'] = True
    opts['rename_globals'] = (which == 'globals')
    val = names[0] if (as_string and len(names) == 1) else list(names)
    opts['preserve_' + which] = val
    try:
        return python_minifier.minify(src, **opts), None
    except RecursionError:
        return None, 'RecursionError'
    except Exception as e:
        return None, e.__class__.__name__


def one(ctx, ident, src, which, names, as_string, found_by):
    out, exc = minify_preserve(src, which, names, as_string)
    ctx.count()
    ctx.bump('which', which)
    if out is None:
        return
    base, _ = minify_preserve(src, which, [])
    if base is not None and base != out:
        ctx.mark_nontrivial(ident + which + repr(names))
    probs = alpha.preserved_problems(src, out, set(names), which)
    probs += [p for p in alpha.check(src, out)]
    if probs:
        ctx.add_violation({'input': {'source': src, 'which': which, 'names': list(names), 'as_string': as_string}, 'what': '; '.join(probs[:3]),
                           'observed': out[:400], 'found_by': found_by, 'oracle': 'preserve', 'shapes': rc.shapes_of(src)})


ALL_CASES = [
        ('__all__ = ["public_function", "PublicClass"]\ndef public_function(argument_name):\n    return argument_name\nclass PublicClass:\n    pass\ndef private_function():\n    return public_function(1)\n', ['public_function', 'PublicClass']),
        ('__all__ = []\n__all__ += ["exported_name"]\nexported_name = 1\nhidden_name = exported_name + 1\nprint(hidden_name, hidden_name)\n', ['exported_name']),
        ('__all__: list = ["exported_name"]\nexported_name = 1\nhidden_name = exported_name\nprint(hidden_name, hidden_name)\n', ['exported_name']),
        ('public_api = __all__ = ["exported_name"]\nexported_name = 1\nhidden_name = exported_name\nprint(hidden_name, hidden_name)\n', ['exported_name']),
        ('__all__ = other_list = ["exported_name", "second_name"]\nexported_name = second_name = 1\nhidden_name = exported_name\nprint(hidden_name, hidden_name)\n', ['exported_name', 'second_name']),
        ('try:\n    __all__ = ["exported_name"]\nexcept Exception:\n    pass\nexported_name = 1\nhidden_name = exported_name\nprint(hidden_name, hidden_name)\n', ['exported_name']),
        ('import sys\nif sys.version_info >= (3,):\n    __all__ = ["exported_name"]\nelse:\n    __all__ = ["exported_name", "legacy_name"]\nexported_name = legacy_name = 1\nprint(legacy_name, legacy_name)\n', ['exported_name', 'legacy_name']),
        ('with some_context():\n    __all__ = ["exported_name"]\nexported_name = 1\nhidden_name = exported_name\nprint(hidden_name, hidden_name)\n', ['exported_name']),
        # several literal lists: a name listed in any of them belongs to the interface (alternative branches, a later rebinding)
        ('import sys\nif sys.version_info < (3,):\n    __all__ = ["legacy_name"]\nelse:\n    __all__ = ["exported_name"]\nexported_name = legacy_name = 1\nprint(legacy_name, legacy_name, exported_name, exported_name)\n', ['exported_name', 'legacy_name']),
        ('try:\n    __all__ = ["first_name"]\nexcept NameError:\n    __all__ = ["second_name"]\nfirst_name = second_name = 1\nprint(first_name, first_name, second_name, second_name)\n', ['first_name', 'second_name']),
        ('__all__ = ["first_name"]\n__all__ = ["second_name"]\nfirst_name = second_name = 1\nprint(first_name, first_name, second_name, second_name)\n', ['first_name', 'second_name']),
        ('__all__ = ["first_name"]\n__all__: list = ["second_name"]\n__all__ += ["third_name"]\nfirst_name = second_name = third_name = 1\nprint(first_name, first_name, second_name, second_name, third_name, third_name)\n', ['first_name', 'second_name', 'third_name']),
    ]


def all_and_lambda(ctx):
    import python_minifier
    for src, must in ALL_CASES:
        opts = dict(c02.ALL_OFF)
        opts.update(rename_globals=True, rename_locals=True)
        out = python_minifier.minify(src, **opts)
        ctx.count()
        ctx.mark_nontrivial('all:' + src)
        probs = alpha.preserved_problems(src, out, set(must), 'globals') + alpha.check(src, out)
        if probs:
            ctx.add_violation({'input': {'source': src, 'which': 'all', 'names': must, 'as_string': False}, 'what': '; '.join(probs[:3]),
                               'observed': out[:300], 'found_by': 'all', 'oracle': 'preserve', 'shapes': []})
    src = 'def handler_function(event_value, context_value):\n    return helper_function(event_value)\ndef helper_function(value_item):\n    return value_item\n'
    out = python_minifier.awslambda(src, entrypoint='handler_function')
    ctx.count()
    if 'def handler_function(' not in out or 'helper_function' in out:
        ctx.add_violation({'input': {'source': src, 'which': 'awslambda', 'names': ['handler_function'], 'as_string': False},
                           'what': 'awslambda entrypoint not preserved or nothing else renamed: %r' % out, 'found_by': 'awslambda', 'oracle': 'preserve', 'shapes': []})


# ---- find__all__ against its Lean model (PMV.Exports.findAll, specified by C10.findAll_exact) ----

EXPORT_POOL = ['exported_function', 'EXPORTED_VALUE', 'first_name', 'second_name', 'third_name', 'legacy_name', 'ExportedClass']


def _all_stmt(rng, used):
    def lst():
        els = []
        for _ in range(rng.randint(0, 3)):
            n = rng.choice(EXPORT_POOL)
            r = rng.random()
            if r < 0.7:
                used.add(n)
                els.append(repr(n))
            elif r < 0.8:
                els.append('b' + repr(n))
            elif r < 0.87:
                els.append(n)
            elif r < 0.93:
                els.append('[%r]' % n)
            else:
                els.append('f"{1}%s"' % n)
        return '[' + ', '.join(els) + ']'
    r = rng.random()
    if r < 0.3:
        return '__all__ = ' + lst()
    if r < 0.42:
        return '__all__ += ' + lst()
    if r < 0.54:
        return '__all__: list = ' + lst()
    if r < 0.6:
        return 'other_list = __all__ = ' + lst()
    if r < 0.66:
        return '__all__ = other_list = ' + lst()
    if r < 0.7:
        return '__all__: list'
    if r < 0.75:
        return '__all__ = tuple(' + lst() + ')' if rng.random() < 0.5 else '__all__ = (%r, %r)' % (rng.choice(EXPORT_POOL), rng.choice(EXPORT_POOL))
    if r < 0.8:
        return '__all__ = ' + lst() + ' + ' + lst()
    if r < 0.84:
        return 'other_module.__all__ = ' + lst()
    if r < 0.88:
        return '__all__, other_list = ' + lst() + ', 1'
    if r < 0.92:
        return 'not__all__ = ' + lst()
    if r < 0.96:
        return '__all__.extend(' + lst() + ')'
    return 'print((lambda: ' + lst() + ')())'


def _all_block(rng, depth, used, indent):
    pad = '    ' * indent
    out = []
    for _ in range(rng.randint(1, 3)):
        r = rng.random()
        if depth <= 0 or r < 0.45:
            out.append(pad + _all_stmt(rng, used))
            continue
        kind = rng.choice(['if', 'ifelse', 'for', 'forelse', 'while', 'whileelse', 'try', 'tryfinally', 'trystar', 'with', 'def', 'class', 'asyncdef', 'match', 'asyncfor', 'asyncwith'])
        sub = lambda: _all_block(rng, depth - 1, used, indent + 1)
        nouse = lambda: _all_block(rng, depth - 1, set(), indent + 1)
        if kind == 'if':
            out += [pad + 'if condition_value:', sub()]
        elif kind == 'ifelse':
            out += [pad + 'if condition_value:', sub(), pad + 'elif other_condition:', sub(), pad + 'else:', sub()]
        elif kind == 'for':
            out += [pad + 'for loop_item in some_items:', sub()]
        elif kind == 'forelse':
            out += [pad + 'for loop_item in some_items:', sub(), pad + 'else:', sub()]
        elif kind == 'while':
            out += [pad + 'while condition_value:', sub()]
        elif kind == 'whileelse':
            out += [pad + 'while condition_value:', sub(), pad + 'else:', sub()]
        elif kind == 'try':
            out += [pad + 'try:', sub(), pad + 'except NameError:', sub(), pad + 'except (KeyError, ValueError) as caught_error:', sub(), pad + 'else:', sub()]
        elif kind == 'tryfinally':
            out += [pad + 'try:', sub(), pad + 'finally:', sub()]
        elif kind == 'trystar':
            out += [pad + 'try:', sub(), pad + 'except* ValueError:', sub()]
        elif kind == 'with':
            out += [pad + 'with some_context() as context_value:', sub()]
        elif kind == 'match':
            out += [pad + 'match subject_value:', pad + '    case 1:', _all_block(rng, depth - 1, used, indent + 2), pad + '    case [first_item, *_] if first_item:',
                    _all_block(rng, depth - 1, used, indent + 2)]
        elif kind == 'def':
            out += [pad + 'def some_function():', nouse()]
        elif kind == 'asyncdef':
            out += [pad + 'async def some_coroutine():', nouse()]
        elif kind == 'class':
            out += [pad + 'class SomeClass:', nouse()]
        elif kind == 'asyncfor':
            out += [pad + 'async def outer_coroutine():', pad + '    async for loop_item in some_items:', _all_block(rng, depth - 1, set(), indent + 2)]
        elif kind == 'asyncwith':
            out += [pad + 'async def outer_coroutine():', pad + '    async with some_context():', _all_block(rng, depth - 1, set(), indent + 2)]
    return '\n'.join(out)


def all_program(rng):
    used = set()
    body = _all_block(rng, rng.randint(0, 3), used, 0)
    tail = ''.join('%s = 1\nprint(%s, %s)\n' % (n, n, n) for n in EXPORT_POOL)
    return body + '\n' + tail


def _dec_names(ans):
    body = ans[3:].strip()
    if not body:
        return []
    return ['' if tok == '-' else ''.join(chr(int(c)) for c in tok.split('.')) for tok in body.split(' ')]


def findall_correspondence(ctx, progs, found_by):
    """the real find__all__ and the model's findAll on the same modules; a disagreement is looked up on the real minifier at once"""
    import pyast
    import sexp  # noqa: F401
    import python_minifier
    from python_minifier.rename.util import find__all__
    reqs, meta = [], []
    for ident, src in progs:
        try:
            tree = ast.parse(src)
            with pyast.unlimited():
                reqs.append('exports.findall ' + pyast.enc_module(tree))
            meta.append((ident, src, tree))
        except (SyntaxError, pyast.OutOfModel):
            ctx.bump('findall', 'outside')
    answers = ctx.driver.ask(reqs) if reqs else []
    nonempty = agree = 0
    for (ident, src, tree), ans in zip(meta, answers):
        if not ans.startswith('ok'):
            ctx.add_broken('correspondence', 'exports.findall:' + ident, 'driver answered %r' % ans[:100])
            continue
        model = _dec_names(ans)
        real = list(find__all__(tree))
        nonempty += bool(model)
        ctx.bump('findall_names', min(len(model), 4))
        if sorted(model) == sorted(real):
            agree += 1
            continue
        ctx.add_broken('correspondence', 'exports.findall:' + ident, 'find__all__ gives %r, the model (C10.findAll_exact) gives %r on %r' % (sorted(real), sorted(model), src[:400]))
        # the model's answer is what the property asks for (theorem findAll_exact): is a name it lists renamed by the real minifier?
        opts = dict(c02.ALL_OFF)
        opts.update(rename_globals=True, rename_locals=True)
        try:
            out = python_minifier.minify(src, **opts)
        except Exception:
            continue
        probs = alpha.preserved_problems(src, out, set(model), 'globals')
        if probs:
            ctx.add_violation({'input': {'source': src, 'which': 'all', 'names': sorted(model), 'as_string': False}, 'what': '; '.join(probs[:3]),
                               'observed': out[:300], 'found_by': 'findall-correspondence', 'oracle': 'preserve', 'shapes': []})
    ctx.stage('findall-correspondence:' + found_by, modules=len(meta), agree=agree, with_names=nonempty)


CLI_OTHERS_OFF = ['--no-combine-imports', '--no-remove-pass', '--no-hoist-literals', '--no-remove-object-base', '--no-convert-posargs-to-args',
                  '--no-preserve-shebang', '--no-remove-explicit-return-none', '--no-remove-builtin-exception-brackets', '--no-constant-folding',
                  '--no-remove-annotations']


def cli_preserve(ctx, progs, found_by):
    """the same through the command line: comma separated lists, the option repeated, and both mixed"""
    import tempfile
    import clirun
    cwd = tempfile.mkdtemp(prefix='pmv_c10_')
    try:
        for ident, src in progs:
            names = idents(src)
            if len(names) < 2:
                continue
            for which in ('locals', 'globals'):
                chosen = ctx.rng.sample(names, min(len(names), ctx.rng.randint(2, 4)))
                cut = ctx.rng.randint(1, len(chosen) - 1)
                spellings = [[','.join(chosen)], [','.join(chosen[:cut]), ','.join(chosen[cut:])], list(chosen), list(reversed(chosen))]
                for parts in spellings:
                    argv = list(CLI_OTHERS_OFF) + (['--rename-globals'] if which == 'globals' else [])
                    for part in parts:
                        argv += ['--preserve-' + which, part]
                    r = clirun.run_cli(argv + ['-'], cwd, stdin=src.encode('utf-8'), force=True)
                    ctx.count()
                    ctx.bump('which', 'cli-' + which)
                    if r['exit'] != 0:
                        ctx.bump('cli', 'exit-%s' % r['exit'])
                        continue
                    out = r['stdout'].decode('utf-8')
                    if len(parts) > 1:
                        ctx.mark_nontrivial('cli' + ident + which + repr(parts))
                    probs = alpha.preserved_problems(src, out, set(chosen), which)
                    if probs:
                        ctx.add_violation({'input': {'source': src, 'which': 'cli-' + which, 'names': parts, 'as_string': False},
                                           'what': 'command line %r: %s' % (argv, '; '.join(probs[:3])), 'observed': out[:400],
                                           'found_by': found_by, 'oracle': 'preserve', 'shapes': rc.shapes_of(src)})
        # several modules in one invocation (directory, in place): every module gets the same preserve lists
        import os
        group = [p for p in progs if len(idents(p[1])) >= 2][:12]
        for gi in range(0, len(group) - 2, 3):
            trio = group[gi:gi + 3]
            common_names = sorted(set.union(*[set(idents(s)) for _i, s in trio]))
            for which in ('locals', 'globals'):
                chosen = ctx.rng.sample(common_names, min(len(common_names), 4))
                d = os.path.join(cwd, 'tree%d%s' % (gi, which))
                os.makedirs(d)
                for k, (_i, s) in enumerate(trio):
                    with open(os.path.join(d, 'module_%d.py' % k), 'w') as f:
                        f.write(s)
                argv = list(CLI_OTHERS_OFF) + (['--rename-globals'] if which == 'globals' else []) + ['--in-place']
                for part in (','.join(chosen[:2]), ','.join(chosen[2:])):
                    if part:
                        argv += ['--preserve-' + which, part]
                r = clirun.run_cli(argv + [d], cwd, force=True)
                ctx.count()
                ctx.bump('which', 'cli-tree-' + which)
                if r['exit'] != 0:
                    ctx.bump('cli', 'tree-exit-%s' % r['exit'])
                    continue
                for k, (ident, s) in enumerate(trio):
                    with open(os.path.join(d, 'module_%d.py' % k)) as f:
                        out = f.read()
                    probs = alpha.preserved_problems(s, out, set(chosen), which)
                    ctx.mark_nontrivial('clitree' + ident + which)
                    if probs:
                        ctx.add_violation({'input': {'source': s, 'which': 'cli-' + which, 'names': [','.join(chosen)], 'as_string': False, 'position_in_run': k},
                                           'what': 'module %d of one command line run over a directory (%r): %s' % (k, argv, '; '.join(probs[:3])),
                                           'observed': out[:400], 'found_by': found_by, 'oracle': 'preserve', 'shapes': rc.shapes_of(s)})
    finally:
        import shutil
        shutil.rmtree(cwd, ignore_errors=True)


def run_programs(ctx, progs, found_by):
    for ident, src in progs:
        if ctx.time_left() < 10:
            break
        names = idents(src)
        if not names:
            continue
        for which in ('locals', 'globals'):
            k = ctx.rng.randint(1, min(3, len(names)))
            chosen = ctx.rng.sample(names, k)
            if ctx.rng.random() < 0.2:
                chosen.append(ctx.rng.choice(['print', 'len', 'A', 'B', 'nonexistent_name']))
            one(ctx, ident, src, which, chosen, False, found_by)
            if ctx.rng.random() < 0.25:
                one(ctx, ident, src, which, [ctx.rng.choice(names)], True, found_by)
    if progs:
        ctx.sample({'stage': found_by, 'id': progs[-1][0], 'source': progs[-1][1][:300]})


def run(ctx):
    progs = rc.programs(ctx, ctx.scale(700, None), ctx.scale(150, 3000))
    run_programs(ctx, progs, 'generated')
    sample = [p for p in progs if not p[0].startswith(('decl/', 'param'))]
    ctx.rng.shuffle(sample)
    cli_preserve(ctx, sample[:ctx.scale(60, 800)], 'command-line')
    all_and_lambda(ctx)
    findall_correspondence(ctx, [('case%d' % i, c[0]) for i, c in enumerate(ALL_CASES)], 'directed')
    findall_correspondence(ctx, [('gen%d' % i, all_program(ctx.rng)) for i in range(ctx.scale(300, 6000))], 'generated')
    findall_correspondence(ctx, [(i, s) for i, s in sample[:ctx.scale(80, 800)]], 'scope-programs')
    from props import c09
    c09.freeze_correspondence(ctx, sample[:ctx.scale(150, 2500)] + [('case%d' % i, c[0]) for i, c in enumerate(ALL_CASES)], 'preserve-lists')


def search(ctx):
    run_programs(ctx, rc.programs(ctx, 3000, 1500), 'search')


def replay(ctx, data):
    inp = data.get('input') or {}
    if 'source' in inp and inp.get('which') in ('locals', 'globals'):
        n0 = len(ctx.violations)
        one(ctx, 'replay', inp['source'], inp['which'], inp['names'], inp.get('as_string', False), 'replay')
        return len(ctx.violations) > n0
    if str(inp.get('which', '')).startswith('cli-'):
        import tempfile
        import clirun
        which = inp['which'][4:]
        argv = list(CLI_OTHERS_OFF) + (['--rename-globals'] if which == 'globals' else [])
        for part in inp['names']:
            argv += ['--preserve-' + which, part]
        cwd = tempfile.mkdtemp(prefix='pmv_c10_')
        r = clirun.run_cli(argv + ['-'], cwd, stdin=inp['source'].encode('utf-8'), force=True)
        names = set(n for part in inp['names'] for n in part.split(','))
        return r['exit'] == 0 and bool(alpha.preserved_problems(inp['source'], r['stdout'].decode('utf-8'), names, which))
    if inp.get('which') in ('all', 'awslambda'):
        n0 = len(ctx.violations)
        all_and_lambda(ctx)
        return len(ctx.violations) > n0
    return bool(data.get('broken'))

"""C04 — Externally visible names are never changed."""
import alpha
from props import rename_common as rc

META = {
    'rule': 'the scope-heavy programs of C03 (every outer scope x binding form x reference position, incl. methods with self/cls/*args/'
            'positional-only parameters, keyword calls, attributes, dunder names, class-level names) minified with 6 renaming option '
            'sets; the oracle aligns input and output trees and requires identical spelling at every interface position (attribute, '
            'keyword, imported name, class-level binding, dunder, keyword-passable parameter, never-bound name) and an unchanged / '
            'underscore-prefixed module namespace when rename_globals is off. non-trivial = some identifier was renamed; distinct by (program, options)',
    'assumptions': ['"documented reflective views": first parameter of undecorated/@classmethod methods, *args/**kwargs and positional-only parameters may be renamed in the signature'],
    'modelled_not_verified': ['Binding.rename (which AST fields are written) is not modelled in Lean; decided by the oracle'],
}


def run_programs(ctx, progs, osets, found_by):
    for ident, src in progs:
        if ctx.time_left() < 10:
            break
        for oname, extra in osets:
            out, exc = rc.minify_with(src, extra)
            ctx.count()
            if out is None:
                continue
            if out != rc.minify_with(src, {})[0]:
                ctx.mark_nontrivial(ident + oname)
            probs = alpha.interface_problems(src, out, bool(extra.get('rename_globals')))
            if probs:
                ctx.add_violation({'input': {'source': src, 'options': extra}, 'what': '; '.join(probs[:3]), 'observed': out[:400],
                                   'found_by': found_by, 'oracle': 'interface', 'shapes': rc.shapes_of(src)})
    if progs:
        ctx.sample({'stage': found_by, 'id': progs[-1][0], 'source': progs[-1][1][:300]})


def run(ctx):
    progs = rc.programs(ctx, ctx.scale(900, None), ctx.scale(200, 3000))
    osets = rc.RENAME_OPTION_SETS if ctx.tier == 'thorough' else [rc.RENAME_OPTION_SETS[i] for i in (0, 2, 4)]
    run_programs(ctx, progs, osets, 'generated')
    import scopegen
    run_programs(ctx, scopegen.export_programs(), rc.RENAME_OPTION_SETS, 'interface-declarations')
    rc.assigner_correspondence(ctx, progs[:ctx.scale(300, 3000)], [(True, False, False), (True, True, True)])
    for k in ctx.known:
        if k.get('replay_source'):
            run_programs(ctx, [(k['id'], k['replay_source'])], rc.RENAME_OPTION_SETS, 'known')


def search(ctx):
    run_programs(ctx, rc.programs(ctx, 3000, 1500), rc.RENAME_OPTION_SETS, 'search')


def replay(ctx, data):
    inp = data.get('input') or {}
    if 'source' in inp:
        out, exc = rc.minify_with(inp['source'], inp.get('options') or {})
        return bool(out is not None and alpha.interface_problems(inp['source'], out, bool((inp.get('options') or {}).get('rename_globals'))))
    return bool(data.get('broken'))

"""C04 — Externally visible names are never changed."""
import alpha
from props import rename_common as rc

META = {
    'rule': 'the scope-heavy programs of C03 (every outer scope x binding form x reference position, incl. methods with self/cls/*args/'
            'positional-only parameters, keyword calls, attributes, dunder names, class-level names) minified with 6 renaming option '
            'sets; the oracle aligns input and output trees and requires identical spelling at every interface position (attribute, '
            'keyword, imported name, class-level binding, dunder, keyword-passable parameter, never-bound name) and an unchanged / '
            'underscore-prefixed module namespace when rename_globals is off. non-trivial = some identifier was renamed; distinct by (program, options)',
    'assumptions': ['"documented reflective views": first parameter of undecorated/@classmethod methods, *args/**kwargs and positional-only parameters may be renamed in the signature'],
    'modelled_not_verified': ['Binding.rename (which AST fields are written) is not modelled in Lean; decided by the oracle', 'arg_rename_in_place is modelled (PMV.InPlace) on the facts it reads; which namespace a function belongs to comes from the real add_namespace'],
}


def run_programs(ctx, progs, osets, found_by):
    for ident, src in progs:
        if ctx.time_left() < 10:
            break
        for oname, extra in osets:
            out, exc = rc.minify_with(src, extra)
            ctx.count()
            if out is None:
                continue
            if out != rc.minify_with(src, {})[0]:
                ctx.mark_nontrivial(ident + oname)
            probs = alpha.interface_problems(src, out, bool(extra.get('rename_globals')))
            if probs:
                ctx.add_violation({'input': {'source': src, 'options': extra}, 'what': '; '.join(probs[:3]), 'observed': out[:400],
                                   'found_by': found_by, 'oracle': 'interface', 'shapes': rc.shapes_of(src)})
    if progs:
        ctx.sample({'stage': found_by, 'id': progs[-1][0], 'source': progs[-1][1][:300]})


TRANSFORMS_ON = dict(combine_imports=True, remove_pass=True, remove_object_base=True, remove_explicit_return_none=True,
                     remove_builtin_exception_brackets=True, constant_folding=True)      # not convert_posargs_to_args: it runs after the renaming and erases the `/` the oracle reads


def run_with_transforms(ctx, progs, found_by):
    """renaming together with the transforms that rebuild statements (the nodes they create must land in the namespace of the ones
    they replace): the interface oracle compares minify(transforms only) with minify(transforms + renaming), which have one shape"""
    for ident, src in progs:
        if ctx.time_left() < 10:
            break
        base, _exc = rc.minify_with(src, TRANSFORMS_ON)
        if base is None:
            continue
        for oname, extra in (('locals', dict(rename_locals=True)), ('all', dict(rename_locals=True, rename_globals=True, hoist_literals=True))):
            out, _exc = rc.minify_with(src, dict(TRANSFORMS_ON, **extra))
            ctx.count()
            if out is None:
                continue
            if out != base:
                ctx.mark_nontrivial(ident + 'transforms+' + oname)
            probs = alpha.interface_problems(base, out, bool(extra.get('rename_globals')))
            if probs:
                ctx.add_violation({'input': {'source': src, 'options': dict(TRANSFORMS_ON, **extra), 'base_options': TRANSFORMS_ON}, 'what': '; '.join(probs[:3]),
                                   'observed': out[:400], 'found_by': found_by, 'oracle': 'interface-with-transforms', 'shapes': rc.shapes_of(src)})


# ---- arg_rename_in_place against its Lean model (PMV.InPlace.argRenameInPlace, theorems T04.5-T04.7) ----

DECORATORS = [[], [], [], ['classmethod'], ['classmethod'], ['staticmethod'], ['property'], ['classmethod', 'some_decorator'], ['some_decorator', 'classmethod'],
              ['some_module.classmethod'], ['classmethod()'], ['some_decorator(1)']]


def _signature(rng, names):
    it = iter(names)
    po = [next(it) for _ in range(rng.choice([0, 0, 0, 1, 2]))]
    ar = [next(it) for _ in range(rng.choice([0, 1, 1, 2, 3]))]
    va = next(it) if rng.random() < 0.35 else None
    ko = [next(it) for _ in range(rng.choice([0, 0, 1, 2]))]
    kw = next(it) if rng.random() < 0.35 else None
    parts = []
    if po:
        parts += po + ['/']
    dflt = rng.random() < 0.4
    parts += [(a + '=1' if dflt else a) for a in ar]
    if va:
        parts.append('*' + va)
    elif ko:
        parts.append('*')
    parts += [(a + '=2' if rng.random() < 0.5 else a) for a in ko]
    if kw:
        parts.append('**' + kw)
    return ', '.join(parts), po + ar + ([va] if va else []) + ko + ([kw] if kw else [])


def signature_program(rng):
    """functions, methods and lambdas in every kind of enclosing scope, with every kind of parameter and decorator list"""
    counter = [0]

    def fresh(k):
        counter[0] += 1
        return ['param_%d_%d' % (counter[0], i) for i in range(k)]

    def block(depth, indent):
        pad = '    ' * indent
        out = []
        for _ in range(rng.randint(1, 3)):
            kind = rng.choice(['def', 'def', 'class', 'lambda', 'asyncdef', 'if'] if depth > 0 else ['def', 'lambda'])
            if kind in ('def', 'asyncdef'):
                sig, ps = _signature(rng, fresh(9))
                for d in rng.choice(DECORATORS):
                    out.append(pad + '@' + d)
                out.append(pad + ('async ' if kind == 'asyncdef' else '') + 'def function_%d(%s):' % (counter[0], sig))
                use = ' + '.join(ps[:3]) or '0'
                out.append(pad + '    result_value = ' + ('1' if any(p for p in ps[:3] if False) else '[%s]' % ', '.join(ps)))
                if depth > 0 and rng.random() < 0.5:
                    out.append(block(depth - 1, indent + 1))
                out.append(pad + '    return result_value, ' + ('[%s]' % ', '.join(ps)))
            elif kind == 'class':
                out.append(pad + 'class Class_%d:' % counter[0])
                counter[0] += 1
                out.append(block(depth - 1, indent + 1))
            elif kind == 'lambda':
                sig, ps = _signature(rng, fresh(9))
                out.append(pad + 'lambda_value_%d = lambda %s: [%s]' % (counter[0], sig, ', '.join(ps + ps)))
            else:
                out.append(pad + 'if some_condition:')
                out.append(block(depth - 1, indent + 1))
        return '\n'.join(out)
    return block(rng.randint(1, 3), 0) + '\n'


def inplace_correspondence(ctx, progs, found_by):
    """the real arg_rename_in_place and the model's argRenameInPlace on every parameter of every function of the same modules"""
    import ast
    import pyast
    from python_minifier.ast_annotation import add_parent
    from python_minifier.rename import add_namespace
    from python_minifier.rename.util import arg_rename_in_place
    reqs, meta = [], []
    for ident, src in progs:
        try:
            tree = ast.parse(src)
        except SyntaxError:
            continue
        add_parent(tree)
        add_namespace(tree)
        for fn in ast.walk(tree):
            if not isinstance(fn, (ast.FunctionDef, ast.AsyncFunctionDef, ast.Lambda)):
                continue
            a = fn.args
            params = list(getattr(a, 'posonlyargs', [])) + a.args + ([a.vararg] if a.vararg else []) + a.kwonlyargs + ([a.kwarg] if a.kwarg else [])
            if not params:
                continue
            is_lambda = isinstance(fn, ast.Lambda)
            try:
                with pyast.unlimited():
                    decs = '(' + ' '.join(pyast.enc_expr(d) for d in ([] if is_lambda else fn.decorator_list)) + ')'
                    reqs.append('inplace.fn %d %d %s %s' % (is_lambda, isinstance(fn.namespace, ast.ClassDef), decs, pyast.enc_arguments(a)))
            except pyast.OutOfModel:
                ctx.bump('inplace', 'outside')
                continue
            meta.append((ident, src, fn, params))
    answers = ctx.driver.ask(reqs) if reqs else []
    agree = inplace = passable_inplace = 0
    for (ident, src, fn, params), ans in zip(meta, answers):
        model = ans[3:].strip() if ans.startswith('ok') else None
        if model is None or len(model) != len(params):
            ctx.add_broken('correspondence', 'inplace.fn:' + ident, 'driver answered %r for %d parameters' % (ans[:100], len(params)))
            continue
        real = ''.join('1' if arg_rename_in_place(p) else '0' for p in params)
        inplace += real.count('1')
        ctx.bump('inplace_kind', ('lambda' if isinstance(fn, ast.Lambda) else 'method' if isinstance(fn.namespace, ast.ClassDef) else 'function'))
        if real == model:
            agree += 1
            continue
        where = [p.arg for p, r, m in zip(params, real, model) if r != m]
        ctx.add_broken('correspondence', 'inplace.fn:' + ident, 'arg_rename_in_place and the model (C04.keyword_passable_in_place) differ on parameter(s) %s of line %d of %r'
                       % (where, getattr(fn, 'lineno', 0), src[:600]))
    ctx.stage('inplace-correspondence:' + found_by, functions=len(meta), agree=agree, in_place_parameters=inplace)


def run(ctx):
    progs = rc.programs(ctx, ctx.scale(900, None), ctx.scale(200, 3000))
    osets = rc.RENAME_OPTION_SETS if ctx.tier == 'thorough' else [rc.RENAME_OPTION_SETS[i] for i in (0, 2, 4)]
    run_programs(ctx, progs, osets, 'generated')
    import scopegen
    run_programs(ctx, scopegen.export_programs(), rc.RENAME_OPTION_SETS, 'interface-declarations')
    cip = scopegen.class_import_programs()
    run_with_transforms(ctx, cip + ctx.rng.sample(progs, min(len(progs), ctx.scale(150, 2000))), 'with-transforms')
    rc.assigner_correspondence(ctx, progs[:ctx.scale(300, 3000)], [(True, False, False), (True, True, True)])
    for k in ctx.known:
        if k.get('replay_source'):
            run_programs(ctx, [(k['id'], k['replay_source'])], rc.RENAME_OPTION_SETS, 'known')
    sigs = [('sig%d' % i, signature_program(ctx.rng)) for i in range(ctx.scale(150, 2500))]
    inplace_correspondence(ctx, sigs, 'signatures')
    inplace_correspondence(ctx, progs[:ctx.scale(400, 4000)], 'scope-programs')
    run_programs(ctx, sigs[:ctx.scale(60, 1000)], osets, 'signatures')


def search(ctx):
    run_programs(ctx, rc.programs(ctx, 3000, 1500), rc.RENAME_OPTION_SETS, 'search')


def replay(ctx, data):
    inp = data.get('input') or {}
    if 'source' in inp and inp.get('base_options'):
        base, _e = rc.minify_with(inp['source'], inp['base_options'])
        out, _e = rc.minify_with(inp['source'], inp.get('options') or {})
        return bool(base is not None and out is not None and alpha.interface_problems(base, out, bool((inp.get('options') or {}).get('rename_globals'))))
    if 'source' in inp:
        out, exc = rc.minify_with(inp['source'], inp.get('options') or {})
        return bool(out is not None and alpha.interface_problems(inp['source'], out, bool((inp.get('options') or {}).get('rename_globals'))))
    return bool(data.get('broken'))

"""C11 — Output depends only on source, options and interpreter version."""
import copy
import json
import os
import subprocess
import sys
import threading

import common
import scopegen
from props import c05

META = {
    'rule': 'inputs: scope-heavy programs and random modules; for each: (a) fresh interpreter processes under 8 (quick) / 48 (thorough) '
            'PYTHONHASHSEED values must print byte-identical output; (b) call histories in one process (same call repeated, calls '
            'permuted, argument objects reused across calls: preserve lists, RemoveAnnotationsOptions, bytes/str source) must give the '
            'result of a fresh call, and arguments must equal deep copies taken before the call; (c) 8 threads minifying different '
            'inputs behind a barrier must each get the single-threaded result. non-trivial = renaming/hoisting changed the text; '
            'distinct by input hash',
    'assumptions': ['thread interleavings are sampled, not enumerated (bytecode-level schedules cannot be exhibited by a model)'],
    'modelled_not_verified': ['the interpreter\'s set iteration order is modelled as an arbitrary permutation of the reservation scope'],
}

WORKER = r'''
import sys, json, hashlib
sys.path.insert(0, %r)
import python_minifier
srcs = json.load(open(sys.argv[1]))
out = []
for src, kw in srcs:
    try:
        out.append(python_minifier.minify(src, **kw))
    except Exception as e:
        out.append('EXC:' + e.__class__.__name__)
print(json.dumps(out))
'''

FORK_WORKER = r'''
import sys, os, pickle, base64
sys.path.insert(0, %r)
import python_minifier
from python_minifier import RemoveAnnotationsOptions
for line in sys.stdin:
    src, kw = pickle.loads(base64.b64decode(line))
    r, w = os.pipe()
    pid = os.fork()
    if pid == 0:
        os.close(r)
        try:
            out = python_minifier.minify(src, **kw)
        except Exception as e:
            out = 'EXC:' + e.__class__.__name__
        with os.fdopen(w, 'wb') as f:
            f.write(pickle.dumps(out))
        os._exit(0)
    os.close(w)
    with os.fdopen(r, 'rb') as f:
        data = f.read()
    os.waitpid(pid, 0)
    sys.stdout.write(base64.b64encode(data).decode() + '\n')
    sys.stdout.flush()
'''


class FreshPool(object):
    """minify in a process that has imported the package but never minified anything: every request runs in a fork of it"""

    def __init__(self):
        import base64
        import pickle
        self._b64, self._pickle = base64, pickle
        self.proc = subprocess.Popen([common.PY, '-c', FORK_WORKER % common.REPO_SRC], stdin=subprocess.PIPE, stdout=subprocess.PIPE,
                                     stderr=subprocess.DEVNULL, env=dict(os.environ, PYTHONHASHSEED='0'))

    def minify(self, src, kw):
        self.proc.stdin.write(self._b64.b64encode(self._pickle.dumps((src, kw))) + b'\n')
        self.proc.stdin.flush()
        line = self.proc.stdout.readline()
        if not line:
            raise RuntimeError('fresh-process worker died')
        return self._pickle.loads(self._b64.b64decode(line))

    def close(self):
        try:
            self.proc.stdin.close()
            self.proc.wait(timeout=10)
        except Exception:
            self.proc.kill()


RESIDUE_NAMES = ['local_value', 'argument_value', 'value_item', 'hidden_value', 'other_name', 'item', 'total', 'A', 'B']


def residue_programs():
    """pairs (first, second): `first` mentions a name in a way that makes the minifier remember something about it (a type parameter,
    an exported / preserved / imported / global / class-level / unbound name, a tainting builtin); `second` has a renamable local and a
    renamable global with that spelling.  Whatever `first` leaves behind must not reach `second`."""
    firsts = [
        'def generic_function[%(n)s](parameter_value: %(n)s) -> %(n)s:\n    return parameter_value\n',
        'class GenericClass[%(n)s]:\n    attribute_value: %(n)s\n',
        'type AliasName[%(n)s] = list[%(n)s]\n',
        'def variadic_function[*%(n)s](*parameter_values):\n    return parameter_values\n',
        'def spec_function[**%(n)s](parameter_value):\n    return parameter_value\n',
        '__all__ = ["%(n)s"]\n%(n)s = 1\nprint(%(n)s, %(n)s)\n',
        'import %(n)s\nprint(%(n)s, %(n)s)\n',
        'from some_module import %(n)s\nprint(%(n)s, %(n)s)\n',
        'from some_module import *\nprint(%(n)s, %(n)s)\n',
        'def declaring_function():\n    global %(n)s\n    %(n)s = 1\n    return %(n)s\n',
        'class HoldingClass:\n    %(n)s = 1\n    def method(self):\n        return self.%(n)s\n',
        'def keyword_function(*, %(n)s=1):\n    return %(n)s, %(n)s\nkeyword_function(%(n)s=2)\n',
        'function_value = lambda %(n)s: (%(n)s, %(n)s)\n',
        'print(%(n)s, %(n)s, %(n)s)\n',
        'def tainted_function(%(n)s):\n    return eval("%(n)s")\n',
        'def tainted_function():\n    %(n)s = 1\n    return locals()\n',
        '%(n)s: int\ndef annotated_function(parameter_value: "%(n)s"):\n    return parameter_value\n',
        'def outer_function():\n    %(n)s = 0\n    def inner_function():\n        nonlocal %(n)s\n        %(n)s = 1\n    return inner_function\n',
        'def matcher(subject_value):\n    match subject_value:\n        case {"key": %(n)s, **rest_value}:\n            return %(n)s, rest_value\n',
        'try:\n    pass\nexcept ValueError as %(n)s:\n    print(%(n)s, %(n)s)\n',
        'def text_function():\n    return ["%(n)s", "%(n)s", "%(n)s", "%(n)s", "%(n)s"]\n',
    ]
    second = ('def consumer_function(values):\n    %(n)s = 0\n    for loop_value in values:\n        %(n)s = %(n)s + loop_value\n    return %(n)s + %(n)s\n'
              '%(n)s = consumer_function([1])\nprint(%(n)s, %(n)s, %(n)s)\n')
    out = []
    for n in RESIDUE_NAMES:
        for f in firsts:
            out.append((f % {'n': n}, second % {'n': n}))
    # values that compare equal but differ in type (what a memo table, a set or a dict key would conflate), in both orders
    equal_values = [('2 * 30', '2.0 * 30'), ('1 | 1', 'True | True'), ('0 + 5', '0j + 5'), ('10 - 10', '10 - 10.0'), ('4 * 1', '4 * 1.0'),
                    ('2 ** 8', '2.0 ** 8'), ('7 // 2', '7.0 // 2'), ('1 + 1', 'True + True'), ('3 * 0', '3 * -0.0')]
    for a, b in equal_values:
        for x, y in ((a, b), (b, a)):
            out.append(('timeout_value = %s\nprint(timeout_value)\n' % x, 'timeout_value = %s\nprint(timeout_value)\n' % y))
    hoisted = [("['text', 'text', 'text', 'text']", "[b'text', b'text', b'text', b'text']"), ('[1, 1, 1, 1, 1, 1, 1, 1]', '[True, True, True, True, True, True, True, True]'),
               ('[0.0, 0.0, 0.0, 0.0, 0.0, 0.0]', '[False, False, False, False, False, False]'), ('[None, None, None, None, None]', '[False, False, False, False, False]')]
    for a, b in hoisted:
        for x, y in ((a, b), (b, a)):
            out.append(('def first_function():\n    return %s\n' % x, 'def second_function():\n    return %s\n' % y))
    return out


def residue(ctx, pool, limit):
    import python_minifier
    pairs = residue_programs()
    ctx.exhaustive['residue_first_forms_x_names'] = len(pairs)
    if limit < len(pairs):
        # the value pairs (few) always run; the name forms are sampled
        by_name = [p for p in pairs if 'consumer_function' in p[1]]
        others = [p for p in pairs if 'consumer_function' not in p[1]]
        ctx.rng.shuffle(by_name)
        pairs = others + by_name[:max(0, limit - len(others))]
    n = 0
    for first, second in pairs:
        for kw in (dict(), dict(rename_globals=True), dict(rename_globals=True, hoist_literals=False)):
            if ctx.time_left() < 10:
                break
            expected = pool.minify(second, kw)
            try:
                python_minifier.minify(first, **dict(kw))
            except Exception:
                pass
            try:
                got = python_minifier.minify(second, **dict(kw))
            except Exception as e:
                got = 'EXC:' + e.__class__.__name__
            ctx.count()
            n += 1
            if expected != second:
                ctx.mark_nontrivial('residue:' + first + repr(kw))
            if got != expected:
                ctx.add_violation({'input': {'sources': [first, second], 'call': 1, 'options': kw, 'preserve_locals': [], 'preserve_globals': []},
                                   'what': 'the second module is minified differently after the first one than in a fresh process', 'found_by': 'residue',
                                   'oracle': 'history', 'shapes': []})
    ctx.stage('residue', pairs=len(pairs), calls=n)


OPTSETS = [dict(), dict(rename_globals=True), dict(rename_globals=True, remove_literal_statements=True, hoist_literals=True),
           dict(hoist_literals=False, rename_locals=True)]


def programs(ctx, n):
    ex = scopegen.exhaustive(False)
    ctx.rng.shuffle(ex)
    progs = [s for _i, s in ex[:n]]
    progs += [s for _i, s in scopegen.random_programs(ctx.rng, max(10, n // 4))]
    progs.append('T = TypeVar("T")\ndef generic[T, *Ts, **P](argument_value: T) -> T:\n    local_value = argument_value\n    return local_value\n'
                 '__all__ = ["generic", "exported_value"]\nexported_value = 1\nhidden_value = exported_value\nprint(hidden_value, hidden_value)\n')
    interface = ['__all__ = ["exported_value", "hidden_value"]\nexported_value = 1\nhidden_value = exported_value\nother_name = hidden_value + hidden_value\nprint(other_name, other_name)\n',
                 '__all__ = ["public_function"]\ndef public_function(argument_value):\n    local_value = argument_value\n    return local_value, local_value\ndef helper_function():\n    return public_function(1)\n',
                 '__all__ = []\n__all__ += ["late_export"]\nlate_export = 1\nhidden_value = late_export\nprint(hidden_value, hidden_value)\n']
    return progs + interface * max(1, n // 12)


def tie_programs():
    """many bindings with *equal* reference counts, introduced through every kind of multi-name construct: any set or dict
    whose iteration order leaks into the binding order shows up as a different assignment of the short names"""
    names = ['alpha_name', 'beta_name', 'gamma_name', 'delta_name', 'epsilon_name', 'zeta_name', 'eta_name', 'theta_name']
    out = []
    out.append('def update_all():\n    global %s\n' % ', '.join(names) + ''.join('    %s = 1\n' % n for n in names) + 'update_all()\nprint(%s)\n' % ', '.join(names))
    out.append('def update_all():\n    global %s\n    global %s\n' % (', '.join(names[:4]), ', '.join(names[4:])) + ''.join('    %s = %s\n' % (n, m) for n, m in zip(names, names[1:] + names[:1])))
    out.append('def update_all():\n    global %s\n' % ', '.join(names + names[:3]) + ''.join('    %s = 1\n' % n for n in names))
    out.append('def outer_function():\n' + ''.join('    %s = 0\n' % n for n in names[:4]) + '    def inner_function():\n        nonlocal %s\n' % ', '.join(names[:4] + names[:2]) +
               ''.join('        %s += 1\n' % n for n in names[:4]) + '    return inner_function\n')
    out.append('def outer_function():\n' + ''.join('    %s = 0\n' % n for n in names) + '    def inner_function():\n        nonlocal %s\n' % ', '.join(names) +
               ''.join('        %s += 1\n' % n for n in names) + '    return inner_function\n')
    out.append('from os import %s\nprint(%s)\n' % (', '.join('%s as %s' % (m, n) for m, n in zip(['path', 'sep', 'getcwd', 'name', 'linesep', 'curdir', 'pardir', 'extsep'], names)), ', '.join(names)))
    out.append('import %s\nprint(%s)\n' % (', '.join('os.path as %s' % n for n in names), ', '.join(names)))
    out.append('def many_parameters(%s):\n    return [%s]\n' % (', '.join(names), ', '.join(names)))
    out.append('def many_keywords(*, %s):\n    return {%s}\n' % (', '.join('%s=None' % n for n in names), ', '.join(names)))
    out.append('class Holder:\n' + ''.join('    %s = %d\n' % (n, i) for i, n in enumerate(names)) + '    total = [%s]\n' % ', '.join(names))
    out.append('def literals_function():\n    return [%s]\n' % ', '.join("'literal number %d', 'literal number %d'" % (i, i) for i in range(8)))
    out.append('values = {%s}\nprint(%s)\n' % (', '.join("'key %d is long': 'key %d is long'" % (i, i) for i in range(6)), ', '.join("'key %d is long'" % i for i in range(6))))
    out.append('def unpacking(source_value):\n    (%s) = source_value\n    del %s\n' % (', '.join(names), ', '.join(names)))
    out.append('def handlers():\n' + ''.join('    try:\n        pass\n    except ValueError as %s:\n        print(%s)\n' % (n, n) for n in names[:4]))
    out.append('def comprehensions(source_value):\n    return [(%s) for %s in source_value]\n' % (', '.join(names), ', '.join(names)))
    out.append('def matcher(subject_value):\n    match subject_value:\n        case {"k": %s, **%s}:\n            return %s, %s\n        case [%s, *%s]:\n            return %s, %s\n' % (
        names[0], names[1], names[0], names[1], names[2], names[3], names[2], names[3]))
    out.append('__all__ = [%s]\n' % ', '.join(repr(n) for n in names[:4]) + ''.join('%s = %d\n' % (n, i) for i, n in enumerate(names)) + 'print(%s)\n' % ', '.join(names))
    out.append('def type_parameters[%s](argument_value):\n    return (%s)\n' % (', '.join(n.title().replace('_', '') for n in names[:4]), ', '.join(n.title().replace('_', '') for n in names[:4])))
    return out


def hash_seeds(ctx, progs, seeds):
    import tempfile
    work = [(p, OPTSETS[i % len(OPTSETS)]) for i, p in enumerate(progs)]
    work += [(p, o) for p in tie_programs() for o in OPTSETS]
    fd, path = tempfile.mkstemp(prefix='pmv-c11-', suffix='.json')
    os.close(fd)
    try:
        with open(path, 'w') as f:
            json.dump(work, f)
        results = {}
        for seed in seeds:
            env = dict(os.environ, PYTHONHASHSEED=str(seed))
            p = subprocess.run([common.PY, '-c', WORKER % common.REPO_SRC, path], env=env, stdout=subprocess.PIPE, stderr=subprocess.PIPE,
                               text=True, timeout=600)
            try:
                results[seed] = json.loads(p.stdout.strip().split('\n')[-1])
            except Exception:
                ctx.add_broken('harness', 'hash-seed worker', p.stderr[-400:])
                return
        ref_seed = seeds[0]
        for i, (src, kw) in enumerate(work):
            ctx.count(len(seeds))
            outs = set(results[s][i] for s in seeds)
            if results[ref_seed][i] != src:
                ctx.mark_nontrivial('seed:' + src + repr(kw))
            if len(outs) > 1:
                bad = [s for s in seeds if results[s][i] != results[ref_seed][i]]
                ctx.add_violation({'input': {'source': src, 'options': kw, 'seeds': [ref_seed, bad[0]]},
                                   'what': 'output depends on PYTHONHASHSEED (%d distinct outputs)' % len(outs), 'found_by': 'hash-seeds', 'oracle': 'seeds', 'shapes': []})
        ctx.stage('hash_seeds', programs=len(work), seeds=len(seeds))
    finally:
        os.unlink(path)


def fresh(src, kw):
    import python_minifier
    try:
        return python_minifier.minify(src, **copy.deepcopy(kw))
    except Exception as e:
        return 'EXC:' + e.__class__.__name__


def histories(ctx, progs, n, pool=None):
    import python_minifier
    from python_minifier import RemoveAnnotationsOptions
    rng = ctx.rng
    for _ in range(n):
        k = rng.randint(2, 6)
        chosen = [rng.choice(progs) for _ in range(k)]
        # shared, caller-owned argument objects reused across the calls of this history
        shared_pl = [rng.choice(['local_value', 'argument_value', 'value_item'])]
        shared_pg = [rng.choice(['hidden_value', 'other_name'])]
        shared_opts = RemoveAnnotationsOptions(remove_variable_annotations=rng.random() < 0.5)
        calls = []
        for src in chosen:
            kw = dict(rename_globals=rng.random() < 0.5, preserve_locals=shared_pl, preserve_globals=shared_pg, remove_annotations=shared_opts)
            if rng.random() < 0.3:
                kw['preserve_locals'] = 'local_value'
            calls.append((src if rng.random() < 0.7 else src.encode('utf-8'), kw))
        expected = []
        for src, kw in calls:
            ref_kw = dict(kw)
            ref_kw['preserve_locals'] = copy.deepcopy(kw['preserve_locals'])
            ref_kw['preserve_globals'] = copy.deepcopy(kw['preserve_globals'])
            ref_kw['remove_annotations'] = copy.deepcopy(kw['remove_annotations'])
            expected.append(pool.minify(src, ref_kw) if pool is not None else fresh(src, ref_kw))
        pl0, pg0 = list(shared_pl), list(shared_pg)
        for idx, ((src, kw), exp) in enumerate(zip(calls, expected)):
            before = (copy.deepcopy(kw['preserve_locals']), copy.deepcopy(kw['preserve_globals']), repr(kw['remove_annotations']), src)
            try:
                got = python_minifier.minify(src, **kw)
            except Exception as e:
                got = 'EXC:' + e.__class__.__name__
            ctx.count()
            after = (kw['preserve_locals'], kw['preserve_globals'], repr(kw['remove_annotations']), src)
            if before != after:
                ctx.add_violation({'input': {'sources': [c[0] if isinstance(c[0], str) else c[0].decode() for c in calls[:idx + 1]], 'call': idx,
                                             'preserve_locals': pl0, 'preserve_globals': pg0},
                                   'what': 'minify changed a caller-owned argument: %r -> %r' % (before[:2], after[:2]), 'found_by': 'history',
                                   'oracle': 'history', 'shapes': ['caller-list-extended']})
                break
            if got != exp:
                ctx.add_violation({'input': {'sources': [c[0] if isinstance(c[0], str) else c[0].decode() for c in calls[:idx + 1]], 'call': idx,
                                             'preserve_locals': pl0, 'preserve_globals': pg0},
                                   'what': 'call %d of a history differs from the same call in isolation' % idx, 'found_by': 'history',
                                   'oracle': 'history', 'shapes': []})
                break
        ctx.mark_nontrivial('hist:' + repr([c[0] for c in calls]))
    ctx.stage('histories', histories=n)


def threads(ctx, progs, rounds):
    import sys
    nthreads = 8
    # modules with many literals worth hoisting and many names: the longest stretches of per-call state
    heavy = [p for p in tie_programs() if 'literal number' in p or 'key ' in p] + [
        'def function_%d():\n    return [%s]\n' % (k, ', '.join("'text number %d of %d', 'text number %d of %d'" % (i, k, i, k) for i in range(12))) for k in range(4)]
    old_interval = sys.getswitchinterval()
    sys.setswitchinterval(1e-5)
    try:
        return _threads(ctx, progs + heavy * 3, rounds, nthreads, heavy)
    finally:
        sys.setswitchinterval(old_interval)


def _threads(ctx, progs, rounds, nthreads, heavy=None):
    for r in range(rounds):
        # half of the threads work on modules with long stretches of per-call state, so that switches fall inside them
        chosen = [ctx.rng.choice(heavy if (heavy and i % 2 == 0) else progs) for i in range(nthreads)]
        kws = [OPTSETS[(r + i) % len(OPTSETS)] for i in range(nthreads)]
        expected = [fresh(s, k) for s, k in zip(chosen, kws)]
        barrier = threading.Barrier(nthreads)
        got = [None] * nthreads

        def work(i):
            barrier.wait()
            for _ in range(3):
                got[i] = fresh(chosen[i], kws[i])
        ts = [threading.Thread(target=work, args=(i,), daemon=True) for i in range(nthreads)]
        for t in ts:
            t.start()
        for t in ts:
            t.join(30)
        if any(t.is_alive() for t in ts):
            ctx.add_violation({'input': {'sources': chosen, 'thread': -1}, 'what': 'concurrent minify() calls did not finish within 30 s (single-threaded calls take milliseconds)',
                               'found_by': 'threads', 'oracle': 'threads', 'shapes': []})
            return
        ctx.count(nthreads)
        for i in range(nthreads):
            if got[i] != expected[i]:
                ctx.add_violation({'input': {'sources': chosen, 'thread': i}, 'what': 'a thread got a different result than the single-threaded call',
                                   'found_by': 'threads', 'oracle': 'threads', 'shapes': []})
                return
    ctx.stage('threads', rounds=rounds, threads=nthreads)


def run(ctx):
    progs = programs(ctx, ctx.scale(40, 400))
    hash_seeds(ctx, progs, list(range(ctx.scale(8, 48))))
    pool = FreshPool()
    try:
        residue(ctx, pool, ctx.scale(70, 10000))
        histories(ctx, progs + [p for pair in residue_programs() for p in pair][::ctx.scale(9, 1)], ctx.scale(40, 600), pool)
    finally:
        pool.close()
    threads(ctx, progs, ctx.scale(24, 160))
    ctx.sample({'stage': 'programs', 'source': progs[0][:300]})


def search(ctx):
    progs = programs(ctx, 300)
    pool = FreshPool()
    try:
        residue(ctx, pool, 10000)
        histories(ctx, progs, 400, pool)
    finally:
        pool.close()
    if not ctx.violations:
        hash_seeds(ctx, progs, list(range(16)))


def replay(ctx, data):
    inp = data.get('input') or {}
    import python_minifier
    if data.get('oracle') == 'history':
        pl, pg = list(inp['preserve_locals']), list(inp['preserve_globals'])
        for src in inp['sources']:
            b = (list(pl), list(pg))
            try:
                python_minifier.minify(src, preserve_locals=pl, preserve_globals=pg, rename_globals=True)
            except Exception:
                pass
            if (pl, pg) != b:
                return True
        # the last call of the history against the same call in a process that has minified nothing yet
        kw = dict(inp.get('options') or {})
        pool = FreshPool()
        try:
            expected = pool.minify(inp['sources'][-1], kw)
        finally:
            pool.close()
        got = None
        for src in inp['sources']:
            try:
                got = python_minifier.minify(src, **dict(kw))
            except Exception as e:
                got = 'EXC:' + e.__class__.__name__
        return got != expected
    if data.get('oracle') == 'seeds':
        n0 = len(ctx.violations)
        hash_seeds(ctx, [inp['source']], inp['seeds'])
        return len(ctx.violations) > n0
    return bool(data.get('broken'))

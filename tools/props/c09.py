"""C09 — Dynamic name access freezes every name in the module."""
import ast

import astcmp
import scopegen
import scopes
from props import rename_common as rc

META = {
    'rule': 'programs from the scope-heavy generators with a taint trigger (exec/eval/locals/globals/vars used as builtins, star import) '
            'spliced into one of 12 syntactic positions; minified with every renaming/hoisting option set; the output tree must be '
            'identical to the input tree (identifiers at the same positions, every scope binds the same names). Control group: the '
            'same triggers shadowed by a local definition must NOT freeze the module (so the oracle is not vacuous). non-trivial = '
            'the untainted variant of the program is changed by the same options; distinct by (program, option set)',
    'assumptions': ['the taint triggers are exactly those the property lists'],
    'modelled_not_verified': ['taint detection is modelled in Lean in three parts tied by correspondence: names (PMV.Taint over the resolver model), import aliases and the only-declared rule (PMV.TaintSyntax); gating in minify() is a generated table checked by decide; that minify() combines the three as modelled is covered by the identical-AST oracle'],
}

TRIGGERS = {
    'eval_call': 'eval("1")',
    'exec_call': 'exec("x = 1")',
    'locals_call': 'locals()',
    'globals_call': 'globals()["k"]',
    'vars_call': 'vars()',
    'eval_ref': 'eval',
    'locals_attr': 'locals().get',
    'vars_arg': 'vars(some_object)',
    'vars_module': 'vars(sys.modules[__name__])',
    'vars_then_bare': '(vars(some_object), vars())',
    'vars_ref': '[vars][0]',
    'vars_kw': 'vars(*some_args)',
    'locals_ref': 'some_call(locals)',
    'globals_ref': 'globals',
    'globals_update': 'globals().update(k=1)',
    'exec_ref': 'exec',
    'exec_args': 'exec("x = 1", some_globals, some_locals)',
    'eval_args': 'eval("x", some_globals)',
    'eval_attr': 'eval.__name__',
    'exec_star': 'exec(*some_args)',
}

POSITIONS = {
    'module_stmt': '{T}\n{P}',
    'module_end': '{P}\n{T}\n',
    'in_function': '{P}\ndef trigger_function(first_param):\n    value_one = first_param\n    return {T}\n',
    'nested_function': '{P}\ndef trigger_outer():\n    def trigger_inner(inner_param):\n        return {T}\n    return trigger_inner\n',
    'class_body': '{P}\nclass TriggerClass:\n    attribute_value = {T}\n',
    'default_arg': '{P}\ndef trigger_function(first_param={T}):\n    return first_param\n',
    'decorator': '{P}\ndef deco(x): return lambda f: f\n@deco({T})\ndef trigger_function():\n    pass\n',
    'comprehension': '{P}\nresult_list = [{T} for comp_item in range(2)]\n',
    'lambda_body': '{P}\ntrigger_lambda = lambda lambda_param: {T}\n',
    'attribute_base': '{P}\nresult_value2 = ({T}).__class__\n',
    'fstring': "{P}\nresult_value2 = f'{{{T}}}'\n",
    'condition': '{P}\nif {T}:\n    pass\n',
}

STAR = ['from os.path import *\n{P}', '{P}\ndef star_function():\n    pass\nfrom os import *\n', 'from . import *\n{P}', '{P}\nfrom .. import *\n',
        'from .sibling import *\n{P}', 'try:\n    from . import *\nexcept ImportError:\n    pass\n{P}', 'if some_condition:\n    from ...pkg.mod import *\n{P}',
        '{P}\nfrom os import path, sep\nfrom . import *\n']


EVERY_BINDING = scopegen.EVERY_BINDING


def every_binding_programs():
    out = []
    for tname in sorted(TRIGGERS):
        for pname in ('module_end', 'module_stmt', 'in_function', 'lambda_body', 'class_body'):
            out.append(('%s@%s:every-binding' % (tname, pname), POSITIONS[pname].format(T=TRIGGERS[tname], P=EVERY_BINDING), EVERY_BINDING))
    for i, st in enumerate(STAR):
        out.append(('star%d:every-binding' % i, st.format(P=EVERY_BINDING), EVERY_BINDING))
    # the trigger inside each of the lambdas
    for tname in ('eval_call', 'locals_call', 'vars_call', 'exec_ref'):
        out.append(('%s@in-star-lambda:every-binding' % tname, EVERY_BINDING.replace('(lambda_rest, lambda_others)', '(lambda_rest, lambda_others, %s)' % TRIGGERS[tname]), EVERY_BINDING))
    return out


# the trigger name is also bound or declared somewhere, yet the builtin is what runs (or may run)
REBOUND = {
    'global-declared-never-assigned': 'def trigger_function(code_text):\n    global {N}\n    long_local_name = 5\n    return {N}, long_local_name, long_local_name\n{P}',
    'conditionally-bound': 'import sys\nif sys.version_info < (3,):\n    {N} = None\ndef trigger_function(code_text):\n    long_local_name = 5\n    return {N}, long_local_name, long_local_name\n{P}',
    'bound-to-itself': '{N} = {N}\ndef trigger_function(code_text):\n    long_local_name = 5\n    return {N}, long_local_name, long_local_name\n{P}',
    'bound-after-use': 'def trigger_function(code_text):\n    long_local_name = 5\n    return {N}, long_local_name, long_local_name\ntrigger_function(1)\n{N} = None\n{P}',
    'deleted-again': '{N} = None\ndel {N}\ndef trigger_function(code_text):\n    long_local_name = 5\n    return {N}, long_local_name, long_local_name\n{P}',
}


# the builtin is read in a class body that also binds the same name: still the builtin that runs
CLASS_REBOUND = [
    'class TriggerClass:\n    {N} = staticmethod({N})\n{P}',
    'class TriggerClass:\n    saved_value = {N}\n    def {N}(self):\n        return 1\n{P}',
    'class TriggerClass:\n    saved_value = {N}\n    {N} = None\n    def method_one(self, long_parameter):\n        local_value = long_parameter\n        return local_value, local_value\n{P}',
    'def outer_function():\n    class TriggerClass:\n        {N} = [{N}]\n    local_value = TriggerClass\n    return local_value, local_value\n{P}',
]


# the trigger name is bound in an enclosing *class* body, which the scopes nested in it skip when they look a name up: a method,
# lambda or comprehension of the class (or of a class nested in it) still reaches the builtin
CLASS_SHADOW = [
    'class OuterClass:\n    def {N}(self, argument_value):\n        return argument_value\n    class InnerClass:\n        def method_one(self, long_parameter):\n            local_value = long_parameter\n            return {N}("1"), local_value, local_value\n{P}',
    'class OuterClass:\n    {N} = None\n    def method_one(self, long_parameter):\n        local_value = long_parameter\n        return {N}, local_value, local_value\n{P}',
    'class OuterClass:\n    {N} = 1\n    class MiddleClass:\n        class InnerClass:\n            function_value = lambda self, long_parameter: ({N}, long_parameter, long_parameter)\n{P}',
    'class OuterClass:\n    import os as {N}\n    class InnerClass:\n        values_list = [{N} for comp_item in range(2)]\n{P}',
    'def outer_function():\n    class OuterClass:\n        {N} = 1\n        class InnerClass:\n            def method_one(self, long_parameter):\n                return {N}, long_parameter, long_parameter\n    return OuterClass\n{P}',
    'class OuterClass:\n    class {N}:\n        pass\n    class InnerClass:\n        class InnermostClass:\n            async def method_one(self, long_parameter):\n                return {N}(), long_parameter, long_parameter\n{P}',
    'class OuterClass:\n    for {N} in range(2):\n        pass\n    class InnerClass:\n        @staticmethod\n        def method_one(long_parameter, other_value=lambda inner_value: {N}):\n            return long_parameter, long_parameter\n{P}',
]


def class_rebound_programs():
    out = []
    for i, tmpl in enumerate(CLASS_SHADOW):
        for name in ('eval', 'exec', 'locals', 'globals', 'vars'):
            base = 'def other_function(first_parameter):\n    second_value = first_parameter\n    return second_value, second_value\n'
            out.append(('class-shadow:%d:%s' % (i, name), tmpl.format(N=name, P=base), base))
    for i, tmpl in enumerate(CLASS_REBOUND):
        for name in ('eval', 'exec', 'locals', 'globals', 'vars'):
            base = 'def other_function(first_parameter):\n    second_value = first_parameter\n    return second_value, second_value\n'
            out.append(('class-rebound:%d:%s' % (i, name), tmpl.format(N=name, P=base), base))
    return out


def rebound_programs():
    out = []
    for kind, tmpl in sorted(REBOUND.items()):
        for name in ('eval', 'exec', 'locals', 'globals', 'vars'):
            out.append(('rebound:%s:%s' % (kind, name), tmpl.format(N=name, P='other_value = 1\n'), 'other_value = 1\n', kind))
    return out


def tainted_programs(ctx, n):
    base = scopegen.exhaustive(False)
    ctx.rng.shuffle(base)
    out = []
    i = 0
    for ident, src in base:
        if len(out) >= n:
            break
        tname = sorted(TRIGGERS)[i % len(TRIGGERS)]
        pname = sorted(POSITIONS)[(i // len(TRIGGERS)) % len(POSITIONS)]
        i += 1
        prog = POSITIONS[pname].format(T=TRIGGERS[tname], P=src)
        out.append(('%s@%s:%s' % (tname, pname, ident), prog, src))
        if i % 5 == 0:
            out.append(('star%d:%s' % (i % len(STAR), ident), STAR[i % len(STAR)].format(P=src), src))
    return out


def identical(ctx, ident, prog, oname, extra):
    out, exc = rc.minify_with(prog, extra)
    ctx.count()
    if exc is not None:
        return None if exc == 'RecursionError' else 'minify raised %s' % exc
    try:
        p, q = ast.parse(prog), ast.parse(out)
    except SyntaxError as e:
        return 'output does not parse: %s' % e
    d = astcmp.strict_equal(p, q)
    if d:
        return 'tainted module was changed: %s' % d
    return None


def run_programs(ctx, progs, osets, found_by):
    for ident, prog, base in progs:
        try:
            compile(prog, '<c09>', 'exec', dont_inherit=True)
        except (SyntaxError, ValueError):
            ctx.bump('generator', 'rejected')
            continue
        if ctx.time_left() < 10:
            break
        for oname, extra in osets:
            why = identical(ctx, ident, prog, oname, extra)
            ctx.bump('option_set', oname)
            base_out, _ = rc.minify_with(base, extra)
            if base_out is not None and base_out != rc.minify_with(base, {})[0]:
                ctx.mark_nontrivial(ident + oname)
            if why and not why.startswith('minify raised'):
                shapes = ['hoist-under-taint'] if extra.get('hoist_literals') and not (extra.get('rename_locals') or extra.get('rename_globals')) else []
                if ident.startswith('rebound:'):
                    shapes.append('trigger-name-' + ident.split(':')[1])
                ctx.add_violation({'input': {'source': prog, 'options': extra}, 'what': why, 'found_by': found_by, 'oracle': 'identical',
                                   'shapes': shapes})
    if progs:
        ctx.sample({'stage': found_by, 'id': progs[-1][0], 'source': progs[-1][1][:300]})


# ---- allow_rename_locals / allow_rename_globals against their Lean model (PMV.Freeze; theorems T09.3, T10.4) ----

def freeze_correspondence(ctx, progs, found_by):
    """which bindings the two functions freeze, asked of the implementation and of the model on the same tree of nodes, namespaces
    and bindings, with renaming off (what taint sets), on, and on with names of the program listed"""
    import freeze_corr
    import re
    reqs, meta = [], []
    for ident, src in progs:
        names = sorted(set(re.findall(r'[A-Za-z_][A-Za-z_0-9]*', src)) - {'def', 'class', 'return', 'lambda', 'import', 'from', 'for', 'in', 'if', 'else'})
        picked = ctx.rng.sample(names, min(len(names), 3)) if names else []
        for rl, pl, rg, pg in ((False, [], False, []), (True, picked, True, picked), (True, [], True, []), (False, picked, True, picked[:1])):
            try:
                req_l, req_g, real_l, real_g, already, frozen_after_locals, n = freeze_corr.requests_for(src, rl, pl, rg, pg)
            except (SyntaxError, RecursionError):
                break
            except Exception as e:
                ctx.add_broken('correspondence', 'freeze:' + ident, 'could not observe allow_rename_locals / allow_rename_globals: %s: %s' % (e.__class__.__name__, str(e)[:200]))
                break
            reqs += [req_l, req_g]
            meta.append((ident, src, (rl, pl, rg, pg), real_l, real_g, already, frozen_after_locals, n))
    answers = ctx.driver.ask(reqs) if reqs else []
    diffs = frozen = 0
    for k, (ident, src, cfg, real_l, real_g, already, frozen_after_locals, n) in enumerate(meta):
        a_l, a_g = answers[2 * k], answers[2 * k + 1]
        ctx.count()
        if not (a_l.startswith('ok') and a_g.startswith('ok')):
            ctx.add_broken('correspondence', 'freeze:' + ident, 'driver answered %r / %r' % (a_l[:80], a_g[:80]))
            continue
        model_l = set(int(x) for x in a_l[3:].split())
        model_g = set(int(x) for x in a_g[3:].split())
        # the implementation can only be seen to freeze what was not frozen already
        ok = set(real_l) == model_l - already and set(real_g) == model_g - frozen_after_locals
        frozen += len(real_l) + len(real_g)
        if model_l or model_g:
            ctx.mark_nontrivial('freeze:%s:%r' % (ident, cfg))
        if not ok:
            diffs += 1
            ctx.add_broken('correspondence', 'freeze:' + ident,
                           'allow_rename_locals / allow_rename_globals and the model (PMV.Freeze) disagree for (rename_locals, preserve_locals, rename_globals, preserve_globals)=%r: '
                           'implementation froze locals %r globals %r, model says %r / %r (before: %r) in %r' % (
                               cfg, real_l, real_g, sorted(model_l - already), sorted(model_g - frozen_after_locals), sorted(already), src[:400]))
    ctx.stage('freeze-correspondence:' + found_by, cases=len(meta), bindings_frozen=frozen, diffs=diffs)


# ---- taint detection by names against its Lean model (PMV.Taint; theorems T09.4) ----

def taint_correspondence(ctx, progs, found_by):
    """module.tainted after resolve_names = tainted already (star import, timeit: syntactic, set by bind_names) or the model's
    verdict on the lookups resolve_names made, over the namespace tree bind_names built"""
    import taint_corr
    reqs, meta = [], []
    for ident, src in progs:
        try:
            req, before, after, n = taint_corr.request_for(src)
        except (SyntaxError, RecursionError):
            continue
        except Exception as e:
            # the scope analysis changed shape under the harness: not a verdict, a broken tie (the oracle stages decide)
            ctx.add_broken('correspondence', 'taint.names:' + ident, 'could not observe resolve_names: %s: %s' % (e.__class__.__name__, str(e)[:200]))
            continue
        reqs.append(req)
        meta.append((ident, src, before, after, n))
    answers = ctx.driver.ask(reqs) if reqs else []
    diffs = tainted = lookups = 0
    for (ident, src, before, after, n), ans in zip(meta, answers):
        ctx.count()
        lookups += n
        if not ans.startswith('ok'):
            ctx.add_broken('correspondence', 'taint.names:' + ident, 'driver answered %r' % ans[:100])
            continue
        model = ans[3:].strip() == '1'
        tainted += int(after)
        if model:
            ctx.mark_nontrivial('taint:' + ident)
        if after != (before or model):
            diffs += 1
            ctx.add_broken('correspondence', 'taint.names:' + ident,
                           'module.tainted is %r after resolve_names (was %r after bind_names), the model (PMV.Taint) says tainted by names: %r, in %r' % (after, before, model, src[:400]))
    ctx.stage('taint-correspondence:' + found_by, modules=len(meta), lookups=lookups, tainted=tainted, diffs=diffs)


# ---- the syntactic taint sources against their Lean model (PMV.TaintSyntax; theorems T09.5) ----

IMPORT_FORMS = [
    'import timeit\n', 'import timeit as clock_module\n', 'import timeit.sub_module\n', 'import os, timeit\n', 'from timeit import default_timer\n',
    'from package_name import timeit\n', 'from package_name import timeit as other_name\n', 'import timeit_helpers\n', 'import package_name.timeit\n',
    'from os import *\n', 'from . import *\n', 'from .timeit import name_one\n', 'import os.path as timeit\n', 'from package_name import name_one, timeit\n',
]
IMPORT_PLACES = [
    '{I}', 'def some_function():\n    {I}', 'class SomeClass:\n    {I}', 'class SomeClass:\n    def method_one(self):\n        if self:\n            {I}',
    'try:\n    pass\nexcept ImportError:\n    {I}', 'try:\n    pass\nfinally:\n    {I}', 'for loop_item in ():\n    pass\nelse:\n    {I}',
    'while False:\n    {I}', 'with some_context:\n    {I}', 'match subject_value:\n    case 1:\n        pass\n    case _:\n        {I}',
    'async def coroutine_function():\n    async with some_context:\n        async for loop_item in source_value:\n            {I}',
    'def outer_function():\n    class InnerClass:\n        try:\n            pass\n        except* ValueError:\n            {I}',
]
DECLARED_FORMS = [
    'def trigger_function():\n    global {N}\n    return {N}\n', 'def trigger_function():\n    global {N}\n', 'global {N}\n', 'value_one = {N}\n',
    'def trigger_function():\n    global {N}\n    {N} = 1\n', 'def trigger_function():\n    global {N}\n    del {N}\n',
    'def trigger_function():\n    global {N}\n    return {N}\nimport {N}\n', 'def trigger_function():\n    global {N}\n    return {N}\ndef {N}():\n    pass\n',
    'class SomeClass:\n    global {N}\n    attribute_one = {N}\n', 'def trigger_function():\n    global {N}, other_name\n    other_name = {N}\n',
    'def first_function():\n    global {N}\ndef second_function():\n    global {N}\n    for {N} in ():\n        pass\n',
]


def syntactic_taint_programs():
    out = []
    for i, place in enumerate(IMPORT_PLACES):
        for j, form in enumerate(IMPORT_FORMS):
            if '*' in form and i != 0:
                continue        # `import *` is only allowed at module level
            out.append(('import%d@%d' % (j, i), place.format(I=form)))
    for j, form in enumerate(DECLARED_FORMS):
        for name in ('eval', 'exec', 'locals', 'globals', 'vars', 'print', 'some_name'):
            out.append(('declared%d:%s' % (j, name), form.format(N=name)))
    return out


def syntactic_taint_correspondence(ctx, progs, found_by):
    """module.tainted after bind_names = PMV.TaintSyntax.taintedByImports of the module; is_only_declared of every module binding
    and the verdict of the loop in minify() = the model's, on the kinds of the binding's references"""
    import taint_corr
    reqs, meta = [], []
    for ident, src in progs:
        try:
            compile(src, '<c09>', 'exec', dont_inherit=True)
            ireq, before, dreq, flags, loop = taint_corr.syntactic_requests(src)
        except (SyntaxError, RecursionError):
            continue
        except Exception as e:
            if e.__class__.__name__ == 'OutOfModel':
                continue
            ctx.add_broken('correspondence', 'taint.syntactic:' + ident, 'could not observe bind_names / is_only_declared: %s: %s' % (e.__class__.__name__, str(e)[:200]))
            continue
        reqs += [ireq, dreq]
        meta.append((ident, src, before, flags, loop))
    answers = ctx.driver.ask(reqs) if reqs else []
    diffs = by_import = by_decl = bindings = 0
    for k, (ident, src, before, flags, loop) in enumerate(meta):
        ctx.count()
        ai, ad = answers[2 * k], answers[2 * k + 1]
        by_import += int(before)
        by_decl += int(loop)
        bindings += len(flags)
        if before or loop:
            ctx.mark_nontrivial('syntactic-taint:' + ident)
        if ai != 'ok %d' % int(before):
            diffs += 1
            ctx.add_broken('correspondence', 'taint.imports:' + ident, 'module.tainted is %r after bind_names, the model (PMV.TaintSyntax) answers %r, in %r' % (before, ai[:40], src[:300]))
        expect = 'ok ' + ''.join('1' if f else '0' for f in flags) + ' ' + ('1' if loop else '0')
        if ad != expect:
            diffs += 1
            ctx.add_broken('correspondence', 'taint.declared:' + ident, 'is_only_declared per binding / loop verdict: implementation %r, model %r, in %r' % (expect[3:], ad[:80], src[:300]))
    ctx.stage('syntactic-taint-correspondence:' + found_by, modules=len(meta), bindings=bindings, tainted_by_imports=by_import, tainted_by_declaration=by_decl, diffs=diffs)


def control_group(ctx):
    """Shadowed trigger names are not taint triggers: renaming must still happen (keeps the oracle honest)."""
    src = ('def eval(arg):\n    return arg\ndef locals():\n    return {}\n'
           'def some_function(long_parameter_name):\n    long_local_name = eval(long_parameter_name)\n    return locals(), long_local_name, long_local_name\n')
    out, exc = rc.minify_with(src, dict(rename_locals=True))
    ctx.count()
    if out is None or 'long_local_name' in out:
        ctx.add_broken('oracle', 'control group', 'shadowed eval/locals froze the module or minify failed: %r %r' % (out, exc))
    else:
        ctx.mark_nontrivial('control')


def run(ctx):
    progs = tainted_programs(ctx, ctx.scale(350, 5000))
    osets = rc.RENAME_OPTION_SETS if ctx.tier == 'thorough' else [rc.RENAME_OPTION_SETS[i] for i in (3, 4, 1)]
    # naming names to preserve must not unfreeze anything
    osets = osets + [('locals+preserve', dict(rename_locals=True, preserve_locals=['first_param', 'unrelated_name'])),
                     ('all+preserve', dict(rename_locals=True, rename_globals=True, hoist_literals=True, preserve_globals=['trigger_function', 'unrelated_name'], preserve_locals='first_param'))]
    run_programs(ctx, progs, osets, 'generated')
    run_programs(ctx, every_binding_programs(), osets, 'every-binding-form')
    run_programs(ctx, [(i, p, b) for i, p, b, _k in rebound_programs()], osets, 'rebound-trigger-names')
    run_programs(ctx, class_rebound_programs(), osets, 'class-rebound-trigger-names')
    freeze_correspondence(ctx, [(i, b) for i, _p, b in progs[:ctx.scale(120, 2500)]] + [('every-binding-form', EVERY_BINDING)] + scopegen.parameter_programs()[:ctx.scale(40, 400)], 'generated')
    taint_correspondence(ctx, [(i, p) for i, p, _b in progs[:ctx.scale(250, 4000)]] + [(i, p) for i, p, _b in every_binding_programs()]
                         + [(i, p) for i, p, _b, _k in rebound_programs()] + [(i, p) for i, p, _b in class_rebound_programs()]
                         + [(i, b) for i, _p, b in progs[:ctx.scale(60, 800)]], 'generated')
    syntactic_taint_correspondence(ctx, syntactic_taint_programs() + [(i, p) for i, p, _b in progs[:ctx.scale(150, 3000)]] + [(i, p) for i, p, _b in every_binding_programs()]
                                   + [(i, p) for i, p, _b, _k in rebound_programs()], 'generated')
    control_group(ctx)
    for k in ctx.known:
        if k.get('replay_source'):
            run_programs(ctx, [('rebound:%s:known' % k['match']['shape'][len('trigger-name-'):] if k.get('match', {}).get('shape', '').startswith('trigger-name-') else k['id'],
                                k['replay_source'], k['replay_source'])], rc.RENAME_OPTION_SETS, 'known')


def search(ctx):
    run_programs(ctx, class_rebound_programs() + every_binding_programs() + [(i, p, b) for i, p, b, _k in rebound_programs()], rc.RENAME_OPTION_SETS, 'search')
    if not ctx.violations:
        run_programs(ctx, tainted_programs(ctx, 3000), rc.RENAME_OPTION_SETS, 'search')


def replay(ctx, data):
    inp = data.get('input') or {}
    if 'source' in inp:
        return identical(ctx, 'replay', inp['source'], 'replay', inp.get('options') or {}) is not None
    return bool(data.get('broken'))

"""C16 — Shebang, source encoding and line endings are handled faithfully."""
import ast
import itertools

import astcmp
import sexp
from props import c02

META = {
    'rule': 'matrix: 6 encodings/cookies (utf-8, utf-8 with BOM, utf-8 cookie, latin-1 cookie, cp1252 cookie, iso-8859-15 cookie) x 3 newline '
            'conventions (LF, CRLF, lone CR) x 7 first lines (no shebang, 5 shebang spellings incl. non-ASCII and trailing blanks, a '
            'comment that is not a shebang) x {bytes, text} x preserve_shebang on/off x 6 program bodies with non-ASCII str constants, '
            'escapes and byte strings. Checked: strict tree equality of parse(output) and parse(input); the first-line rule; '
            'api(bytes) == api(text); the Lean shebang model agrees with _find_shebang. non-trivial = input has a shebang or a '
            'non-UTF-8 encoding or non-LF newlines; distinct by input bytes',
    'assumptions': ['CPython decodes source bytes per PEP 263 / BOM (ast.parse of bytes); physical lines end at LF, CRLF or CR'],
    'modelled_not_verified': ['which encoding a declared name stands for is modelled (PMV.Encoding.normalName, tables regenerated, compared with _source_encoding and '
                              'tokenize._get_normal_name on a family of names); the codecs themselves and finding the declaration (the cookie regex) are not'],
}

BODIES = [
    "x = 'plain'\nprint(x)\n",
    "s = 'café üß'\nprint(s)\n",
    # lines that look like a shebang but are not the first line: a comment, and a line of a string constant
    "x = 1\n#!/bin/false\nprint(x)\n",
    "script = '''\n#!/bin/sh\necho é\n'''\nprint(script)\n",
    "s = 'a\\tb\\\\n\\x00'\nb = b'\\xff\\x00'\n",
    "def f(name):\n    return 'naïve ' + name\n",
    "'''doc é'''\nvalue = 1\n",
    "if True:\n    text = '£' * 3\nelse:\n    text = ''\n",
]
FIRST_LINES = [None, '#!/usr/bin/env python', '#!/usr/bin/python3 -u', '#! /bin/sh ', '#!/usr/bin/pythön', '#!', '# not a shebang',
               '#!/usr/bin/python -*- coding: {ENC} -*-', '#!/usr/bin/env python3 \x0c -x', '#!/bin/sh\x0b\x1c', '#!/usr/bin/python \x85 \u2028 x',
               '#!/usr/bin/env python3 # \u20ac \u0153 \u017d']      # characters iso-8859-15 / cp1252 place where latin-1 has others
ENCODINGS = [('utf-8', None, False), ('utf-8', None, True), ('utf-8', 'utf-8', False), ('latin-1', 'latin-1', False),
             ('cp1252', 'cp1252', False), ('iso-8859-15', 'iso-8859-15', False), ('iso-8859-15', 'ISO_8859_15', False),
             ('iso-8859-2', 'iso-8859-2', False), ('latin-1', 'iso-latin-1-unix', False), ('utf-8', 'utf-8-unix', False)]
NEWLINES = ['\n', '\r\n', '\r']


def build(body, first, enc, cookie, bom, nl):
    lines = []
    if first is not None and '{ENC}' in first:
        # the coding declaration sits in the shebang line itself (PEP 263 allows line 1 or 2)
        if cookie is None:
            return None
        first, cookie = first.replace('{ENC}', cookie), None
    if first is not None:
        lines.append(first)
    if cookie is not None:
        lines.append('# -*- coding: %s -*-' % cookie)
    text = ''.join(l + '\n' for l in lines) + body
    text = text.replace('\n', nl)
    try:
        data = text.encode(enc)
    except UnicodeEncodeError:
        return None
    if bom:
        data = b'\xef\xbb\xbf' + data
    return text, data


def first_line(s):
    """first physical line (LF, CRLF or CR terminated)"""
    for i, ch in enumerate(s):
        if ch in '\r\n':
            return s[:i]
    return s


def one_case(ctx, body, first, enc, cookie, bom, nl, preserve, as_bytes):
    import python_minifier
    built = build(body, first, enc, cookie, bom, nl)
    if built is None:
        return None
    text, data = built
    try:
        ref_tree = ast.parse(data)
    except (SyntaxError, ValueError):
        return None
    src = data if as_bytes else text
    opts = dict(c02.ALL_OFF)
    opts['preserve_shebang'] = preserve
    try:
        out = python_minifier.minify(src, **opts)
    except Exception as e:
        return 'minify raised %s' % e.__class__.__name__
    problems = []
    try:
        back = ast.parse(out.encode('utf-8'))
        d = astcmp.strict_equal(ref_tree, back)
        if d:
            problems.append('the output denotes a different program: %s' % d)
    except UnicodeEncodeError:
        back = None       # lone surrogates in a shebang cannot be encoded; not generated here
    except SyntaxError as e:
        problems.append('output does not parse: %s' % e)
    has_shebang = first is not None and first.startswith('#!') and not (bom and as_bytes)
    out_first = first_line(out)
    if preserve and has_shebang:
        if out_first != first_line(text if not as_bytes else data.decode(enc)):
            problems.append('first line %r is not the shebang %r' % (out_first, first))
    else:
        if out_first.startswith('#!'):
            problems.append('a shebang line %r appears although %s' % (out_first, 'preservation is off' if not preserve else 'the source has none'))
    # bytes and text give the same result
    if as_bytes and not bom:
        try:
            other = python_minifier.minify(data.decode(enc), **opts)
            if other != out:
                problems.append('api(bytes) != api(text): %r vs %r' % (out[:80], other[:80]))
        except Exception as e:
            problems.append('api(text) raised %s while api(bytes) returned' % e.__class__.__name__)
    return '; '.join(problems) if problems else None


def shapes(first, enc, nl, as_bytes):
    s = []
    if first and 'coding' in first:
        s.append('cookie-in-shebang')
    if nl == '\r':
        s.append('lone-cr-newlines')
    if as_bytes and first and any(ord(c) > 127 for c in first) and enc != 'utf-8':
        s.append('non-utf8-shebang-bytes')
    return s


def matrix(ctx, bodies):
    n = 0
    for body, first, (enc, cookie, bom), nl, preserve, as_bytes in itertools.product(bodies, FIRST_LINES, ENCODINGS, NEWLINES, (True, False), (True, False)):
        if ctx.time_left() < 15:
            ctx.notes.append('matrix stopped by budget after %d cases' % n)
            return
        why = one_case(ctx, body, first, enc, cookie, bom, nl, preserve, as_bytes)
        n += 1
        ctx.count()
        ctx.bump('encoding', enc + ('+bom' if bom else '') + ('+cookie' if cookie else ''))
        ctx.bump('newline', repr(nl))
        if first is not None or enc != 'utf-8' or nl != '\n':
            ctx.mark_nontrivial(repr((body, first, enc, cookie, bom, nl, preserve, as_bytes)))
        if why:
            ctx.add_violation({'input': {'body': body, 'first': first, 'encoding': enc, 'cookie': cookie, 'bom': bom, 'newline': nl,
                                         'preserve': preserve, 'bytes': as_bytes}, 'what': why, 'found_by': 'matrix', 'oracle': 'matrix',
                               'shapes': shapes(first, enc, nl, as_bytes)})
    ctx.exhaustive['encoding_x_newline_x_shebang_x_kind_x_preserve'] = n


CLI_ALL_OFF = ['--no-combine-imports', '--no-remove-pass', '--no-hoist-literals', '--no-rename-locals', '--no-remove-object-base',
               '--no-convert-posargs-to-args', '--no-remove-explicit-return-none', '--no-remove-builtin-exception-brackets',
               '--no-constant-folding', '--no-remove-annotations']


def cli_matrix(ctx, bodies):
    """the same matrix through the command line (file to stdout, --output, --in-place): the bytes written are the UTF-8
    encoding of what the API returns for the file's bytes, and denote the same program"""
    import os
    import python_minifier
    import clirun
    from props import cli_common as cc
    n = 0
    with cc.Scratch() as d:
        for body, first, (enc, cookie, bom), nl in itertools.product(bodies, [None, '#!/usr/bin/env python'], ENCODINGS, NEWLINES):
            built = build(body, first, enc, cookie, bom, nl)
            if built is None:
                continue
            text, data = built
            try:
                ref_tree = ast.parse(data)
            except (SyntaxError, ValueError):
                continue
            opts = dict(c02.ALL_OFF)
            opts['preserve_shebang'] = True
            try:
                api = python_minifier.minify(data, **opts).encode('utf-8')
            except Exception:
                continue
            for mode in ('stdout', 'output', 'inplace'):
                path = os.path.join(d, 'm.py')
                with open(path, 'wb') as f:
                    f.write(data)
                argv = list(CLI_ALL_OFF)
                outp = os.path.join(d, 'out.py')
                if mode == 'output':
                    argv += ['--output', outp]
                elif mode == 'inplace':
                    argv += ['--in-place']
                r = clirun.run_cli(argv + [path], d, force=True)
                n += 1
                ctx.count()
                ctx.bump('cli_mode', mode)
                if r['exit'] != 0:
                    ctx.add_violation({'input': {'body': body, 'first': first, 'encoding': enc, 'cookie': cookie, 'bom': bom, 'newline': nl, 'cli': mode},
                                       'what': 'command line exits %s on a valid source (%s)' % (r['exit'], r['exc'] or r['stderr'][-120:]), 'found_by': 'cli-matrix',
                                       'oracle': 'cli-matrix', 'shapes': []})
                    continue
                if mode == 'stdout':
                    got = r['stdout']
                else:
                    with open(outp if mode == 'output' else path, 'rb') as f:
                        got = f.read()
                problems = []
                if got != api:
                    problems.append('command line wrote %r, the API result encoded as UTF-8 is %r' % (got[:80], api[:80]))
                try:
                    dd = astcmp.strict_equal(ref_tree, ast.parse(got))
                    if dd:
                        problems.append('the bytes written denote a different program: %s' % dd)
                except (SyntaxError, ValueError) as e:
                    problems.append('the bytes written do not parse: %s' % e)
                if enc != 'utf-8' or nl != '\n' or first:
                    ctx.mark_nontrivial('cli' + repr((body, first, enc, bom, nl, mode)))
                if problems:
                    ctx.add_violation({'input': {'body': body, 'first': first, 'encoding': enc, 'cookie': cookie, 'bom': bom, 'newline': nl, 'cli': mode},
                                       'what': '; '.join(problems), 'found_by': 'cli-matrix', 'oracle': 'cli-matrix', 'shapes': []})
    ctx.stage('cli_matrix', cases=n)


def shebang_correspondence(ctx):
    """Lean model of _find_shebang vs the real function on text inputs (code points)."""
    from python_minifier import _find_shebang
    samples = []
    alphabet = ['#', '!', '/', 'a', ' ', '\n', '\r', '\t', 'é', ' ', '\x0b', '\x0c', '\x85']
    for n in range(0, 5):
        for t in itertools.product(alphabet[:7], repeat=n):
            samples.append(''.join(t))
    for _ in range(ctx.scale(300, 4000)):
        samples.append('#!' + ''.join(ctx.rng.choice(alphabet) for _ in range(ctx.rng.randint(0, 12))))
    reqs = ['shebang ' + sexp.enc_cps([ord(c) for c in s]) for s in samples]
    answers = ctx.driver.ask(reqs)
    diffs = 0
    for s, a in zip(samples, answers):
        ctx.count()
        impl = _find_shebang(s)
        implb = _find_shebang(s.encode('utf-8'))
        model = None if a == 'ok none' else ''.join(chr(c) for c in sexp.dec_cps(a[3:]))
        if impl != model or implb != model:
            diffs += 1
            ctx.add_broken('correspondence', 'shebang:%r' % s, 'model=%r impl(text)=%r impl(bytes)=%r' % (model, impl, implb))
        if s.startswith('#!'):
            ctx.mark_nontrivial('sheb:' + s)
    ctx.stage('shebang', cases=len(samples), diffs=diffs)


def encoding_names():
    """declared names around the ones the tokenizer normalises: the four names, cut short, continued by a separator, a digit or a
    letter, in mixed case and with underscores, padded to and beyond the twelve characters that count; and real codec names"""
    bases = ['utf-8', 'latin-1', 'iso-8859-1', 'iso-latin-1', 'utf8', 'utf-16', 'latin1', 'iso8859-1', 'iso-8859-15', 'iso-8859-10', 'cp1252',
             'ascii', 'utf-8-sig', 'iso-latin-9', 'latin-9', 'latin-10', 'utf', 'iso', 'l1', 'mac-roman', 'utf-7']
    conts = ['', '-', '_', '-unix', '-dos', '_mac', '0', '5', 'x', '-1', '.', '-unix-and-more', 'unix', '--', '-é'.encode('utf-8').decode('latin-1')]
    names = set()
    for b in bases:
        for c in conts:
            n = b + c
            for v in (n, n.upper(), n.replace('-', '_'), n.title(), n[:-1], n[:12], n[:11], n + 'z' * (13 - len(n))):
                if v and all(ch.isalnum() or ch in '-_.' for ch in v) and all(ord(ch) < 128 for ch in v):
                    names.add(v)
    return sorted(names)


def encoding_correspondence(ctx):
    """the Lean model of the encoding-name normalisation (PMV.Encoding.normalName; theorems T16.4) against _source_encoding on a
    source that declares the name, and against CPython's own tokenize._get_normal_name (the specification)"""
    import codecs
    import tokenize
    from python_minifier import _source_encoding
    names = encoding_names()
    answers = ctx.driver.ask(['encoding.normal ' + sexp.enc_cps([ord(c) for c in n]) for n in names])
    diffs = spec_diffs = 0
    for n, a in zip(names, answers):
        ctx.count()
        model = a[3:] if a.startswith('ok ') else a
        ctx.bump('encoding_name_class', model)
        spec = tokenize._get_normal_name(n)
        spec_class = 'utf8' if spec == 'utf-8' and n != 'utf-8' or n == 'utf-8' else ('latin1' if spec == 'iso-8859-1' else 'other')
        if model != spec_class:
            spec_diffs += 1
            ctx.add_broken('spec', 'encoding.normal:%s' % n, 'model=%s tokenize._get_normal_name=%r' % (model, spec))
        for line in (b'# -*- coding: %s -*-\n' % n.encode('ascii'), b'#!/bin/x\n# vim: set fileencoding=%s :\n' % n.encode('ascii')):
            impl = _source_encoding(line)
            try:
                codecs.lookup(n)
                known = True
            except LookupError:
                known = False
            expect = {'utf8': 'utf-8', 'latin1': 'iso-8859-1'}.get(model, n if known else 'utf-8')
            if impl != expect:
                diffs += 1
                ctx.add_broken('correspondence', 'encoding.normal:%s' % n, 'model=%s (so %r) _source_encoding(%r)=%r' % (model, expect, line, impl))
        if model != 'other':
            ctx.mark_nontrivial('enc:' + n)
    ctx.stage('encoding-names', names=len(names), diffs=diffs, spec_diffs=spec_diffs)


def run(ctx):
    shebang_correspondence(ctx)
    encoding_correspondence(ctx)
    matrix(ctx, BODIES[:ctx.scale(4, 8)])
    cli_matrix(ctx, BODIES[:ctx.scale(4, 8)])
    ctx.sample({'stage': 'matrix', 'example': repr(build(BODIES[1], FIRST_LINES[1], 'latin-1', 'latin-1', False, '\r\n')[1])})


def search(ctx):
    matrix(ctx, BODIES)
    cli_matrix(ctx, BODIES)


def replay(ctx, data):
    i = data.get('input') or {}
    if 'body' in i and 'cli' in i:
        n0 = len(ctx.violations)
        global ENCODINGS, NEWLINES
        keep = (ENCODINGS, NEWLINES)
        ENCODINGS, NEWLINES = [(i['encoding'], i['cookie'], i['bom'])], [i['newline']]
        try:
            cli_matrix(ctx, [i['body']])
        finally:
            ENCODINGS, NEWLINES = keep
        return len(ctx.violations) > n0
    if 'body' in i:
        return one_case(ctx, i['body'], i['first'], i['encoding'], i['cookie'], i['bom'], i['newline'], i['preserve'], i['bytes']) is not None
    return bool(data.get('broken'))

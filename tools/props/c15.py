"""C15 — In-place minification touches only Python files and never corrupts one."""
import os

import clirun
from props import cli_common as cc

META = {
    'rule': 'main-loop scenarios with a table-driven fake minify (random trees, every mode, failures at random positions, missing '
            'paths) compared with the Lean model, plus real-minify runs over generated trees (nested dirs, non-python files, empty / '
            'invalid / undecodable files, symlinks to files and directories) with every failure position. non-trivial = at least '
            'one file changed or a failure occurred; distinct by input hash',
    'assumptions': ['os.walk order is taken from the real file system and given to the model as an input',
                    'each path is visited once (model hypothesis Nodup); symlink aliases are examined only by the real-code oracle',
                    'crash between truncate and write, read-only files (we run as root) are outside what can be exhibited'],
    'modelled_not_verified': ['file system is an abstract map path -> bytes; no aliasing, permissions or partial writes'],
}

# modules whose minified form is not a fixed point of minify (ties between local names are broken differently the second time):
# a second pass over the same file would be visible
UNSTABLE = [b'def f(first_value, second):\n    return second*first_value + second*first_value\n',
            b'def compute(first_value, second_value):\n    total_one = first_value + second_value\n    total_two = first_value - second_value\n    return total_one * total_two\n']
GOOD = UNSTABLE + [b'x = 1\n', b'def f(a):\n    return a\n', b'import os\nimport sys\n', b'', b'# only a comment\n', 'é = 1\n'.encode('utf-8')]
BAD = [b'def (:\n', b'\xff\xfe\x00bad', b'x = (\n', b'\x00']


VALUE_OPTIONS = ('--output', '-o', '--preserve-locals', '--preserve-globals')


def kw_of_args(args):
    """the minify() keyword arguments the documented options in `args` stand for (the options the tree runs use)"""
    kw = {}
    for i, a in enumerate(args):
        if a == '--rename-globals':
            kw['rename_globals'] = True
        elif a in ('--preserve-locals', '--preserve-globals') and i + 1 < len(args):
            key = a[2:].replace('-', '_')
            kw.setdefault(key, []).extend(n.strip() for n in args[i + 1].split(',') if n.strip())
    return kw


def api_of(src, kw=None):
    import python_minifier
    try:
        out = python_minifier.minify(src, filename='x', **(kw or {})).encode('utf-8')
    except Exception:
        return None
    return out


def real_tree_run(ctx, spec, args):
    """spec: list of (relpath, kind, payload) with kind in file|symlink|dir. Returns violation or None."""
    with cc.Scratch() as d:
        for rel, kind, payload in spec:
            p = os.path.join(d, rel)
            os.makedirs(os.path.dirname(p), exist_ok=True)
            if kind == 'file':
                with open(p, 'wb') as f:
                    f.write(payload)
            elif kind == 'dir':
                os.makedirs(p, exist_ok=True)
            else:
                os.symlink(payload, p)
        pre = clirun.snapshot(d)
        alias = dict((q, os.path.relpath(os.path.realpath(os.path.join(d, q)), os.path.realpath(d))) for q in pre)
        # which real files does the run reach, in order, and through how many paths?
        old = os.getcwd()
        os.chdir(d)
        try:
            visit = []
            outfile = None
            pos_args = []
            it = iter(args)
            for a in it:
                if a in ('--output', '-o'):
                    outfile = next(it, None)
                elif a in VALUE_OPTIONS:
                    next(it, None)
                elif not a.startswith('-'):
                    pos_args.append(a)
            for a in pos_args:
                if os.path.isdir(a):
                    for root, _dirs, files in os.walk(a, followlinks=True):
                        for fn in files:
                            if fn.endswith(('.py', '.pyw')):
                                visit.append(os.path.join(root, fn))
                else:
                    visit.append(a)
            real = [os.path.relpath(os.path.realpath(v), os.path.realpath(d)) for v in visit]
        finally:
            os.chdir(old)
        r = clirun.run_cli(args, d)
        post = clirun.snapshot(d)
    # expected: walk the visit list, stop at the first failure
    kw = kw_of_args(args)
    problems = []
    reached = set()
    failed = False
    expect_exit = 0
    state = dict(pre)
    order = list(dict.fromkeys(real))          # each real file once, at its first occurrence (what "visited" means for C15)
    done = 0
    for rp in order:
        if failed:
            break
        done += 1
        cur = state.get(rp)
        if cur is None:
            failed = True
            break
        out = api_of(cur, kw)
        if out is None:
            failed = True
            break
        if len(out) <= len(cur):
            state[rp] = out
        reached.add(rp)
    inplace = '--in-place' in args or '-i' in args
    if not inplace:
        state = dict(pre)
    multi = len(real) != len(set(real))
    multi_hit = False
    for p in sorted(set(pre) | set(post)):
        was, now = pre.get(p), post.get(p)
        if p == outfile and was is None:
            # the --output file: must hold the source or the complete result of the single source
            src = pre.get(real[0]) if real else None
            ok_vals = [None, src]
            if src is not None:
                a1 = api_of(src, kw)
                if a1 is not None and len(a1) <= len(src):
                    ok_vals = [a1]
                elif a1 is not None:
                    ok_vals = [src]
                else:
                    ok_vals = [None]
            if now not in ok_vals:
                problems.append('--output file holds neither the source nor the complete result')
            continue
        allowed = [was]
        if was is not None:
            a1 = api_of(was, kw)
            if a1 is not None and len(a1) <= len(was):
                allowed.append(a1)
        if now not in allowed:
            if real.count(alias.get(p, p)) > 1:
                multi_hit = True
            problems.append('%s: post-state is neither the original nor the complete minified module%s' % (
                p, ' (file reached through %d paths)' % real.count(p) if multi and p in real else ''))
        if alias.get(p, p) not in real and was != now:
            problems.append('%s: not a target but modified' % p)
    if failed and r['exit'] == 0:
        problems.append('a file failed but exit status is 0')
    if not failed and r['exit'] != 0 and not (len([a for a in args if not a.startswith('-')]) and False):
        problems.append('no file failed but exit status is %r (%s)' % (r['exit'], r['exc']))
    if failed:
        # files not yet visited untouched: every real file after the failing one keeps its bytes
        for rp in order[done:]:
            if pre.get(rp) != post.get(rp):
                problems.append('%s: visited after the failing file but modified' % rp)
    if problems:
        return {'input': {'spec': [(a, b, c.decode('latin-1') if isinstance(c, bytes) else c) for a, b, c in spec], 'args': args},
                'what': '; '.join(problems[:4]), 'observed': {'exit': r['exit'], 'exc': r['exc']},
                'found_by': 'random', 'oracle': 'tree',
                'shapes': ['symlink-alias-visited-twice'] if multi_hit else []}
    return None


def gen_spec(ctx, fail_pos=None):
    rng = ctx.rng
    names = ['a.py', 'b.py', 'c.pyw', 'd.py', 'e.py', 'readme.txt', 'data.json', 'mod.pyc', 'Makefile']
    dirs = ['t', 't/p', 't/p/q', 't/r']
    spec = []
    n = rng.randint(2, 7)
    used = set()
    pyfiles = []
    for _ in range(n):
        rel = rng.choice(dirs) + '/' + rng.choice(names)
        if rel in used:
            continue
        used.add(rel)
        payload = rng.choice(GOOD)
        spec.append([rel, 'file', payload])
        if rel.endswith(('.py', '.pyw')):
            pyfiles.append(len(spec) - 1)
    if fail_pos is not None and pyfiles:
        i = pyfiles[fail_pos % len(pyfiles)]
        spec[i][2] = rng.choice(BAD)
    elif rng.random() < 0.3 and pyfiles:
        spec[rng.choice(pyfiles)][2] = rng.choice(BAD)
    if rng.random() < 0.25:
        spec.append(['t/empty_dir', 'dir', None])
    # other names for files of the tree: a link next to the file, in another directory of the tree, or a linked directory
    if rng.random() < 0.4 and pyfiles:
        for _ in range(rng.randint(1, 2)):
            target = spec[rng.choice(pyfiles)][0]
            kind = rng.random()
            if kind < 0.75:
                ldir = rng.choice(dirs)
                link = ldir + '/' + rng.choice(['a_link.py', 'z_link.py', 'link.pyw', 'link.txt'])
                if link not in used:
                    used.add(link)
                    spec.append([link, 'symlink', os.path.relpath(target, ldir)])
            else:
                tdir = os.path.dirname(target)
                link = rng.choice(['t/ldir', 't/p/ldir', 't/zdir'])
                if link not in used and tdir != 't' and not tdir.startswith(link):
                    used.add(link)
                    spec.append([link, 'symlink', os.path.relpath(tdir, os.path.dirname(link))])
    return [tuple(x) for x in spec]


def real_trees(ctx, n):
    for i in range(n):
        if ctx.time_left() < 15:
            ctx.notes.append('real tree runs stopped by budget at %d' % i)
            break
        spec = gen_spec(ctx, fail_pos=(i if i % 3 == 0 else None))
        arg_choice = ctx.rng.random()
        files = [s[0] for s in spec if s[1] == 'file']
        if arg_choice < 0.6:
            args = ['--in-place', 't']
        elif arg_choice < 0.8:
            args = ['-i'] + ctx.rng.sample(files, min(len(files), ctx.rng.randint(1, 3)))
        elif arg_choice < 0.9:
            args = [ctx.rng.choice(files)]
        else:
            args = [ctx.rng.choice(files), '--output', 'out.py']
        v = real_tree_run(ctx, spec, args)
        ctx.count()
        ctx.bump('tree_args', args[0] if args[0].startswith('-') else 'single')
        ctx.mark_nontrivial(repr((spec, args)))
        if v:
            ctx.add_violation(v)
    # symlinks (to a file inside the tree, to a file outside the walked dir, to a directory)
    sym_specs = [
        ([('t/a.py', 'file', b'x = 1\n'), ('other/b.py', 'file', b'y  =  2\n'), ('t/link.py', 'symlink', '../other/b.py')], ['-i', 't']),
        ([('t/a.py', 'file', b'x = 1\n'), ('other/q/b.py', 'file', b'y  =  2\n'), ('t/ldir', 'symlink', '../other/q')], ['-i', 't']),
        ([('t/a.py', 'file', b'long_name = 1\nprint(long_name)\n'), ('t/z_alias.py', 'symlink', 'a.py')], ['-i', 't']),
        ([('t/a.txt', 'file', b'not python {'), ('t/l.py', 'symlink', 'a.txt')], ['-i', 't']),
    ]
    u = UNSTABLE[0]
    sym_specs += [
        ([('t/real.py', 'file', u), ('t/alias.py', 'symlink', 'real.py')], ['-i', 't']),
        ([('t/real.py', 'file', u), ('t/z_alias.py', 'symlink', 'real.py')], ['--in-place', 't']),
        ([('t/p/real.py', 'file', u), ('t/alias.py', 'symlink', 'p/real.py')], ['-i', 't']),
        ([('t/real.py', 'file', u), ('t/p/alias.pyw', 'symlink', '../real.py')], ['-i', 't']),
        ([('t/real.py', 'file', u), ('t/one.py', 'symlink', 'real.py'), ('t/two.py', 'symlink', 'one.py')], ['-i', 't']),
        ([('t/real.py', 'file', u), ('u/alias.py', 'symlink', '../t/real.py')], ['-i', 't', 'u']),
        ([('t/real.py', 'file', u), ('u/alias.py', 'symlink', '../t/real.py')], ['-i', 'u/alias.py', 't']),
        ([('t/real.py', 'file', u), ('u/alias.py', 'symlink', '../t/real.py')], ['-i', 't/real.py', 'u/alias.py']),
        ([('t/real.py', 'file', u)], ['-i', 't/real.py', 't/../t/real.py']),
        ([('t/real.py', 'file', u)], ['-i', 't', 't/real.py', 't']),
        ([('t/q/real.py', 'file', u), ('t/ldir', 'symlink', 'q')], ['-i', 't']),
        ([('t/q/real.py', 'file', u), ('s/ldir', 'symlink', '../t/q')], ['-i', 's', 't']),
    ]
    # options that carry a value apply to every file of the run, not only to the first one
    keep = b'def compute(first_value, second_value):\n    keep_me = first_value + second_value\n    other_local = keep_me * 2\n    return keep_me + other_local + first_value\n'
    glob = b'exported_thing = 1\ninternal_thing = exported_thing + 1\nprint(exported_thing, internal_thing, internal_thing)\n'
    many = [('t/a.py', 'file', keep), ('t/b.py', 'file', keep + b'print(compute(1, 2))\n'), ('t/c/d.py', 'file', glob + keep), ('t/e.py', 'file', glob)]
    sym_specs += [
        (many, ['-i', 't', '--preserve-locals', 'keep_me']),
        (many, ['--preserve-locals', 'keep_me,first_value', '--in-place', 't/a.py', 't/b.py', 't/c/d.py']),
        (many, ['-i', 't', '--rename-globals', '--preserve-globals', 'exported_thing']),
        (many, ['-i', 't/e.py', 't/c/d.py', 't/a.py', '--rename-globals', '--preserve-globals', 'exported_thing,compute', '--preserve-locals', 'other_local']),
        (many, ['t/c/d.py', '--rename-globals', '--preserve-globals', 'exported_thing', '--output', 'out.py']),
    ]
    for spec, args in sym_specs:
        v = real_tree_run(ctx, spec, args)
        ctx.count()
        ctx.bump('tree_args', 'symlink')
        ctx.mark_nontrivial(repr((spec, args)))
        if v:
            ctx.add_violation(v)


def run(ctx):
    d = cc.run_correspondence(ctx, ctx.scale(300, 4000))
    ctx.stage('correspondence', run_diffs=d)
    real_trees(ctx, ctx.scale(60, 1200))
    # files in legacy encodings with the real minifier: what is written is the complete UTF-8 result for the bytes read
    from props import c16
    c16.cli_matrix(ctx, c16.BODIES[1:3])


def search(ctx):
    cc.run_correspondence(ctx, 1500)
    real_trees(ctx, 300)


def replay(ctx, data):
    inp = data.get('input') or {}
    if data.get('oracle') == 'tree':
        spec = [(a, b, c.encode('latin-1') if b == 'file' else c) for a, b, c in inp['spec']]
        return real_tree_run(ctx, spec, inp['args']) is not None
    if data.get('oracle') == 'scenario':
        sc = {'files': dict((k, v.encode('latin-1')) for k, v in inp['files'].items()), 'args': inp['args'],
              'stdin': inp['stdin'].encode('latin-1'), 'force': inp['force'],
              'api': dict((k.encode('latin-1'), v) for k, v in inp['api'].items()), 'mode': 'replay'}
        r, post, _w, _d = cc.run_scenario_impl(sc)
        return any(p == 'C15' for p, _ in cc.check_scenario_oracles(ctx, sc, r, post))
    return bool(data.get('broken'))

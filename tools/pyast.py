"""ast.AST -> S-expression line for the Lean model (see lean/PMV/AstSexp.lean).

Constants carry oracle annotations computed with plain CPython (repr of float/complex/str/bytes).
JoinedStr carries the text the *implementation* prints for it (f-strings are opaque to the model;
flagged in evidence) plus its embedded expressions."""
import ast

from sexp import enc_cps, enc_str, lst


class OutOfModel(Exception):
    pass


class unlimited(object):
    """Lift CPython's int->str digit limit while the harness itself writes an integer in decimal."""

    def __enter__(self):
        import sys
        self.old = sys.get_int_max_str_digits() if hasattr(sys, 'get_int_max_str_digits') else None
        if self.old is not None:
            sys.set_int_max_str_digits(0)

    def __exit__(self, *a):
        import sys
        if self.old is not None:
            sys.set_int_max_str_digits(self.old)


def _opt(x, f):
    return 'N' if x is None else f(x)


def _id(s):
    return enc_str(s)


def _list(xs, f):
    return lst([f(x) for x in xs])


def enc_const(v):
    if v is None:
        return 'none'
    if v is True:
        return 'true'
    if v is False:
        return 'false'
    if v is Ellipsis:
        return 'ellipsis'
    if isinstance(v, int):
        with unlimited():
            return '(int %d)' % v
    if isinstance(v, float):
        return '(float %s)' % enc_str(repr(v))
    if isinstance(v, complex):
        return '(complex %s)' % enc_str(repr(v))
    if isinstance(v, str):
        return '(str %s %s)' % (enc_str(repr(v)), enc_cps([ord(c) for c in v]))
    if isinstance(v, bytes):
        return '(bytes %s %s)' % (enc_str(repr(v)), enc_cps(list(v)))
    raise OutOfModel('constant %r' % type(v))


_CTX = {'Load': 'load', 'Store': 'store', 'Del': 'del'}


def _fstring_parts(node):
    parts = []
    for v in node.values:
        if isinstance(v, ast.FormattedValue):
            parts.append(v.value)
            if v.format_spec is not None:
                parts.extend(_fstring_parts(v.format_spec))
    return parts


def _fstring_text(node):
    import python_minifier.f_string as fs
    try:
        return str(fs.OuterFString(node, pep701=True))
    except RecursionError:
        raise
    except Exception as e:
        raise OutOfModel('f-string: implementation raises %s' % e.__class__.__name__)


def enc_expr(e):
    t = e.__class__.__name__
    E = enc_expr
    if t == 'BoolOp':
        return '(BoolOp %s %s)' % (e.op.__class__.__name__, _list(e.values, E))
    if t == 'NamedExpr':
        return '(NamedExpr %s %s)' % (E(e.target), E(e.value))
    if t == 'BinOp':
        return '(BinOp %s %s %s)' % (E(e.left), e.op.__class__.__name__, E(e.right))
    if t == 'UnaryOp':
        return '(UnaryOp %s %s)' % (e.op.__class__.__name__, E(e.operand))
    if t == 'Lambda':
        return '(Lambda %s %s)' % (enc_arguments(e.args), E(e.body))
    if t == 'IfExp':
        return '(IfExp %s %s %s)' % (E(e.test), E(e.body), E(e.orelse))
    if t == 'Dict':
        return '(Dict %s %s)' % (_list(e.keys, lambda k: _opt(k, E)), _list(e.values, E))
    if t == 'Set':
        return '(Set %s)' % _list(e.elts, E)
    if t in ('ListComp', 'SetComp', 'GeneratorExp'):
        return '(%s %s %s)' % (t, E(e.elt), _list(e.generators, enc_comprehension))
    if t == 'DictComp':
        return '(DictComp %s %s %s)' % (E(e.key), E(e.value), _list(e.generators, enc_comprehension))
    if t == 'Await':
        return '(Await %s)' % E(e.value)
    if t == 'Yield':
        return '(Yield %s)' % _opt(e.value, E)
    if t == 'YieldFrom':
        return '(YieldFrom %s)' % E(e.value)
    if t == 'Compare':
        return '(Compare %s %s %s)' % (E(e.left), lst([o.__class__.__name__ for o in e.ops]), _list(e.comparators, E))
    if t == 'Call':
        return '(Call %s %s %s)' % (E(e.func), _list(e.args, E), _list(e.keywords, enc_keyword))
    if t == 'JoinedStr':
        return '(JoinedStr %s %s)' % (enc_str(_fstring_text(e)), _list(_fstring_parts(e), E))
    if t == 'Constant':
        return '(Constant %s)' % enc_const(e.value)
    if t == 'Attribute':
        return '(Attribute %s %s)' % (E(e.value), _id(e.attr))
    if t == 'Subscript':
        return '(Subscript %s %s)' % (E(e.value), E(e.slice))
    if t == 'Starred':
        return '(Starred %s)' % E(e.value)
    if t == 'Name':
        return '(Name %s %s)' % (_id(e.id), _CTX[e.ctx.__class__.__name__])
    if t == 'List':
        return '(List %s)' % _list(e.elts, E)
    if t == 'Tuple':
        return '(Tuple %s)' % _list(e.elts, E)
    if t == 'Slice':
        return '(Slice %s %s %s)' % (_opt(e.lower, E), _opt(e.upper, E), _opt(e.step, E))
    raise OutOfModel('expr ' + t)


def enc_keyword(k):
    return '(keyword %s %s)' % (_opt(k.arg, _id), enc_expr(k.value))


def enc_comprehension(c):
    return '(comprehension %s %s %s %d)' % (enc_expr(c.target), enc_expr(c.iter), _list(c.ifs, enc_expr), 1 if c.is_async else 0)


def enc_arg(a):
    return '(arg %s %s)' % (_id(a.arg), _opt(a.annotation, enc_expr))


def enc_arguments(a):
    return '(arguments %s %s %s %s %s %s %s)' % (
        _list(getattr(a, 'posonlyargs', []), enc_arg), _list(a.args, enc_arg), _opt(a.vararg, enc_arg),
        _list(a.kwonlyargs, enc_arg), _list(a.kw_defaults, lambda d: _opt(d, enc_expr)),
        _opt(a.kwarg, enc_arg), _list(a.defaults, enc_expr))


def enc_pattern(p):
    t = p.__class__.__name__
    P = enc_pattern
    if t == 'MatchValue':
        return '(MatchValue %s)' % enc_expr(p.value)
    if t == 'MatchSingleton':
        return '(MatchSingleton %s)' % enc_const(p.value)
    if t == 'MatchSequence':
        return '(MatchSequence %s)' % _list(p.patterns, P)
    if t == 'MatchMapping':
        return '(MatchMapping %s %s %s)' % (_list(p.keys, enc_expr), _list(p.patterns, P), _opt(p.rest, _id))
    if t == 'MatchClass':
        return '(MatchClass %s %s %s %s)' % (enc_expr(p.cls), _list(p.patterns, P), _list(p.kwd_attrs, _id), _list(p.kwd_patterns, P))
    if t == 'MatchStar':
        return '(MatchStar %s)' % _opt(p.name, _id)
    if t == 'MatchAs':
        return '(MatchAs %s %s)' % (_opt(p.pattern, P), _opt(p.name, _id))
    if t == 'MatchOr':
        return '(MatchOr %s)' % _list(p.patterns, P)
    raise OutOfModel('pattern ' + t)


def enc_type_param(p):
    t = p.__class__.__name__
    d = _opt(getattr(p, 'default_value', None), enc_expr)
    if t == 'TypeVar':
        return '(TypeVar %s %s %s)' % (_id(p.name), _opt(p.bound, enc_expr), d)
    if t == 'ParamSpec':
        return '(ParamSpec %s %s)' % (_id(p.name), d)
    if t == 'TypeVarTuple':
        return '(TypeVarTuple %s %s)' % (_id(p.name), d)
    raise OutOfModel('type_param ' + t)


def enc_alias(a):
    return '(alias %s %s)' % (_id(a.name), _opt(a.asname, _id))


def enc_withitem(w):
    return '(withitem %s %s)' % (enc_expr(w.context_expr), _opt(w.optional_vars, enc_expr))


def enc_stmt(s):
    t = s.__class__.__name__
    E, S = enc_expr, enc_stmt
    tp = lambda n: _list(getattr(n, 'type_params', []), enc_type_param)
    if t in ('FunctionDef', 'AsyncFunctionDef'):
        return '(FunctionDef %d %s %s %s %s %s %s)' % (
            1 if t.startswith('Async') else 0, _id(s.name), enc_arguments(s.args), _list(s.body, S),
            _list(s.decorator_list, E), _opt(s.returns, E), tp(s))
    if t == 'ClassDef':
        return '(ClassDef %s %s %s %s %s %s)' % (_id(s.name), _list(s.bases, E), _list(s.keywords, enc_keyword),
                                                 _list(s.body, S), _list(s.decorator_list, E), tp(s))
    if t == 'Return':
        return '(Return %s)' % _opt(s.value, E)
    if t == 'Delete':
        return '(Delete %s)' % _list(s.targets, E)
    if t == 'Assign':
        return '(Assign %s %s)' % (_list(s.targets, E), E(s.value))
    if t == 'TypeAlias':
        return '(TypeAlias %s %s %s)' % (E(s.name), tp(s), E(s.value))
    if t == 'AugAssign':
        return '(AugAssign %s %s %s)' % (E(s.target), s.op.__class__.__name__, E(s.value))
    if t == 'AnnAssign':
        return '(AnnAssign %s %s %s %d)' % (E(s.target), E(s.annotation), _opt(s.value, E), 1 if s.simple else 0)
    if t in ('For', 'AsyncFor'):
        return '(For %d %s %s %s %s)' % (1 if t.startswith('Async') else 0, E(s.target), E(s.iter), _list(s.body, S), _list(s.orelse, S))
    if t == 'While':
        return '(While %s %s %s)' % (E(s.test), _list(s.body, S), _list(s.orelse, S))
    if t == 'If':
        return '(If %s %s %s)' % (E(s.test), _list(s.body, S), _list(s.orelse, S))
    if t in ('With', 'AsyncWith'):
        return '(With %d %s %s)' % (1 if t.startswith('Async') else 0, _list(s.items, enc_withitem), _list(s.body, S))
    if t == 'Match':
        return '(Match %s %s)' % (E(s.subject), _list(s.cases, enc_match_case))
    if t == 'Raise':
        return '(Raise %s %s)' % (_opt(s.exc, E), _opt(s.cause, E))
    if t in ('Try', 'TryStar'):
        return '(Try %d %s %s %s %s)' % (1 if t == 'TryStar' else 0, _list(s.body, S), _list(s.handlers, enc_handler),
                                         _list(s.orelse, S), _list(s.finalbody, S))
    if t == 'Assert':
        return '(Assert %s %s)' % (E(s.test), _opt(s.msg, E))
    if t == 'Import':
        return '(Import %s)' % _list(s.names, enc_alias)
    if t == 'ImportFrom':
        return '(ImportFrom %s %s %d)' % (_opt(s.module, _id), _list(s.names, enc_alias), s.level or 0)
    if t == 'Global':
        return '(Global %s)' % _list(s.names, _id)
    if t == 'Nonlocal':
        return '(Nonlocal %s)' % _list(s.names, _id)
    if t == 'Expr':
        return '(Expr %s)' % E(s.value)
    if t == 'Pass':
        return 'Pass'
    if t == 'Break':
        return 'Break'
    if t == 'Continue':
        return 'Continue'
    raise OutOfModel('stmt ' + t)


def enc_handler(h):
    return '(handler %s %s %s)' % (_opt(h.type, enc_expr), _opt(h.name, _id), _list(h.body, enc_stmt))


def enc_match_case(c):
    return '(match_case %s %s %s)' % (enc_pattern(c.pattern), _opt(c.guard, enc_expr), _list(c.body, enc_stmt))


def enc_module(m):
    return '(Module %s)' % _list(m.body, enc_stmt)

"""Shared paths/helpers for the PMV verification tools.  Everything is relative to the checkout
this file lives in (so a snapshot under /root/.vp/runs/<n>/verif works too); /repo is the system
under verification unless PMV_REPO overrides it."""
import hashlib
import json
import os
import subprocess
import sys
import time

HERE = os.path.dirname(os.path.abspath(__file__))
VERIF = os.path.dirname(HERE)
REPO = os.environ.get('PMV_REPO', '/repo')
REPO_SRC = os.path.join(REPO, 'src')
LEAN_DIR = os.path.join(VERIF, 'lean')
GEN_DIR = os.path.join(LEAN_DIR, 'PMV', 'Generated')
# PMV_EVIDENCE_DIR lets tools/seeded_eval.py keep the evidence of runs against a deliberately broken tree out of evidence/
EVIDENCE_DIR = os.environ.get('PMV_EVIDENCE_DIR') or os.path.join(VERIF, 'evidence')
REPLAY_DIR = os.path.join(VERIF, 'replays')
DRIVER = os.path.join(LEAN_DIR, '.lake', 'build', 'bin', 'pmv-driver')
PY = '/venv/bin/python' if os.path.exists('/venv/bin/python') else sys.executable
GUARD = 'PYTHON_MINIFIER_VERIF'


def use_repo():
    """Make `import python_minifier` resolve to the *current working tree* of the repo."""
    if REPO_SRC not in sys.path[:1]:
        sys.path.insert(0, REPO_SRC)
    os.environ[GUARD] = '1'


def sha256_bytes(b):
    return hashlib.sha256(b).hexdigest()


def repo_tree_sha():
    h = hashlib.sha256()
    for root, dirs, files in os.walk(os.path.join(REPO_SRC, 'python_minifier')):
        dirs.sort()
        if '__pycache__' in dirs:
            dirs.remove('__pycache__')
        for f in sorted(files):
            if f.endswith('.py'):
                p = os.path.join(root, f)
                h.update(os.path.relpath(p, REPO_SRC).encode())
                with open(p, 'rb') as fh:
                    h.update(fh.read())
    return h.hexdigest()


def write_if_changed(path, text):
    try:
        with open(path, 'r', encoding='utf-8') as f:
            if f.read() == text:
                return False
    except FileNotFoundError:
        pass
    os.makedirs(os.path.dirname(path), exist_ok=True)
    tmp = path + '.tmp%d' % os.getpid()
    with open(tmp, 'w', encoding='utf-8') as f:
        f.write(text)
    os.replace(tmp, path)
    return True


def lean_str(s):
    out = ['"']
    for ch in s:
        o = ord(ch)
        if ch == '"':
            out.append('\\"')
        elif ch == '\\':
            out.append('\\\\')
        elif ch == '\n':
            out.append('\\n')
        elif ch == '\t':
            out.append('\\t')
        elif ch == '\r':
            out.append('\\r')
        elif o < 32 or o == 127 or 0xD800 <= o <= 0xDFFF:
            out.append('\\u{%x}' % o if not (0xD800 <= o <= 0xDFFF) else '?')
        else:
            out.append(ch)
    out.append('"')
    return ''.join(out)


def lean_bool(b):
    return 'true' if b else 'false'


def lean_list(items):
    return '[' + ', '.join(items) + ']'


def run(cmd, **kw):
    kw.setdefault('stdout', subprocess.PIPE)
    kw.setdefault('stderr', subprocess.STDOUT)
    kw.setdefault('text', True)
    return subprocess.run(cmd, **kw)


class Timer(object):
    def __init__(self):
        self.t0 = time.time()

    def elapsed(self):
        return time.time() - self.t0


def dump_json(path, obj):
    os.makedirs(os.path.dirname(path), exist_ok=True)
    tmp = path + '.tmp%d' % os.getpid()
    with open(tmp, 'w') as f:
        json.dump(obj, f, indent=1, sort_keys=True, default=repr)
        f.write('\n')
    os.replace(tmp, path)
